"""Source facts for C17: h3-quinn/src/lib.rs.

Extracted: every match arm of the three error-conversion functions (source variant -> target variant,
where the error code comes from, whether the original error is kept), and the decision points of the
stream state machines (send_data guard, poll_ready advance count, recv_id source, poll_data put-back,
deferred stop, reset saturation).  The vocabulary (variant tags) is fixed text: an unknown variant name
is an AnchorLost.
"""
import re
from rustsrc import Source, AnchorLost, parse_int, match_close

NAME = 'GenQuinn'

# quinn 0.11 enums (quinn-proto ConnectionError, quinn ReadError / WriteError) and h3::quic error enums
CONN_VARIANTS = ['VersionMismatch', 'TransportError', 'ConnectionClosed', 'ApplicationClosed', 'Reset', 'TimedOut',
                 'LocallyClosed', 'CidsExhausted']
READ_VARIANTS = ['Reset', 'ConnectionLost', 'ClosedStream', 'IllegalOrderedRead', 'ZeroRttRejected']
WRITE_VARIANTS = ['Stopped', 'ConnectionLost', 'ClosedStream', 'ZeroRttRejected']
TARGETS = ['ApplicationClose', 'Timeout', 'InternalError', 'Undefined',          # ConnectionErrorIncoming
           'ConnectionErrorIncoming', 'StreamTerminated', 'Unknown',             # StreamErrorIncoming
           'PanicArm']
DGRAM_VARIANTS = ['UnsupportedByPeer', 'Disabled', 'TooLarge', 'ConnectionLost']   # quinn SendDatagramError
DGRAM_TARGETS = ['NotAvailable', 'TooLarge', 'ConnectionError']                    # h3_datagram SendDatagramErrorIncoming
H3CONN = ['ApplicationClose', 'Timeout', 'InternalError', 'Undefined']


def split_arms(block):
    """[(pattern_text, body_text)] of a match block (text between the braces of `match x { ... }`)."""
    arms = []
    i, n = 0, len(block)
    while i < n:
        # pattern up to top-level `=>`
        depth = 0
        j = i
        while j < n:
            c = block[j]
            if c in '([{':
                depth += 1
            elif c in ')]}':
                depth -= 1
            elif c == '=' and depth == 0 and block[j:j + 2] == '=>':
                break
            j += 1
        if j >= n:
            if block[i:].strip():
                raise AnchorLost('trailing text in match: ' + block[i:].strip()[:40])
            break
        pat = block[i:j].strip()
        k = j + 2
        while k < n and block[k].isspace():
            k += 1
        if k < n and block[k] == '{':
            e = match_close(block, k)
            body = block[k + 1:e]
            k = e + 1
            while k < n and (block[k].isspace() or block[k] == ','):
                k += 1
        else:
            depth = 0
            e = k
            while e < n:
                c = block[e]
                if c == '"':
                    e += 1
                    while e < n and block[e] != '"':
                        e += 2 if block[e] == '\\' else 1
                elif c in '([{':
                    depth += 1
                elif c in ')]}':
                    depth -= 1
                elif c == ',' and depth == 0:
                    break
                e += 1
            body = block[k:e]
            k = e + 1
        arms.append((pat, body.strip()))
        i = k
    return arms


def split_alternatives(pat):
    out, depth, cur = [], 0, ''
    for c in pat:
        if c in '([{':
            depth += 1
        elif c in ')]}':
            depth -= 1
        if c == '|' and depth == 0:
            out.append(cur.strip())
            cur = ''
        else:
            cur += c
    if cur.strip():
        out.append(cur.strip())
    return out


def parse_alt(alt, variants):
    """-> (variant, whole_binder or None, field_binder or None)"""
    m = re.match(r'^(?:(\w+)\s*@\s*)?(?:\w+::)*(\w+)\s*(?:\(\s*(\w+)\s*\)|\{[^}]*\})?$', alt)
    if not m:
        raise AnchorLost('pattern ' + alt)
    whole, var, fld = m.group(1), m.group(2), m.group(3)
    if var not in variants:
        raise AnchorLost('unknown variant ' + var)
    if fld == '_':
        fld = None
    return var, whole, fld


def squash(x):
    return re.sub(r'\s+', '', x)


def classify_body(body, whole, fld):
    """-> (target, code_src, keeps_original)   code_src: 'passed' | ('const', n) | 'absent' | 'viaconn'

    Strict: the whole arm body (white space removed) must be ONE of the known expression shapes: a single
    constructor application, no control flow.  Anything else is an AnchorLost."""
    flat = squash(body)
    if re.search(r'\b(if|match|return|else|loop|while|for|let)\b', body) or 'matches!' in body or '?' in flat.replace('"', ''):
        if not re.fullmatch(r'panic!\("[^"]*"\)', flat):
            raise AnchorLost('control flow inside a conversion arm: ' + flat[:80])
    if len(re.findall(r'\b(?:ConnectionErrorIncoming|StreamErrorIncoming)::\w+', body)) > 1:
        raise AnchorLost('more than one target constructor in a conversion arm: ' + flat[:80])
    if re.fullmatch(r'(?:panic|unreachable)!\((?:"[^"]*")?\)', flat):
        return 'PanicArm', 'absent', False
    m = re.fullmatch(r'ConnectionErrorIncoming::Timeout', flat)
    if m:
        return 'Timeout', 'absent', False
    m = re.fullmatch(r'ConnectionErrorIncoming::Undefined\(Arc::new\((\w+)\)\)', flat)
    if m:
        if whole is None or m.group(1) != whole:
            raise AnchorLost('Undefined does not keep the original error: ' + flat[:80])
        return 'Undefined', 'absent', True
    m = re.fullmatch(r'StreamErrorIncoming::Unknown\(Box::new\((\w+)\)\)', flat)
    if m:
        if whole is None or m.group(1) != whole:
            raise AnchorLost('Unknown does not keep the original error: ' + flat[:80])
        return 'Unknown', 'absent', True
    m = re.fullmatch(r'StreamErrorIncoming::ConnectionErrorIncoming\{connection_error:convert_connection_error\((\w+)\),?\}', flat)
    if m:
        if fld is None or m.group(1) != fld:
            raise AnchorLost('nested connection error ' + flat[:80])
        return 'ConnectionErrorIncoming', 'viaconn', False
    m = re.fullmatch(r'(?:ConnectionErrorIncoming::(ApplicationClose)|StreamErrorIncoming::(StreamTerminated))\{error_code:([^,}]+),?\}', flat)
    if m:
        target = m.group(1) or m.group(2)
        expr = m.group(3)
        if fld and expr in (fld + '.into_inner()', fld + '.error_code.into()', fld + '.error_code.into_inner()',
                            fld + '.into()', 'u64::from(' + fld + ')', 'u64::from(' + fld + '.error_code)'):
            return target, 'passed', False
        try:
            return target, ('const', parse_int(expr)), False
        except ValueError:
            raise AnchorLost('error_code expression ' + expr)
    raise AnchorLost('conversion arm of unknown shape: ' + flat[:100])


def table(src, fname, variants, spans):
    body, spans[fname] = src.fn_body(fname)
    m = re.match(r'\s*match\s+\w+\s*\{', body)
    if not m:
        raise AnchorLost(fname + ': the body does not start with `match <ident> {`: ' + squash(body)[:80])
    i = m.end() - 1
    j = match_close(body, i)
    if body[j + 1:].strip():
        raise AnchorLost(fname + ': statements after the match: ' + squash(body[j + 1:])[:80])
    rows = []
    for pat, arm in split_arms(body[i + 1:j]):
        for alt in split_alternatives(pat):
            var, whole, fld = parse_alt(alt, variants)
            rows.append((var,) + classify_body(arm, whole, fld))
    seen = [r[0] for r in rows]
    if sorted(seen) != sorted(variants):
        raise AnchorLost('%s: arms %s do not cover %s exactly once' % (fname, seen, variants))
    return rows


def match_block(body, what):
    m = re.match(r'\s*match\s+\w+\s*\{', body)
    if not m:
        raise AnchorLost(what + ': the body does not start with `match <ident> {`')
    i = m.end() - 1
    j = match_close(body, i)
    if body[j + 1:].strip():
        raise AnchorLost(what + ': statements after the match')
    return body[i + 1:j]


def extract_datagram(repo, f, spans):
    """h3-quinn/src/datagram.rs: the two conversion tables and what send_datagram hands to Quinn"""
    src = Source(repo + '/h3-quinn/src/datagram.rs')
    body, spans['convert_send_datagram_error'] = src.fn_body('convert_send_datagram_error')
    rows = []
    for pat, arm in split_arms(match_block(body, 'convert_send_datagram_error')):
        for alt in split_alternatives(pat):
            var, whole, fld = parse_alt(alt, DGRAM_VARIANTS)
            m = re.search(r'\bSendDatagramErrorIncoming::(\w+)', arm)
            if not m or m.group(1) not in DGRAM_TARGETS:
                raise AnchorLost('datagram arm ' + arm[:60])
            via = False
            if m.group(1) == 'ConnectionError':
                mm = re.search(r'ConnectionError\(\s*convert_h3_error_to_datagram_error\(\s*convert_connection_error\(\s*(\w+)\s*\)\s*\)\s*,?\s*\)', arm)
                if not mm or mm.group(1) != fld:
                    raise AnchorLost('datagram connection error ' + arm[:80])
                via = True
            rows.append((var, m.group(1), via))
    if sorted(r[0] for r in rows) != sorted(DGRAM_VARIANTS):
        raise AnchorLost('convert_send_datagram_error arms')
    f['dgram'] = rows
    body, spans['convert_h3_error_to_datagram_error'] = src.fn_body('convert_h3_error_to_datagram_error')
    rows = []
    for pat, arm in split_arms(match_block(body, 'convert_h3_error_to_datagram_error')):
        m = re.match(r'^(?:\w+::)*(\w+)\s*(?:\{\s*(\w+)\s*\}|\(\s*(\w+)\s*\))?$', pat)
        if not m or m.group(1) not in H3CONN:
            raise AnchorLost('h3->datagram pattern ' + pat)
        binder = m.group(2) or m.group(3)
        t = re.match(r'^(?:\w+::)*(\w+)\s*(?:\{\s*(\w+)\s*(?::\s*(\w+)\s*)?\}|\(\s*(\w+)\s*\))?$', arm.strip())
        if not t or t.group(1) not in H3CONN:
            raise AnchorLost('h3->datagram arm ' + arm[:60])
        payload = t.group(3) or t.group(2) or t.group(4)
        rows.append((m.group(1), t.group(1), (binder is None and payload is None) or (binder is not None and payload == binder)))
    if sorted(r[0] for r in rows) != sorted(H3CONN):
        raise AnchorLost('convert_h3_error_to_datagram_error arms')
    f['h3dg'] = rows
    body, spans['send_datagram'] = src.fn_body('send_datagram')
    if squash(body) != ('letmutbuf:EncodedDatagram<B>=data.into();self.conn.send_datagram(buf.copy_to_bytes(buf.remaining()))'
                        '.map_err(convert_send_datagram_error)'):
        raise AnchorLost('send_datagram is not the known body: ' + squash(body)[:160])
    f['send_datagram_whole'] = True
    body, spans['poll_incoming_datagram'] = src.fn_body('poll_incoming_datagram')
    if squash(body) != ('Poll::Ready(ready!(self.datagrams.poll_next_unpin(cx)).expect("self.datagramsneverreturnsNone")'
                        '.map_err(convert_connection_error),)'):
        raise AnchorLost('poll_incoming_datagram is not the known body: ' + squash(body)[:160])
    check_inventory(src, DGRAM_INVENTORY, 'datagram.rs')


# whole bodies (white space removed) of the open/accept wrappers: the error of Quinn's future goes through
# convert_connection_error, the streams are wrapped by the adapter's constructors
OPEN_BIDI = ('letbi=self.opening_bi.get_or_insert_with(||{Box::pin(stream::unfold(self.conn.clone(),|conn|async{Some((conn.open_bi().await,conn))}))});'
             'let(send,recv)=ready!(bi.poll_next_unpin(cx)).expect("BoxStreamdoesnotreturnNone")'
             '.map_err(|e|StreamErrorIncoming::ConnectionErrorIncoming{connection_error:convert_connection_error(e),})?;'
             'Poll::Ready(Ok(Self::BidiStream{send:Self::SendStream::new(send),recv:RecvStream::new(recv),}))')
OPEN_SEND = ('letuni=self.opening_uni.get_or_insert_with(||{Box::pin(stream::unfold(self.conn.clone(),|conn|async{Some((conn.open_uni().await,conn))}))});'
             'letsend=ready!(uni.poll_next_unpin(cx)).expect("BoxStreamdoesnotreturnNone")'
             '.map_err(|e|StreamErrorIncoming::ConnectionErrorIncoming{connection_error:convert_connection_error(e),})?;'
             'Poll::Ready(Ok(Self::SendStream::new(send)))')
CLOSE = 'self.conn.close(VarInt::from_u64(code.value()).expect("errorcodeVarInt"),reason,);'
ACCEPT_BIDI = ('let(send,recv)=ready!(self.incoming_bi.poll_next_unpin(cx)).expect("self.incoming_biBoxStreamneverreturnsNone")'
               '.map_err(convert_connection_error)?;'
               'Poll::Ready(Ok(Self::BidiStream{send:Self::SendStream::new(send),recv:Self::RecvStream::new(recv),}))')
ACCEPT_RECV = ('letrecv=ready!(self.incoming_uni.poll_next_unpin(cx)).expect("self.incoming_uniBoxStreamneverreturnsNone")'
               '.map_err(convert_connection_error)?;Poll::Ready(Ok(Self::RecvStream::new(recv)))')
OPENER = 'OpenStreams{conn:self.conn.clone(),opening_bi:None,opening_uni:None,}'
CLONE = 'Self{conn:self.conn.clone(),opening_bi:None,opening_uni:None,}'
# poll_data: [sticky reset reported again] take/set the read future, poll it, [deliver a deferred stop] [put the stream
# back] [remember the peer's reset] convert the chunk
POLL_DATA = ('%s'
             'ifletSome(mutstream)=self.stream.take(){self.read_chunk_fut.set(asyncmove{letchunk=stream.read_chunk(usize::MAX,true).await;(stream,chunk)})};'
             'let(mutstream,chunk)=ready!(self.read_chunk_fut.poll(cx));'
             '%s%s%s'
             'Poll::Ready(Ok(chunk.map_err(convert_read_error_to_stream_error)?.map(|c|c.bytes)))')
POLL_DATA_STOP = 'ifletSome(error_code)=self.pending_stop.take(){let_=stream.stop(error_code);}'
POLL_DATA_PUT = 'self.stream=Some(stream);'
# the memo of the peer's reset (quinn answers every read after the one that reported the reset with a clean end of
# stream): checked first, recorded from the raw ReadError before the chunk is converted
POLL_DATA_MEMO_HEAD = 'ifletSome(error_code)=self.reset{returnPoll::Ready(Err(StreamErrorIncoming::StreamTerminated{error_code}));}'
POLL_DATA_MEMO_REC = 'ifletErr(ReadError::Reset(error_code))=&chunk{self.reset=Some(error_code.into_inner());}'
POLL_SEND_GUARD = 'ifself.writing.is_some(){panic!("poll_sendcalledwhilesendstreamisnotready")}'
POLL_SEND_REST = ('lets=Pin::new(&mutself.stream);letres=ready!(s.poll_write(cx,buf.chunk()));matchres{'
                  'Ok(written)=>{buf.advance(written);Poll::Ready(Ok(written))}'
                  'Err(err)=>Poll::Ready(Err(convert_write_error_to_stream_error(err))),}')


def extract_sites(src, f, spans):
    """open / accept / close wrappers of BOTH OpenStreams impls, opener(), Clone; poll_send; poll_data statement order"""
    def body_of(impl_re, fn, key):
        _, _, m = src.item_block(impl_re)
        b, spans[key] = src.fn_body(fn, after=m.start())
        return squash(b)
    sites = {}
    for tag, impl_re in (('conn', r'impl<B>\s+quic::OpenStreams<B>\s+for\s+Connection\b'),
                         ('opener', r'impl<B>\s+quic::OpenStreams<B>\s+for\s+OpenStreams\b')):
        for fn, want in (('poll_open_bidi', OPEN_BIDI), ('poll_open_send', OPEN_SEND), ('close', CLOSE)):
            got = body_of(impl_re, fn, tag + '::' + fn)
            if got != want:
                raise AnchorLost('%s (impl OpenStreams for %s) is not the known wrapper: %s' % (fn, tag, got[:160]))
            sites[tag + '_' + fn] = True
    for fn, want in (('poll_accept_bidi', ACCEPT_BIDI), ('poll_accept_recv', ACCEPT_RECV), ('opener', OPENER)):
        got = body_of(r'impl<B>\s+quic::Connection<B>\s+for\s+Connection\b', fn, 'conn::' + fn)
        if got != want:
            raise AnchorLost('%s is not the known wrapper: %s' % (fn, got[:160]))
        sites['conn_' + fn] = True
    got = body_of(r'impl\s+Clone\s+for\s+OpenStreams\b', 'clone', 'opener::clone')
    if got != CLONE:
        raise AnchorLost('OpenStreams::clone: ' + got[:120])
    sites['opener_clone'] = True
    f['sites'] = sites
    # BidiStream delegates
    _, _, m = src.item_block(r'impl<B>\s+quic::SendStreamUnframed<B>\s+for\s+BidiStream<B>')
    b, _ = src.fn_body('poll_send', after=m.start())
    if squash(b) != 'self.send.poll_send(cx,buf)':
        raise AnchorLost('BidiStream::poll_send delegate')
    # poll_send of SendStream: guard present or absent, the rest verbatim
    got = body_of(r'impl<B>\s+quic::SendStreamUnframed<B>\s+for\s+SendStream<B>', 'poll_send', 'poll_send')
    if got == POLL_SEND_GUARD + POLL_SEND_REST:
        f['poll_send_guard'] = True
    elif got == POLL_SEND_REST:
        f['poll_send_guard'] = False
    else:
        raise AnchorLost('poll_send is not the known body: ' + got[:200])
    # poll_data: statement order pinned (stop delivery and put-back happen BEFORE the `?` on the chunk)
    got = body_of(r'impl\s+quic::RecvStream\s+for\s+RecvStream\s*\{', 'poll_data', 'poll_data')
    # the reset memo is either there completely (checked first AND recorded after the put-back) or not at all
    f['poll_data_puts_back_on_error'] = True
    f['poll_data_reset_memo'] = None
    for memo in (True, False):
        head, rec = (POLL_DATA_MEMO_HEAD, POLL_DATA_MEMO_REC) if memo else ('', '')
        for stop in (True, False):
            for put in (True, False):
                if got == POLL_DATA % (head, POLL_DATA_STOP if stop else '', POLL_DATA_PUT if put else '', rec):
                    f['poll_data_reset_memo'] = memo
        # known variant: the chunk's error is converted (and returned by `?`) BEFORE the stream is put back,
        # i.e. after a failed read the stream is lost
        alt = POLL_DATA.replace('Poll::Ready(Ok(chunk.map_err(convert_read_error_to_stream_error)?.map(|c|c.bytes)))',
                                'Poll::Ready(Ok(chunk.map(|c|c.bytes)))') % (
            head, POLL_DATA_STOP, rec, 'letchunk=chunk.map_err(convert_read_error_to_stream_error)?;' + POLL_DATA_PUT)
        if got == alt:
            f['poll_data_puts_back_on_error'] = False
            f['poll_data_reset_memo'] = memo
        if got == POLL_DATA % (head, POLL_DATA_STOP, 'drop(stream);', rec):
            f['poll_data_reset_memo'] = memo
    if f['poll_data_reset_memo'] is None:
        raise AnchorLost('poll_data is not the known statement sequence: ' + got[:200])


def inventory(src):
    """top-level items of a file: every `impl ... {` header (white space removed) with the names of its fns, and every free fn"""
    text = src.text
    items, depth, i, n = [], 0, 0, len(text)
    while i < n:
        c = text[i]
        if c == '"':
            i += 1
            while i < n and text[i] != '"':
                i += 2 if text[i] == '\\' else 1
        elif c == '{':
            depth += 1
        elif c == '}':
            depth -= 1
        elif depth == 0:
            m = re.compile(r'\bimpl\b[^{;]*\{').match(text, i)
            if m and (i == 0 or not (text[i - 1].isalnum() or text[i - 1] == '_')):
                j = match_close(text, m.end() - 1)
                fns = re.findall(r'\bfn\s+(\w+)', text[m.end():j])
                items.append(squash(text[i:m.end() - 1]) + ':' + ','.join(fns))
                i = j
            else:
                m = re.compile(r'\bfn\s+(\w+)').match(text, i)
                if m and (i == 0 or not (text[i - 1].isalnum() or text[i - 1] == '_')):
                    items.append('fn:' + m.group(1))
                    i = m.end() - 1
        i += 1
    return items


LIB_INVENTORY = [
    'implConnection:new',
    'impl<B>quic::Connection<B>forConnectionwhereB:Buf,:poll_accept_bidi,poll_accept_recv,opener',
    'fn:convert_connection_error',
    'impl<B>quic::OpenStreams<B>forConnectionwhereB:Buf,:poll_open_bidi,poll_open_send,close',
    'impl<B>quic::OpenStreams<B>forOpenStreamswhereB:Buf,:poll_open_bidi,poll_open_send,close',
    'implCloneforOpenStreams:clone',
    'impl<B>quic::BidiStream<B>forBidiStream<B>whereB:Buf,:split',
    'impl<B:Buf>quic::RecvStreamforBidiStream<B>:poll_data,stop_sending,recv_id',
    'impl<B>quic::SendStream<B>forBidiStream<B>whereB:Buf,:poll_ready,poll_finish,reset,send_data,send_id',
    'impl<B>quic::SendStreamUnframed<B>forBidiStream<B>whereB:Buf,:poll_send',
    'impl<B>quic::Is0rttforBidiStream<B>whereB:Buf,:is_0rtt',
    'implRecvStream:new',
    'implquic::RecvStreamforRecvStream:poll_data,stop_sending,recv_id',
    'implquic::Is0rttforRecvStream:is_0rtt',
    'fn:convert_read_error_to_stream_error',
    'fn:convert_write_error_to_stream_error',
    'impl<B>SendStream<B>whereB:Buf,:new',
    'impl<B>quic::SendStream<B>forSendStream<B>whereB:Buf,:poll_ready,poll_finish,reset,send_data,send_id',
    'impl<B>quic::SendStreamUnframed<B>forSendStream<B>whereB:Buf,:poll_send',
]
DGRAM_INVENTORY = [
    'impl<B:Buf>SendDatagram<B>forSendDatagramHandler:send_datagram',
    'implRecvDatagramforRecvDatagramHandler:poll_incoming_datagram',
    'impl<B:Buf>DatagramConnectionExt<B>forConnection:send_datagram_handler,recv_datagram_handler',
    'fn:convert_send_datagram_error',
    'fn:convert_h3_error_to_datagram_error',
]


def check_inventory(src, expected, name):
    got = inventory(src)
    if got != expected:
        new = [x for x in got if x not in expected]
        gone = [x for x in expected if x not in got]
        raise AnchorLost('%s: the impl blocks / functions are not the known ones (new: %s; missing: %s)' % (name, new[:3], gone[:3]))


def extract(repo):
    src = Source(repo + '/h3-quinn/src/lib.rs')
    f, spans = {}, {}
    extract_datagram(repo, f, spans)
    extract_sites(src, f, spans)
    f['conn'] = table(src, 'convert_connection_error', CONN_VARIANTS, spans)
    f['read'] = table(src, 'convert_read_error_to_stream_error', READ_VARIANTS, spans)
    f['write'] = table(src, 'convert_write_error_to_stream_error', WRITE_VARIANTS, spans)

    check_inventory(src, LIB_INVENTORY, 'lib.rs')
    # ---- RecvStream: whole bodies (comments and white space removed); an unknown shape is an AnchorLost,
    # never a silently negated fact
    _, _, m = src.item_block(r'impl\s+RecvStream\s*\{')
    body, spans['RecvStream::new'] = src.fn_body('new', after=m.start())
    new_body = ('letis_0rtt=stream.is_0rtt();letnum:u64=stream.id().into();Self{id:num.try_into().expect("invalidstreamid"),'
                'stream:Some(stream),read_chunk_fut:ReusableBoxFuture::new(async{unreachable!()}),is_0rtt,pending_stop:None,%s}')
    if squash(body) != new_body % ('reset:None,' if f['poll_data_reset_memo'] else ''):
        raise AnchorLost('RecvStream::new is not the known body (the reset memo starts empty exactly when poll_data keeps one): '
                         + squash(body)[:200])
    # no other statement of the file touches the memo
    uses = re.findall(r'self\.reset\b(?!\()', src.text)
    if len(uses) != (2 if f['poll_data_reset_memo'] else 0):
        raise AnchorLost('self.reset is used %d times in lib.rs (known: checked once and set once in poll_data)' % len(uses))
    f['recv_new_caches_id'] = True
    _, _, m = src.item_block(r'impl<B>\s+SendStream<B>\s+where')
    body, spans['SendStream::new'] = src.fn_body('new', after=m.start())
    if squash(body) != 'Self{stream,writing:None,}':
        raise AnchorLost('SendStream::new is not the known body: ' + squash(body)[:120])
    _, _, m = src.item_block(r'impl\s+quic::RecvStream\s+for\s+RecvStream\s*\{')
    body, spans['recv_id'] = src.fn_body('recv_id', after=m.start())
    flat = squash(body)
    if flat == 'self.id':
        f['recv_id_cached'] = True
    elif flat == 'letnum:u64=self.stream.as_ref().unwrap().id().into();num.try_into().expect("invalidstreamid")':
        f['recv_id_cached'] = False
    else:
        raise AnchorLost('recv_id body ' + flat[:80])
    body, spans['poll_data'] = src.fn_body('poll_data', after=m.start())
    flat = squash(body)           # the statement sequence itself is compared in extract_sites
    f['poll_data_puts_back'] = POLL_DATA_PUT in flat
    f['poll_data_delivers_stop'] = POLL_DATA_STOP in flat
    body, spans['stop_sending'] = src.fn_body('stop_sending', after=m.start())
    head = ('leterror_code=VarInt::from_u64(error_code).expect("invaliderror_code");'
            'ifletSome(stream)=self.stream.as_mut(){let_=stream.stop(error_code);}')
    if squash(body) == head + 'else{self.pending_stop=Some(error_code);}':
        f['stop_sending_defers'] = True
    elif squash(body) == head:
        f['stop_sending_defers'] = False
    else:
        raise AnchorLost('stop_sending is not the known body: ' + squash(body)[:200])

    # ---- SendStream
    _, _, m = src.item_block(r'impl<B>\s+quic::SendStream<B>\s+for\s+SendStream<B>')
    body, spans['poll_ready'] = src.fn_body('poll_ready', after=m.start())
    # the write error is returned with `?` (the buffer stays in `writing`), or the buffer is given up first
    loop = ('ifletSome(refmutdata)=self.writing{whiledata.has_remaining(){letstream=Pin::new(&mutself.stream);'
            'letwritten=%s'
            'data.advance(written);}}')
    keep = 'ready!(stream.poll_write(cx,data.chunk())).map_err(convert_write_error_to_stream_error)?;'
    give_up = ('matchready!(stream.poll_write(cx,data.chunk())){Ok(written)=>written,Err(error)=>{self.writing=None;'
               'returnPoll::Ready(Err(convert_write_error_to_stream_error(error)));}};')
    flat = squash(body)
    f['poll_ready_gives_up_on_error'] = None
    for gives_up, stmt in ((False, keep), (True, give_up)):
        if flat == loop % stmt + 'self.writing=None;Poll::Ready(Ok(()))':
            f['poll_ready_clears_writing'], f['poll_ready_gives_up_on_error'] = True, gives_up
        elif flat == loop % stmt + 'Poll::Ready(Ok(()))':
            f['poll_ready_clears_writing'], f['poll_ready_gives_up_on_error'] = False, gives_up
    if f['poll_ready_gives_up_on_error'] is None:
        raise AnchorLost('poll_ready is not the known body (loop over poll_write advancing by the accepted count, '
                         'then `self.writing = None`): ' + flat[:240])
    f['poll_ready_advances_by_written'] = True
    body, spans['send_data'] = src.fn_body('send_data', after=m.start())
    flat = squash(body)
    store = 'self.writing=Some(data.into());Ok(())'
    g = re.fullmatch(r'ifself\.writing\.is_some\(\)\{#\[cfg\(feature="tracing"\)\]tracing::error!\("[^"]*"\);'
                     r'returnErr\(StreamErrorIncoming::ConnectionErrorIncoming\{connection_error:ConnectionErrorIncoming::'
                     r'(InternalError\("[^"]*"\.to_string\(\),?\)|Timeout),?\}\);\}' + re.escape(store), flat)
    if g:
        f['send_data_guard'] = True
        f['send_data_refusal'] = 'InternalError' if g.group(1).startswith('InternalError') else 'Timeout'
    elif flat == store:
        f['send_data_guard'] = False
        f['send_data_refusal'] = 'InternalError'
    else:
        raise AnchorLost('send_data is not the known body: ' + flat[:240])
    body, spans['send_id'] = src.fn_body('send_id', after=m.start())
    if squash(body) != 'letnum:u64=self.stream.id().into();num.try_into().expect("invalidstreamid")':
        raise AnchorLost('send_id body')
    body, spans['reset'] = src.fn_body('reset', after=m.start())
    if squash(body) == 'let_=self.stream.reset(VarInt::from_u64(reset_code).unwrap_or(VarInt::MAX));':
        f['reset_saturates'] = True
    elif squash(body) in ('let_=self.stream.reset(VarInt::from_u64(reset_code).unwrap());',
                          'let_=self.stream.reset(VarInt::from_u64(reset_code).expect("invalidreset_code"));'):
        f['reset_saturates'] = False
    else:
        raise AnchorLost('reset is not the known body: ' + squash(body)[:160])
    body, spans['poll_finish'] = src.fn_body('poll_finish', after=m.start())
    fin = 'Poll::Ready(self.stream.finish().map_err(|e|StreamErrorIncoming::Unknown(Box::new(e))),)'
    drain = 'ifself.writing.is_some(){ready!(self.poll_ready(cx))?;}'
    if squash(body) == drain + fin:
        f['poll_finish_drains'] = True       # a pending write is written out (or its error returned) before finish()
    elif squash(body) == fin:
        f['poll_finish_drains'] = False
    else:
        raise AnchorLost('poll_finish is not the known body: ' + squash(body)[:160])
    return f, spans


def render(f):
    L = ['(* GENERATED by translate/gen_quinn.py from h3-quinn/src/lib.rs *)',
         'From H3V Require Import Base.Bytes.',
         '(* vocabulary: variant tags of quinn 0.11 ConnectionError / ReadError / WriteError and of h3::quic error enums *)']
    for i, v in enumerate(CONN_VARIANTS):
        L.append('Definition qc_%s : N := %d.' % (v, i))
    for i, v in enumerate(READ_VARIANTS):
        L.append('Definition qr_%s : N := %d.' % (v, i))
    for i, v in enumerate(WRITE_VARIANTS):
        L.append('Definition qw_%s : N := %d.' % (v, i))
    for i, v in enumerate(TARGETS):
        L.append('Definition h_%s : N := %d.' % (v, i))
    for i, v in enumerate(DGRAM_VARIANTS):
        L.append('Definition qd_%s : N := %d.' % (v, i))
    for i, v in enumerate(DGRAM_TARGETS):
        L.append('Definition hd_%s : N := %d.' % (v, i))
    L.append('Inductive codesrc := CodePassed | CodeConst (n : N) | CodeAbsent | CodeViaConn.')
    L.append('(* one row per match arm alternative: source variant, (target variant, (code source, original error kept)) *)')

    def rows(name, pre, rs):
        items = []
        for var, target, code, keeps in rs:
            if code == 'passed':
                c = 'CodePassed'
            elif code == 'absent':
                c = 'CodeAbsent'
            elif code == 'viaconn':
                c = 'CodeViaConn'
            else:
                c = '(CodeConst %d)' % code[1]
            items.append('(%s_%s, (h_%s, (%s, %s)))' % (pre, var, target, c, 'true' if keeps else 'false'))
        L.append('Definition %s : list (N * (N * (codesrc * bool))) :=\n  [%s].' % (name, ';\n   '.join(items)))
    rows('conn_arms', 'qc', f['conn'])
    rows('read_arms', 'qr', f['read'])
    rows('write_arms', 'qw', f['write'])
    b = lambda x: 'true' if x else 'false'
    L.append('(* h3-quinn/src/datagram.rs: source variant, (target variant, nested connection error converted by both functions) *)')
    L.append('Definition dgram_arms : list (N * (N * bool)) :=\n  [%s].' % ';\n   '.join(
        '(qd_%s, (hd_%s, %s))' % (v, t, b(via)) for v, t, via in f['dgram']))
    L.append('(* convert_h3_error_to_datagram_error: source variant, (target variant, payload handed over unchanged) *)')
    L.append('Definition h3dg_arms : list (N * (N * bool)) :=\n  [%s].' % ';\n   '.join(
        '(h_%s, (h_%s, %s))' % (v, t, b(p)) for v, t, p in f['h3dg']))
    L.append('Definition send_datagram_whole : bool := %s.' % b(f['send_datagram_whole']))
    L.append('(* call sites whose whole body was recognised: Quinn\'s error goes through convert_connection_error, *)')
    L.append('(* close hands over code.value(); one tag per wrapper, for BOTH OpenStreams impls *)')
    names = sorted(f['sites'])
    for i, n in enumerate(names):
        L.append('Definition site_%s : N := %d.' % (n, i))
    L.append('Definition site_converts : list (N * bool) :=\n  [%s].' % '; '.join('(site_%s, %s)' % (n, b(f['sites'][n])) for n in names))
    L.append('Definition poll_send_guard : bool := %s.' % b(f['poll_send_guard']))
    L.append('(* decision points *)')
    L.append('Definition recv_id_cached : bool := %s.' % b(f['recv_id_cached']))
    L.append('Definition poll_data_puts_back : bool := %s.' % b(f['poll_data_puts_back']))
    L.append('Definition poll_data_delivers_stop : bool := %s.' % b(f['poll_data_delivers_stop']))
    L.append('Definition stop_sending_defers : bool := %s.' % b(f['stop_sending_defers']))
    L.append('Definition send_data_guard : bool := %s.' % b(f['send_data_guard']))
    L.append('Definition send_data_refusal : N := h_%s.' % f['send_data_refusal'])
    L.append('Definition poll_ready_advances_by_written : bool := %s.' % b(f['poll_ready_advances_by_written']))
    L.append('Definition poll_ready_clears_writing : bool := %s.' % b(f['poll_ready_clears_writing']))
    L.append('Definition reset_saturates : bool := %s.' % b(f['reset_saturates']))
    L.append('Definition poll_data_puts_back_on_error : bool := %s.' % b(f['poll_data_puts_back_on_error']))
    L.append('Definition poll_finish_drains : bool := %s.' % b(f['poll_finish_drains']))
    L.append('(* poll_ready, on a write error: `self.writing = None` before the error is returned (the rest of the buffer is given up) *)')
    L.append('Definition poll_ready_gives_up_on_error : bool := %s.' % b(f['poll_ready_gives_up_on_error']))
    L.append('(* poll_data keeps the code of the peer\'s reset once a read has reported it and reports it again, first thing *)')
    L.append('Definition poll_data_reset_memo : bool := %s.' % b(f['poll_data_reset_memo']))
    return '\n'.join(L) + '\n'


if __name__ == '__main__':
    import sys
    facts, spans = extract(sys.argv[1] if len(sys.argv) > 1 else '/repo')
    sys.stdout.write(render(facts))
