"""Source facts for C15/C11: the Huffman tables of h3/src/qpack/prefix_string/{decode,encode}.rs.

decode.rs: the `macro_rules! bits_decode` arms are read (pattern shape -> lookup width and table
order) and the `bits_decode![ ... ]` invocation is expanded with them into a tree of
`DNode lookup table` values (module NAME = GenHuffDec).
encode.rs: the 256 `( n => [bytes] )` rows of `HPACK_STRING`, `PAD_RIGHT`, `PAD_LEFT`
(rendered by gen_huffman_enc.py, NAME = GenHuffEnc).
"""
import re
from rustsrc import Source, AnchorLost, parse_int, match_close

NAME = 'GenHuffDec'

TOK = re.compile(r"""\s*(?:
    (?P<byte>b'(?:\\.|[^'\\])')        |
    (?P<num>0x[0-9a-fA-F_]+|0b[01_]+|\d[\d_]*(?:u8|u32|usize)?) |
    (?P<arrow>=>)                      |
    (?P<var>\$\w+(?::\w+)?)            |
    (?P<ident>[A-Za-z_]\w*(?:::\w+)*)         |
    (?P<punct>[()\[\]{},:;&*$])
)""", re.X)

ESC = {'n': 10, 'r': 13, 't': 9, '\\': 92, "'": 39, '"': 34, '0': 0}


def tokens(txt):
    out, i = [], 0
    txt = txt.rstrip()
    while i < len(txt):
        m = TOK.match(txt, i)
        if not m:
            if txt[i:].strip() == '':
                break
            raise AnchorLost('unexpected text in Huffman table: %r' % txt[i:i + 30])
        kind = m.lastgroup
        out.append((kind, m.group(kind)))
        i = m.end()
    return out


def sym_value(kind, tok):
    if kind == 'num':
        v = parse_int(tok)
    elif kind == 'byte':
        inner = tok[2:-1]
        if inner.startswith('\\'):
            if inner[1] == 'x':
                v = int(inner[2:], 16)
            elif inner[1] in ESC:
                v = ESC[inner[1]]
            else:
                raise AnchorLost('byte escape ' + tok)
        else:
            v = ord(inner)
    else:
        raise AnchorLost('symbol expected, got ' + tok)
    if not 0 <= v < 256:
        raise AnchorLost('symbol out of u8 range: ' + tok)
    return v


def split_top(toks, sep=','):
    """split a token list on top-level commas (brackets nest)"""
    parts, cur, depth = [], [], 0
    for k, t in toks:
        if k == 'punct' and t in '([{':
            depth += 1
        elif k == 'punct' and t in ')]}':
            depth -= 1
        if k == 'punct' and t == sep and depth == 0:
            parts.append(cur)
            cur = []
        else:
            cur.append((k, t))
    if cur:
        parts.append(cur)
    return parts


def parse_macro_arms(src):
    """fixed-shape arms of macro_rules! bits_decode: shape string ('S' sym, 'P' partial) -> (lookup, order)
    where order lists, for each table slot, the index of the pattern variable placed there."""
    body, span, _ = src.item_block(r'macro_rules!\s*bits_decode\s*')
    arms = {}
    general_ok = False
    list_ok = False
    consumed = []
    i = 0
    n = len(body)
    while i < n:
        # next arm: pattern delimiter ( or [
        start = i
        while i < n and body[i] not in '([':
            i += 1
        if i >= n:
            consumed.append(body[start:])
            break
        consumed.append(body[start:i])
        o = body[i]
        j = match_close(body, i, o, ')' if o == '(' else ']')
        pat = body[i + 1:j]
        k = body.find('=>', j)
        if k < 0 or body[j + 1:k].strip() != '':
            raise AnchorLost('macro arm without =>')
        e0 = body.find('{', k)
        if e0 < 0 or body[k + 2:e0].strip() != '':
            raise AnchorLost('macro arm expansion')
        e1 = match_close(body, e0)
        exp = body[e0 + 1:e1]
        i = e1 + 1
        sq = re.sub(r'\s+', '', exp)
        if re.search(r'\$\(\s*\$name:ident', pat):
            # the outer list arm: const $name: HuffmanDecoder = bits_decode!( $( $value )* );
            if list_ok or sq != '$(const$name:HuffmanDecoder=bits_decode!($($value)*);)*' or \
               re.sub(r'\s+', '', pat) != '$($name:ident=>($($value:tt)*),)*':
                raise AnchorLost('bits_decode list arm')
            list_ok = True
            continue
        if 'lookup:' in pat:
            ok_pat = re.sub(r'\s+', '', pat) == 'lookup:$count:expr,[$($sym:expr,)*$(=>$sub:ident,)*]'
            ok_exp = sq == 'HuffmanDecoder{lookup:$count,table:&[$(DecodeValue::Sym($sym),)*$(DecodeValue::Partial(&$sub),)*]}'
            if general_ok or not (ok_pat and ok_exp):
                raise AnchorLost('bits_decode general arm')
            general_ok = True
            continue
        # fixed-shape arm
        shape, names = '', []
        for part in split_top(tokens(pat)):
            if len(part) == 1 and part[0][0] == 'var' and part[0][1].endswith(':expr'):
                shape += 'S'
                names.append(part[0][1].split(':')[0])
            elif len(part) == 2 and part[0][0] == 'arrow' and part[1][0] == 'var' and part[1][1].endswith(':ident'):
                shape += 'P'
                names.append(part[1][1].split(':')[0])
            else:
                raise AnchorLost('bits_decode arm pattern: ' + pat.strip())
        if shape in arms:
            # macro_rules! takes the FIRST matching arm: a second arm of the same shape is dead or shadows
            raise AnchorLost('bits_decode: two arms of shape ' + shape)
        m = re.fullmatch(r'HuffmanDecoder\{lookup:(\d+),table:&\[((?:DecodeValue::(?:Sym\(\$\w+\)|Partial\(&\$\w+\)),)*)\],?\}', sq)
        if not m:
            raise AnchorLost('bits_decode arm expansion of shape ' + shape)
        lookup = parse_int(m.group(1))
        order = []
        for ent in re.finditer(r'DecodeValue::(Sym|Partial)\(&?(\$\w+)\)', m.group(2)):
            kind, var = ent.group(1), ent.group(2)
            if var not in names:
                raise AnchorLost('unknown macro variable ' + var)
            idx = names.index(var)
            if (kind == 'Sym') != (shape[idx] == 'S'):
                raise AnchorLost('macro variable kind mismatch ' + var)
            order.append(idx)
        if sorted(order) != list(range(len(names))):
            raise AnchorLost('bits_decode arm of shape %s does not use every variable exactly once' % shape)
        arms[shape] = (lookup, order)
    if re.sub(r'[\s;]+', '', ''.join(consumed)) != '':
        raise AnchorLost('bits_decode macro: text outside the recognised arms')
    if not (general_ok and list_ok):
        raise AnchorLost('bits_decode general / list arm not found')
    return arms, span


def extract(repo):
    src = Source(repo + '/h3/src/qpack/prefix_string/decode.rs')
    spans = {}
    arms, spans['macro_rules'] = parse_macro_arms(src)
    m = re.search(r'^\s*bits_decode!\s*\[', src.text, re.M)
    if not m:
        raise AnchorLost('bits_decode![ invocation')
    i = m.end() - 1
    j = match_close(src.text, i, '[', ']')
    spans['table'] = (src.line_of(i), src.line_of(j))
    toks = tokens(src.text[i + 1:j])
    nodes = []   # (name, lookup, [('S', v) | ('P', name)])
    for ent in split_top(toks):
        if len(ent) < 4 or ent[0][0] != 'ident' or ent[1][0] != 'arrow' or ent[2] != ('punct', '(') or ent[-1] != ('punct', ')'):
            raise AnchorLost('table entry ' + ' '.join(t for _, t in ent[:4]))
        name = ent[0][1]
        inner = ent[3:-1]
        if inner and inner[0] == ('ident', 'lookup'):
            # lookup: N, [ syms..., => subs..., ]
            if inner[1] != ('punct', ':') or inner[2][0] != 'num' or inner[3] != ('punct', ',') or inner[4] != ('punct', '[') or inner[-1] != ('punct', ']'):
                raise AnchorLost('general entry ' + name)
            lookup = parse_int(inner[2][1])
            table, seen_sub = [], False
            for part in split_top(inner[5:-1]):
                if len(part) == 1:
                    if seen_sub:
                        raise AnchorLost('symbol after sub-table in ' + name)  # would not match the macro
                    table.append(('S', sym_value(*part[0])))
                elif len(part) == 2 and part[0][0] == 'arrow' and part[1][0] == 'ident':
                    seen_sub = True
                    table.append(('P', part[1][1]))
                else:
                    raise AnchorLost('general entry item in ' + name)
        else:
            parts = split_top(inner)
            shape, vals = '', []
            for part in parts:
                if len(part) == 1:
                    shape += 'S'
                    vals.append(('S', sym_value(*part[0])))
                elif len(part) == 2 and part[0][0] == 'arrow' and part[1][0] == 'ident':
                    shape += 'P'
                    vals.append(('P', part[1][1]))
                else:
                    raise AnchorLost('entry item in ' + name)
            if shape not in arms:
                raise AnchorLost('no macro arm of shape %s for %s' % (shape, name))
            lookup, order = arms[shape]
            table = [vals[k] for k in order]
        nodes.append((name, lookup, table))
    names = [n for n, _, _ in nodes]
    if len(set(names)) != len(names):
        raise AnchorLost('duplicate node name')
    # the root used by DecodeIter::next
    m = re.search(r'match\s+(\w+)\.decode_next\(&mut self\.bit_pos,\s*self\.content\)', src.text)
    if not m or m.group(1) not in names:
        raise AnchorLost('root of the decode tree')
    root = m.group(1)
    # topological order (children first); a cycle or a dangling name is an anchor loss
    byname = {n: (l, t) for n, l, t in nodes}
    order, state = [], {}

    def visit(n, depth=0):
        if n not in byname:
            raise AnchorLost('undefined sub-table ' + n)
        if state.get(n) == 1:
            raise AnchorLost('cyclic sub-table ' + n)
        if state.get(n) == 2:
            return
        state[n] = 1
        for k, v in byname[n][1]:
            if k == 'P':
                visit(v, depth + 1)
        state[n] = 2
        order.append(n)
    for n in names:
        visit(n)
    return {'nodes': [(n,) + byname[n] for n in order], 'root': root, 'arms': arms}, spans


def render(f):
    L = ['(* GENERATED by translate/gen_huffman.py from the `bits_decode![...]` invocation (expanded with the',
         '   macro_rules arms) of h3/src/qpack/prefix_string/decode.rs.  One definition per `const` table. *)',
         'From H3V Require Import Base.Bytes.',
         'Inductive dnode : Type := DNode (lookup : N) (table : dlist)',
         'with dlist : Type := DNil | DSym (b : N) (t : dlist) | DSub (d : dnode) (t : dlist).',
         '']
    for name, lookup, table in f['nodes']:
        s = 'DNil'
        for k, v in reversed(table):
            s = ('DSym %d (%s)' % (v, s)) if k == 'S' else ('DSub hd_%s (%s)' % (v, s))
        L.append('Definition hd_%s : dnode := DNode %d (%s).' % (name, lookup, s))
    L.append('Definition huff_dec_root : dnode := hd_%s.' % f['root'])
    L.append('Definition huff_dec_node_count : N := %d.' % len(f['nodes']))
    return '\n'.join(L) + '\n'


# ---------------------------------------------------------------- encode.rs

def extract_enc(repo):
    src = Source(repo + '/h3/src/qpack/prefix_string/encode.rs')
    spans, f = {}, {}
    m = re.search(r'const\s+HPACK_STRING\s*:\s*\[EncodeValue;\s*(\d+)\]\s*=\s*bits_encode!\s*\[', src.text)
    if not m:
        raise AnchorLost('encode HPACK_STRING')
    f['declared_rows'] = int(m.group(1))
    i = m.end() - 1
    j = match_close(src.text, i, '[', ']')
    spans['table'] = (src.line_of(i), src.line_of(j))
    rows = []
    for ent in split_top(tokens(src.text[i + 1:j])):
        if ent[0] != ('punct', '(') or ent[-1] != ('punct', ')') or ent[1][0] != 'num' or ent[2][0] != 'arrow' or ent[3] != ('punct', '[') or ent[-2] != ('punct', ']'):
            raise AnchorLost('encode row %d' % len(rows))
        n = parse_int(ent[1][1])
        bs = []
        for part in split_top(ent[4:-2]):
            if len(part) != 1 or part[0][0] != 'num':
                raise AnchorLost('encode row %d byte' % len(rows))
            v = parse_int(part[0][1])
            if not 0 <= v < 256:
                raise AnchorLost('encode row %d byte range' % len(rows))
            bs.append(v)
        rows.append((n, bs))
    if len(rows) != f['declared_rows']:
        raise AnchorLost('encode rows: %d found, %d declared' % (len(rows), f['declared_rows']))
    f['rows'] = rows
    # the macro must build {buffer: bytes, bit_count: len}
    mb, _, _ = src.item_block(r'macro_rules!\s*bits_encode\s*')
    if not re.search(r'\(\s*\$len:expr\s*=>\s*\[\s*\$\(\s*\$byte:expr\s*\),\*\s*\]\s*\)', mb) or \
       not re.search(r'buffer:\s*&\[\s*\$\(\s*\$byte as u8\s*\),\*\s*\],\s*bit_count:\s*\$len', mb):
        raise AnchorLost('bits_encode macro')
    for nm in ('PAD_RIGHT', 'PAD_LEFT'):
        m = re.search(r'const\s+%s\s*:\s*\[u8;\s*(\d+)\]\s*=\s*\[([^\]]*)\]\s*;' % nm, src.text)
        if not m:
            raise AnchorLost(nm)
        vals = [parse_int(x) for x in m.group(2).split(',') if x.strip()]
        if len(vals) != int(m.group(1)):
            raise AnchorLost(nm + ' length')
        f[nm.lower()] = vals
    return f, spans


def render_enc(f):
    L = ['(* GENERATED by translate/gen_huffman.py from h3/src/qpack/prefix_string/encode.rs:',
         '   HPACK_STRING rows (bit_count, buffer bytes) indexed by symbol, PAD_RIGHT, PAD_LEFT *)',
         'From H3V Require Import Base.Bytes.',
         'Definition huff_enc_rows : list (N * list N) := [']
    rows = ['  (%d, [%s])' % (n, '; '.join(str(b) for b in bs)) for n, bs in f['rows']]
    L.append(';\n'.join(rows))
    L.append('].')
    L.append('Definition pad_right : list N := [%s].' % '; '.join(map(str, f['pad_right'])))
    L.append('Definition pad_left : list N := [%s].' % '; '.join(map(str, f['pad_left'])))
    return '\n'.join(L) + '\n'
