"""GenHuffEnc: the encode side of gen_huffman.py (core.translate wants one NAME per module)."""
import gen_huffman

NAME = 'GenHuffEnc'


def extract(repo):
    return gen_huffman.extract_enc(repo)


def render(f):
    return gen_huffman.render_enc(f)
