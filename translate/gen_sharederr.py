"""Source facts for C05: the statement SEQUENCES of the functions that touch the shared connection-error cell.

Every anchored function body is split into its brace-depth-0 statements and EVERY statement must be one of the
known shapes (whitespace-insensitive full match, binder names free, data flow between the statements checked):
a statement wrapped in `if c { .. }`, an extra statement, a changed argument or an unknown match arm loses the
anchor (AnchorLost = violation).  What may vary and is reported as a fact for the model to interpret: the ORDER of
the statements, which of the known shapes are present, the code constants, first-store-wins or overwrite.

  connection_error_creators.rs  poll_connection_error, handle_connection_error, close_if_needed (with its match
                                arms), convert_to_connection_error (method and free fn),
                                CloseStream::{handle_connection_error_on_stream, handle_quic_stream_error},
                                handle_frame_stream_error_on_request_stream (all three arms)
  shared_state.rs               get_conn_error, set_conn_error, set_conn_error_and_wake
  whole crate(s)                call sites of set_conn_error( / .waker() / the connection_error field; every
                                initialiser of a conn_state / shared / shared_state field (handles must carry the
                                driver's Arc<SharedState>, never a fresh one)
The Coq model (Model/SharedErr.v) INTERPRETS the generated lists: swapping two statements changes the model.
"""
import os
import re
from rustsrc import Source, AnchorLost, match_close, strip_comments

NAME = 'GenSharedErr'

DRIVER_POINTS = {'driver:before_register': 0, 'driver:after_register': 1, 'driver:after_check_none': 2}
STREAM_POINTS = {'stream:after_store': 0, 'stream:after_wake': 1}


def squash(t):
    return re.sub(r'\s+', '', t)


def statements(body):
    """brace-depth-0 statements of a block body: list of whitespace-free strings; the tail expression last.
    A `{..}` block at depth 0 ends its statement unless `else`, `;`, `.`, `?` or an operator follows."""
    out, cur, i, n = [], [], 0, len(body)
    while i < n:
        c = body[i]
        if c == '"':
            j = i + 1
            while j < n and body[j] != '"':
                j += 2 if body[j] == '\\' else 1
            cur.append(body[i:j + 1])
            i = j + 1
            continue
        if c in '([{':
            j = match_close(body, i, c, {'(': ')', '[': ']', '{': '}'}[c])
            cur.append(body[i:j + 1])
            i = j + 1
            if c == '{':
                rest = body[i:].lstrip()
                if rest.startswith(';'):
                    continue
                if re.match(r'(else\b|\.|\?|=>|,)', rest):
                    continue
                s = squash(''.join(cur))
                # `match x {..}` / `if .. {..}` / `if let .. {..}` in statement position end here
                if re.match(r'(if|match|while|for|loop|unsafe)\b', ''.join(cur).lstrip()) or s.startswith('{'):
                    out.append(s)
                    cur = []
            continue
        if c == ';':
            cur.append(c)
            out.append(squash(''.join(cur)))
            cur = []
            i += 1
            continue
        cur.append(c)
        i += 1
    tail = squash(''.join(cur))
    if tail:
        out.append(tail)
    return out


def arms(match_stmt, scrut):
    """arms `pat => body` of a squashed-then-original match block; works on the ORIGINAL text of the block."""
    raise NotImplementedError


def match_arms(body_text):
    """body_text: text inside the braces of a match; returns [(pattern, body)] whitespace-free"""
    out, i, n = [], 0, len(body_text)
    while i < n:
        # pattern up to `=>` at depth 0
        j, depth = i, 0
        while j < n:
            c = body_text[j]
            if c in '([{':
                j = match_close(body_text, j, c, {'(': ')', '[': ']', '{': '}'}[c])
            elif body_text.startswith('=>', j):
                break
            j += 1
        if j >= n:
            if body_text[i:].strip():
                raise AnchorLost('match arm without =>: ' + squash(body_text[i:])[:60])
            break
        pat = squash(body_text[i:j])
        k = j + 2
        while k < n and body_text[k].isspace():
            k += 1
        if k < n and body_text[k] == '{':
            e = match_close(body_text, k)
            arm_body = body_text[k:e + 1]
            k = e + 1
            while k < n and body_text[k].isspace():
                k += 1
            if k < n and body_text[k] == ',':
                k += 1
        else:
            e = k
            while e < n:
                c = body_text[e]
                if c in '([{':
                    e = match_close(body_text, e, c, {'(': ')', '[': ']', '{': '}'}[c])
                elif c == '"':
                    e += 1
                    while e < n and body_text[e] != '"':
                        e += 2 if body_text[e] == '\\' else 1
                elif c == ',':
                    break
                e += 1
            arm_body = body_text[k:e]
            k = e + 1
        out.append((pat, squash(arm_body)))
        i = k
    return out


def inner(block):
    """text inside the outermost braces of `.. { .. }` (squashed or not)"""
    i = block.index('{')
    j = match_close(block, i)
    return block[i + 1:j]


ID = r'([A-Za-z_]\w*)'


def want(m, what, stmt):
    if not m:
        raise AnchorLost('%s: unrecognised statement `%s`' % (what, stmt[:120]))
    return m


def point(stmt, table):
    m = re.fullmatch(r'#\[cfg\(h3_verif\)\]crate::verif::preempt\("([^"]+)"\);', stmt)
    if not m:
        return None
    if m.group(1) not in table:
        raise AnchorLost('unknown pre-emption point ' + m.group(1))
    return 'Point %d' % table[m.group(1)]


def fn_text(src, name, nth=0):
    """(body text with comments stripped, span) of the nth fn `name` that HAS a body"""
    seen = 0
    k = 0
    while True:
        try:
            body, span = src.fn_body(name, nth=k)
        except AnchorLost as ex:
            if 'has no body' in str(ex):
                k += 1
                continue
            raise
        if seen == nth:
            return body, span
        seen += 1
        k += 1


def extract(repo):
    f, spans = {}, {}
    cec = Source(repo + '/h3/src/error/connection_error_creators.rs')
    ss = Source(repo + '/h3/src/shared_state.rs')

    # ---- poll_connection_error
    body, spans['poll_connection_error'] = fn_text(cec, 'poll_connection_error')
    ops, hit_ops = [], None
    sts = statements(body)
    if not sts or sts[-1] != 'Poll::Pending':
        raise AnchorLost('poll_connection_error does not end in the expression Poll::Pending')
    for st in sts[:-1]:
        p = point(st, DRIVER_POINTS)
        if p:
            ops.append(p)
        elif re.fullmatch(r'ifletSome\(ref' + ID + r'\)=self\.handled_connection_error\{returnPoll::Ready\(Err\(\1\.clone\(\)\)\);\};?', st):
            ops.append('Memo')
        elif st == 'self.waker().register(cx.waker());':
            ops.append('Register')
        elif st.startswith('ifletSome(') and '=self.get_conn_error()' in st:
            m = want(re.fullmatch(r'ifletSome\(' + ID + r'\)=self\.get_conn_error\(\)\{(.*)\}', st), 'poll_connection_error check', st)
            if hit_ops is not None:
                raise AnchorLost('poll_connection_error: two checks')
            var, hit_ops = m.group(1), []
            # the hit branch, statement by statement, on the ORIGINAL text (to split at depth 0)
            mm = re.search(r'if\s+let\s+Some\(\s*\w+\s*\)\s*=\s*self\s*\.\s*get_conn_error\s*\(\s*\)\s*\{', body)
            hb = inner(body[mm.start():])
            for hs in statements(hb):
                m2 = re.fullmatch(r'let' + ID + r'=self\.close_if_needed\(' + ID + r'\);', hs)
                if m2 and m2.group(2) == var:
                    hit_ops.append('Close')
                    var = m2.group(1)
                    continue
                m2 = re.fullmatch(r'returnPoll::Ready\(Err\(self\.convert_to_connection_error\(' + ID + r'\)\)\);', hs)
                if m2 and m2.group(1) == var:
                    hit_ops.append('Convert')
                    continue
                raise AnchorLost('poll_connection_error hit branch: unrecognised statement `%s`' % hs[:120])
            if not hit_ops or hit_ops[-1] != 'Convert':
                raise AnchorLost('poll_connection_error hit branch does not return the converted error')
            ops.append('Check')
        else:
            raise AnchorLost('poll_connection_error: unrecognised statement `%s`' % st[:120])
    if ops.count('Register') != 1 or ops.count('Check') != 1 or ops.count('Memo') > 1:
        raise AnchorLost('poll_connection_error: register/check/memo occurrences ' + str(ops))
    f['poll_body'], f['check_hit'] = ops, hit_ops

    # ---- handle_connection_error
    body, spans['handle_connection_error'] = fn_text(cec, 'handle_connection_error')
    ops, var = [], None
    sts = statements(body)
    for idx, st in enumerate(sts):
        if re.fullmatch(r'ifletSome\(ref' + ID + r'\)=self\.handled_connection_error\{return\1\.clone\(\);\};?', st):
            ops.append('Memo')
            continue
        m = re.fullmatch(r'let' + ID + r'=self\.set_conn_error\(error\.into\(\)\);', st)
        if m:
            ops.append('Set')
            var = m.group(1)
            continue
        m = re.fullmatch(r'let' + ID + r'=self\.close_if_needed\(' + ID + r'\);', st)
        if m and var is not None and m.group(2) == var:
            ops.append('Close')
            var = m.group(1)
            continue
        m = re.fullmatch(r'self\.convert_to_connection_error\(' + ID + r'\)', st)
        if m and idx == len(sts) - 1 and var is not None and m.group(1) == var:
            ops.append('Convert')
            continue
        raise AnchorLost('handle_connection_error: unrecognised statement `%s`' % st[:120])
    if ops.count('Set') != 1 or not ops or ops[-1] != 'Convert':
        raise AnchorLost('handle_connection_error: shape ' + str(ops))
    f['handle_body'] = ops

    # ---- close_if_needed
    body, spans['close_if_needed'] = fn_text(cec, 'close_if_needed')
    sts = statements(body)
    if len(sts) != 2 or sts[1] != 'error' or not sts[0].startswith('matcherror{'):
        raise AnchorLost('close_if_needed: expected `match error {..} error`, got ' + str([s[:40] for s in sts]))
    mm = re.search(r'match\s+error\s*\{', body)
    carms, default_seen = [], False
    for pat, ab in match_arms(inner(body[mm.start():])):
        if default_seen:
            raise AnchorLost('close_if_needed: arm after the default arm')
        m = re.fullmatch(r'ErrorOrigin::Internal\(ref' + ID + r'\)', pat)
        if m:
            b = m.group(1)
            m2 = re.fullmatch(r'\{?self\.close_connection\((' + re.escape(b) + r'\.code|Code::\w+),' + re.escape(b) + r'\.message\.clone\(\)\);?\}?', ab)
            want(m2, 'close_if_needed Internal arm', ab)
            carms.append(('PatInternal', 'CodeOfError' if m2.group(1).endswith('.code') else 'CodeConst ' + m2.group(1)[6:]))
            continue
        m = re.fullmatch(r'ErrorOrigin::Quic\(ConnectionErrorIncoming::(\w+)(?:\(ref' + ID + r'\))?\)', pat)
        if m:
            p = {'InternalError': 'PatQuicInternal', 'Timeout': 'PatQuicTimeout',
                 'ApplicationClose': 'PatQuicAppClose', 'Undefined': 'PatQuicUndefined'}.get(m.group(1))
            if p is None:
                raise AnchorLost('close_if_needed: Quic variant ' + m.group(1))
            m2 = want(re.fullmatch(r'\{?self\.close_connection\(Code::(\w+),[\w.()]+\);?\}?', ab), 'close_if_needed Quic arm', ab)
            carms.append((p, 'CodeConst ' + m2.group(1)))
            continue
        if pat == '_' and ab in ('()', '{}'):
            default_seen = True
            continue
        raise AnchorLost('close_if_needed: unrecognised arm `%s => %s`' % (pat[:60], ab[:60]))
    f['close_arms'] = carms

    # ---- convert_to_connection_error: the method (memo) and the free function (arms)
    body, spans['convert_method'] = fn_text(cec, 'convert_to_connection_error', 0)
    sts = statements(body)
    memo = False
    if not sts or not re.fullmatch(r'let' + ID + r'=convert_to_connection_error\(error\);', sts[0]):
        raise AnchorLost('convert_to_connection_error method: first statement')
    v = re.fullmatch(r'let' + ID + r'=.*', sts[0]).group(1)
    for st in sts[1:-1]:
        if st == 'self.handled_connection_error=Some(%s.clone());' % v:
            memo = True
        else:
            raise AnchorLost('convert_to_connection_error method: unrecognised statement `%s`' % st[:120])
    if sts[-1] != v:
        raise AnchorLost('convert_to_connection_error method: does not return the converted error')
    f['convert_sets_memo'] = memo
    body, spans['convert_fn'] = fn_text(cec, 'convert_to_connection_error', 1)
    sts = statements(body)
    if len(sts) != 1 or not sts[0].startswith('matcherror{'):
        raise AnchorLost('convert_to_connection_error fn: expected a single match')
    mm = re.search(r'match\s+error\s*\{', body)
    conv = []
    for pat, ab in match_arms(inner(body[mm.start():])):
        m = re.fullmatch(r'ErrorOrigin::Internal\(' + ID + r'\)', pat)
        if m:
            b = re.escape(m.group(1))
            want(re.fullmatch(r'ConnectionError::Local\{error:LocalError::Application\{code:' + b + r'\.code,reason:' + b + r'\.message,?\},?\}', ab),
                 'convert Internal arm', ab)
            conv.append(('PatInternal', 'ToLocal'))
            continue
        if pat == 'ErrorOrigin::Quic(ConnectionErrorIncoming::Timeout)':
            want(re.fullmatch(r'ConnectionError::Timeout', ab), 'convert Timeout arm', ab)
            conv.append(('PatQuicTimeout', 'ToTimeout'))
            continue
        m = re.fullmatch(r'ErrorOrigin::Quic\(' + ID + r'\)', pat)
        if m:
            want(re.fullmatch(r'ConnectionError::Remote\(' + re.escape(m.group(1)) + r'\)', ab), 'convert Remote arm', ab)
            conv.append(('PatQuicAny', 'ToRemote'))
            continue
        raise AnchorLost('convert: unrecognised arm `%s => %s`' % (pat[:60], ab[:60]))
    f['convert_arms'] = conv

    # ---- the stream side: CloseStream and HandleFrameStreamErrorOnRequestStream
    paths = []
    body, spans['handle_connection_error_on_stream'] = fn_text(cec, 'handle_connection_error_on_stream')
    sts = statements(body)
    if not (len(sts) == 2 and re.fullmatch(r'let' + ID + r'=self\.set_conn_error_and_wake\(internal_error\);', sts[0])
            and sts[1] == 'StreamError::ConnectionError(convert_to_connection_error(%s))' % re.fullmatch(r'let' + ID + r'=.*', sts[0]).group(1)):
        raise AnchorLost('handle_connection_error_on_stream is not `set_conn_error_and_wake; report convert(returned)`')
    paths.append('PathInternalHelper')
    body, spans['handle_quic_stream_error'] = fn_text(cec, 'handle_quic_stream_error')
    sts = statements(body)
    if len(sts) != 1 or not sts[0].startswith('matcherror{'):
        raise AnchorLost('handle_quic_stream_error: expected a single match')
    mm = re.search(r'match\s+error\s*\{', body)
    seen = set()
    for pat, ab in match_arms(inner(body[mm.start():])):
        m = re.fullmatch(r'StreamErrorIncoming::ConnectionErrorIncoming\{' + ID + r'\}', pat)
        if m:
            want(re.fullmatch(r'\{let' + ID + r'=self\.set_conn_error_and_wake\(' + re.escape(m.group(1)) +
                              r'\);StreamError::ConnectionError\(convert_to_connection_error\(\1\)\)\}', ab),
                 'handle_quic_stream_error connection arm', ab)
            seen.add('conn')
        elif re.fullmatch(r'StreamErrorIncoming::StreamTerminated\{' + ID + r'\}', pat):
            want(re.fullmatch(r'StreamError::RemoteTerminate\{code:Code::from\(\w+\),?\}', ab), 'handle_quic_stream_error terminated arm', ab)
            seen.add('term')
        elif re.fullmatch(r'StreamErrorIncoming::Unknown\(' + ID + r'\)', pat):
            want(re.fullmatch(r'\{?StreamError::Undefined\(\w+\)\}?', ab), 'handle_quic_stream_error unknown arm', ab)
            seen.add('unk')
        else:
            raise AnchorLost('handle_quic_stream_error: unrecognised arm `%s`' % pat[:80])
    if seen != {'conn', 'term', 'unk'}:
        raise AnchorLost('handle_quic_stream_error: arms ' + str(sorted(seen)))
    paths.append('PathQuicHelper')
    body, spans['handle_frame_stream_error_on_request_stream'] = fn_text(cec, 'handle_frame_stream_error_on_request_stream')
    sts = statements(body)
    if len(sts) != 1 or not sts[0].startswith('matcherror{'):
        raise AnchorLost('handle_frame_stream_error_on_request_stream: expected a single match')
    mm = re.search(r'match\s+error\s*\{', body)
    fr = []
    for pat, ab in match_arms(inner(body[mm.start():])):
        if re.fullmatch(r'FrameStreamError::Quic\(' + ID + r'\)', pat):
            v = re.fullmatch(r'FrameStreamError::Quic\(' + ID + r'\)', pat).group(1)
            want(re.fullmatch(r'self\.handle_quic_stream_error\(' + re.escape(v) + r'\)', ab), 'frame error Quic arm', ab)
            fr.append(('FsQuic', 'ViaQuicHelper'))
        elif re.fullmatch(r'FrameStreamError::Proto\(' + ID + r'\)', pat):
            v = re.fullmatch(r'FrameStreamError::Proto\(' + ID + r'\)', pat).group(1)
            want(re.fullmatch(r'self\.handle_connection_error_on_stream\(InternalConnectionError::got_frame_error\(' + re.escape(v) + r'\),?\)', ab),
                 'frame error Proto arm', ab)
            fr.append(('FsProto', 'ViaInternalHelper'))
        elif pat == 'FrameStreamError::UnexpectedEnd':
            m = want(re.fullmatch(r'\{self\.handle_connection_error_on_stream\(InternalConnectionError::new\(Code::(\w+),"[^"]*"\.to_string\(\),?\),?\)\}', ab),
                     'frame error UnexpectedEnd arm', ab)
            fr.append(('FsUnexpectedEnd', 'ViaInternalHelperCode ' + m.group(1)))
        else:
            raise AnchorLost('handle_frame_stream_error_on_request_stream: unrecognised arm `%s`' % pat[:80])
    if [a for a, _ in fr] != ['FsQuic', 'FsProto', 'FsUnexpectedEnd']:
        raise AnchorLost('handle_frame_stream_error_on_request_stream: arms ' + str(fr))
    f['frame_error_arms'] = fr

    # ---- shared_state.rs
    body, spans['set_conn_error'] = fn_text(ss, 'set_conn_error')
    sts = statements(body)
    if (len(sts) == 2 and re.fullmatch(r'let' + ID + r'=self\.shared_state\(\)\.connection_error\.get_or_init\(move\|\|error\);', sts[0])
            and sts[1] == re.fullmatch(r'let' + ID + r'=.*', sts[0]).group(1) + '.clone()'):
        f['store_first_wins'] = True
    elif 'get_or_init' not in body:
        f['store_first_wins'] = False
    else:
        raise AnchorLost('set_conn_error: get_or_init is used but not as the whole function')
    body, spans['set_conn_error_and_wake'] = fn_text(ss, 'set_conn_error_and_wake')
    ops, var = [], None
    sts = statements(body)
    for idx, st in enumerate(sts):
        p = point(st, STREAM_POINTS)
        if p:
            ops.append(p)
            continue
        m = re.fullmatch(r'let' + ID + r'=self\.set_conn_error\(error\.into\(\)\);', st)
        if m:
            ops.append('Store')
            var = m.group(1)
            continue
        if st == 'self.waker().wake();':
            ops.append('Wake')
            continue
        if idx == len(sts) - 1 and var is not None and st == var:
            continue
        raise AnchorLost('set_conn_error_and_wake: unrecognised statement `%s`' % st[:120])
    if ops.count('Store') != 1 or ops.count('Wake') > 1:
        raise AnchorLost('set_conn_error_and_wake: shape ' + str(ops))
    f['raise_body'] = ops
    body, spans['get_conn_error'] = fn_text(ss, 'get_conn_error')
    sts = statements(body)
    if not (len(sts) == 1 and re.fullmatch(r'self\.shared_state\(\)\.connection_error\.(get\(\)\.cloned\(\)|lock\(\)\.unwrap\(\)\.clone\(\))', sts[0])):
        raise AnchorLost('get_conn_error: unrecognised body')

    # ---- ConnectionInner::shutdown: the guard must be its FIRST statement; every write failure goes to handle_connection_error
    conn = Source(repo + '/h3/src/connection.rs')
    body, spans['shutdown'] = fn_text(conn, 'shutdown')
    sts = statements(body)
    guard = r'ifletSome\(' + ID + r'\)=self\.get_conn_error\(\)\{returnErr\(self\.handle_connection_error\(\1\)\);\};?'
    where = [i for i, st in enumerate(sts) if 'get_conn_error' in st]
    if where == [0] and re.fullmatch(guard, sts[0]):
        f['shutdown_guard'] = True
    elif not where:
        f['shutdown_guard'] = False
    else:
        raise AnchorLost('ConnectionInner::shutdown: get_conn_error is consulted, but not as the leading guard `%s`' % sts[where[0]][:120])
    rest = sts[1:] if f['shutdown_guard'] else sts
    exp = [r'ifletSome\(' + ID + r'\)=sent_closing\{if\*\1<=max_id\{returnOk\(\(\)\);\}\}',
           r'\*sent_closing=Some\(max_id\);', r'self\.set_closing\(\);',
           r'matchstream::write\(&mutself\.control_send,Frame::Goaway\(max_id\.into\(\)\)\)\.await\{.*\}']
    if len(rest) != len(exp) or not all(re.fullmatch(e, st) for e, st in zip(exp, rest)):
        raise AnchorLost('ConnectionInner::shutdown: unrecognised statements ' + str([st[:50] for st in rest]))
    mm = re.search(r'match\s+stream::write\(', body)
    for pat, ab in match_arms(inner(body[mm.start():])):
        if pat == 'Ok(())':
            want(re.fullmatch(r'Ok\(\(\)\)', ab), 'shutdown Ok arm', ab)
        elif pat.startswith('Err('):
            if not re.fullmatch(r'\{?Err\(self\.handle_connection_error\(.*\)\)\}?', ab):
                raise AnchorLost('ConnectionInner::shutdown: a write failure does not go to handle_connection_error: ' + ab[:80])
        else:
            raise AnchorLost('ConnectionInner::shutdown: unrecognised arm ' + pat[:60])

    # ---- the public driver entry points: whole bodies pinned (comment-free, whitespace-free)
    srv = Source(repo + '/h3/src/server/connection.rs')
    body, spans['accept'] = fn_text(srv, 'accept')
    exp_accept = ['letstream=matchpoll_fn(|cx|self.poll_accept_request_stream_internal(cx)).await?{Some(s)=>FrameStream::new(BufRecvStream::new(s)),None=>{self.shutdown(0).await?;returnOk(None);}};',
                  'letresolver=self.create_resolver_internal(stream);', 'self.inner.send_grease_frame=false;', 'Ok(Some(resolver))']
    if statements(body) != exp_accept:
        raise AnchorLost('server::Connection::accept is not `poll_accept_request_stream_internal(..).await?` / shutdown(0).await? any more: ' +
                         str([x[:60] for x in statements(body)]))
    cli = Source(repo + '/h3/src/client/connection.rs')
    body, spans['wait_idle'] = fn_text(cli, 'wait_idle')
    if statements(body) != ['future::poll_fn(|cx|self.poll_close(cx)).await']:
        raise AnchorLost('client::Connection::wait_idle is not poll_fn(poll_close) any more')

    # ---- crate-wide: who else touches the cell / the waker, and how handles get their shared state
    sites = {'set_conn_error': [], 'cell_field': [], 'waker': [], 'fresh_state': [], 'wiring': []}
    for crate in ('h3', 'h3-datagram', 'h3-webtransport'):
        root = os.path.join(repo, crate, 'src')
        for dp, dn, fns in os.walk(root):
            if os.sep + 'tests' in dp:
                continue
            for fn in sorted(fns):
                if not fn.endswith('.rs') or fn == 'verif.rs':
                    continue
                path = os.path.join(dp, fn)
                rel = os.path.relpath(path, repo)
                text = strip_comments(open(path, encoding='utf-8').read())
                for m in re.finditer(r'(?<!fn )\bset_conn_error\s*\(', text):
                    if not re.search(r'fn\s+$', text[max(0, m.start() - 4):m.start()]):
                        sites['set_conn_error'].append(rel)
                for m in re.finditer(r'\.\s*connection_error\s*\.', text):
                    sites['cell_field'].append(rel)
                for m in re.finditer(r'\.\s*waker\s*\(\s*\)\s*\.\s*(\w+)', text):
                    sites['waker'].append(rel + ':' + m.group(1))
                for m in re.finditer(r'SharedState\s*::\s*(default|new)\s*\(', text):
                    sites['fresh_state'].append(rel)
                for m in re.finditer(r'(?<![:\w])(conn_state|shared|shared_state)\s*:(?!:)\s*([^,;{}]+?)\s*[,}]', text):
                    rhs = squash(m.group(2))
                    if rhs.startswith('Arc<') or rhs.startswith('&'):
                        continue  # a field / parameter type
                    sites['wiring'].append((rel, m.group(1), rhs))
    # connection errors are BUILT only by convert_to_connection_error / the raw helpers, the transport is closed only by
    # close_if_needed (and Drop), stream handles wrap connection errors only in the CloseStream helpers
    def per_file(pattern):
        out = {}
        for crate in ('h3', 'h3-datagram', 'h3-webtransport'):
            for dp, dn, fns in os.walk(os.path.join(repo, crate, 'src')):
                if os.sep + 'tests' in dp:
                    continue
                for fn in sorted(fns):
                    if fn.endswith('.rs') and fn != 'verif.rs':
                        path = os.path.join(dp, fn)
                        n = len(re.findall(pattern, strip_comments(open(path, encoding='utf-8').read())))
                        if n:
                            out[os.path.relpath(path, repo)] = n
        return out
    expect = [
        ('ConnectionError:: variant sites', r'\bConnectionError\s*::\s*(?:Local|Remote|Timeout)\b',
         {'h3/src/error/connection_error_creators.rs': 7, 'h3/src/error/error.rs': 5, 'h3-datagram/src/datagram_handler.rs': 1}),
        ('StreamError::ConnectionError( sites', r'\bStreamError\s*::\s*ConnectionError\s*\(',
         {'h3/src/error/connection_error_creators.rs': 2, 'h3/src/error/error.rs': 2, 'h3-webtransport/src/server.rs': 3}),
        ('close_connection( sites', r'(?<!fn )\bclose_connection\s*\(',
         {'h3/src/error/connection_error_creators.rs': 2, 'h3/src/server/connection.rs': 1}),
        ('.close( sites', r'\.\s*close\s*\(',
         {'h3/src/error/connection_error_creators.rs': 3}),
        ('is_h3_no_error( uses', r'\.\s*is_h3_no_error\s*\(', {'h3/src/error/error.rs': 1}),
    ]
    for what, pat, exp in expect:
        got = per_file(pat)
        if got != exp:
            raise AnchorLost('%s moved: %s (expected %s)' % (what, got, exp))
    exp_set = ['h3/src/error/connection_error_creators.rs', 'h3/src/shared_state.rs']
    if sorted(sites['set_conn_error']) != exp_set:
        raise AnchorLost('set_conn_error( is called at %s (expected once in handle_connection_error and once in set_conn_error_and_wake)' % sorted(sites['set_conn_error']))
    if sorted(sites['cell_field']) != ['h3/src/shared_state.rs'] * 2:
        raise AnchorLost('the connection_error cell is accessed at ' + str(sorted(sites['cell_field'])))
    if sorted(sites['waker']) != ['h3/src/error/connection_error_creators.rs:register', 'h3/src/shared_state.rs:wake']:
        raise AnchorLost('the driver waker is used at ' + str(sorted(sites['waker'])))
    fresh = sorted(sites['fresh_state'])
    if fresh != ['h3/src/client/builder.rs', 'h3/src/server/builder.rs']:
        raise AnchorLost('SharedState is constructed at ' + str(fresh))
    allowed = {'self.conn_state.clone()', 'self.conn_state', 'self.inner.shared.clone()', 'self.shared.clone()', 'conn_state', 'shared'}
    for rel, field, rhs in sites['wiring']:
        if rhs not in allowed:
            raise AnchorLost('%s: field %s is initialised with `%s`, not with the connection\'s shared state' % (rel, field, rhs))
    f['wiring_sites'] = len(sites['wiring'])
    return f, spans


def _ops(prefix, names):
    out = []
    for n in names:
        if n.startswith('Point '):
            out.append('%sPoint %s' % (prefix, n.split()[1]))
        else:
            out.append(prefix + n)
    return '[' + '; '.join(out) + ']'


def render(f):
    L = ['(* GENERATED by translate/gen_sharederr.py from h3/src/error/connection_error_creators.rs and h3/src/shared_state.rs *)',
         'From H3V Require Import Base.Bytes Gen.GenCodes.',
         '(* statement vocabulary (fixed text) *)',
         'Inductive pce_op := POMemo | PORegister | POCheck | POPoint (n : N).',
         'Inductive handle_op := HOMemo | HOSet | HOClose | HOConvert.',
         'Inductive raise_op := ROStore | ROWake | ROPoint (n : N).',
         'Inductive origin_pat := PatInternal | PatQuicInternal | PatQuicTimeout | PatQuicAppClose | PatQuicUndefined | PatQuicAny.',
         'Inductive code_src := CodeOfError | CodeConst (c : N).',
         'Inductive conv_target := ToLocal | ToTimeout | ToRemote.',
         'Inductive fs_pat := FsQuic | FsProto | FsUnexpectedEnd.',
         'Inductive fs_path := ViaQuicHelper | ViaInternalHelper | ViaInternalHelperCode (c : N).',
         '(* facts read from the source: every statement of these functions is at brace depth 0 and of a known shape *)',
         'Definition poll_body : list pce_op := %s.' % _ops('PO', f['poll_body']),
         'Definition check_hit : list handle_op := %s.' % _ops('HO', f['check_hit']),
         'Definition handle_body : list handle_op := %s.' % _ops('HO', f['handle_body']),
         'Definition raise_body : list raise_op := %s.' % _ops('RO', f['raise_body']),
         'Definition store_first_wins : bool := %s.' % ('true' if f['store_first_wins'] else 'false'),
         'Definition convert_sets_memo : bool := %s.' % ('true' if f['convert_sets_memo'] else 'false'),
         'Definition shutdown_guard : bool := %s.' % ('true' if f['shutdown_guard'] else 'false'),
         'Definition close_arms : list (origin_pat * code_src) := [%s].' % '; '.join('(%s, %s)' % a for a in f['close_arms']),
         'Definition convert_arms : list (origin_pat * conv_target) := [%s].' % '; '.join('(%s, %s)' % a for a in f['convert_arms']),
         '(* the frame-error dispatcher: which helper every arm goes through.  (That both CloseStream helpers are',
         '   `set_conn_error_and_wake; report convert(returned value)`, that nobody else calls set_conn_error / touches the cell or',
         '   the waker / builds a ConnectionError / closes the transport, and that every handle is built with a clone of the',
         '   connection\'s Arc<SharedState> is enforced by the translator itself: it refuses to generate this file otherwise.) *)',
         'Definition frame_error_arms : list (fs_pat * fs_path) := [%s].' % '; '.join('(%s, %s)' % a for a in f['frame_error_arms']),
         ]
    return '\n'.join(L) + '\n'


if __name__ == '__main__':
    import sys
    facts, spans = extract(sys.argv[1] if len(sys.argv) > 1 else '/repo')
    sys.stdout.write(render(facts))
