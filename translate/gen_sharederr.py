"""Source facts for C05: the statement ORDER inside the functions that touch the shared connection-error cell.

Read from h3/src/error/connection_error_creators.rs and h3/src/shared_state.rs:
  * poll_connection_error : textual order of  memo check / pre-emption points / waker register / cell check,
                            and what the `if let Some(err) = get_conn_error()` branch does (close_if_needed, convert)
  * handle_connection_error: order of memo check / set_conn_error / close_if_needed / convert
  * set_conn_error         : get_or_init (first store wins) or anything else (plain overwrite)
  * set_conn_error_and_wake: order of store / pre-emption points / wake
  * close_if_needed        : which ErrorOrigin patterns close the connection, and with which code
  * convert_to_connection_error (method): whether it memoises into handled_connection_error
  * convert_to_connection_error (free fn): the arm list
The Coq model (Model/SharedErr.v) INTERPRETS these lists: swapping two statements changes the model.
"""
import re
from rustsrc import Source, AnchorLost

NAME = 'GenSharedErr'

DRIVER_POINTS = {'driver:before_register': 0, 'driver:after_register': 1, 'driver:after_check_none': 2}
STREAM_POINTS = {'stream:after_store': 0, 'stream:after_wake': 1}


def _ordered(body, pats, points=None):
    """[(pos, op)] for every occurrence of every pattern, sorted by position."""
    found = []
    for op, pat in pats:
        for m in re.finditer(pat, body):
            found.append((m.start(), op))
    if points is not None:
        for m in re.finditer(r'preempt\(\s*"([^"]+)"\s*\)', body):
            if m.group(1) not in points:
                raise AnchorLost('unknown pre-emption point ' + m.group(1))
            found.append((m.start(), 'Point %d' % points[m.group(1)]))
    found.sort()
    return found


def _block_after(body, start):
    """brace block starting at the first '{' at or after start: (inner text, end index)"""
    from rustsrc import match_close
    i = body.find('{', start)
    if i < 0:
        raise AnchorLost('no block')
    j = match_close(body, i)
    return body[i + 1:j], i, j


def extract(repo):
    f, spans = {}, {}
    cec = Source(repo + '/h3/src/error/connection_error_creators.rs')
    ss = Source(repo + '/h3/src/shared_state.rs')

    # ---- poll_connection_error
    body, spans['poll_connection_error'] = cec.fn_body('poll_connection_error')
    # the memo check is `if let Some(..) = self.handled_connection_error { return ... }`
    ops = _ordered(body, [('Memo', r'if\s+let\s+Some\([^)]*\)\s*=\s*self\s*\.\s*handled_connection_error'),
                          ('Register', r'\.\s*register\s*\('),
                          ('Check', r'\.\s*get_conn_error\s*\(')], DRIVER_POINTS)
    names = [o for _, o in ops]
    if names.count('Register') != 1 or names.count('Check') != 1 or names.count('Memo') > 1:
        raise AnchorLost('poll_connection_error: register/check/memo occurrences ' + str(names))
    # the hit branch of the check
    m = re.search(r'if\s+let\s+Some\(\s*(\w+)\s*\)\s*=\s*self\s*\.\s*get_conn_error\s*\(\s*\)', body)
    if not m:
        raise AnchorLost('poll_connection_error: `if let Some(err) = self.get_conn_error()`')
    hit, hi, hj = _block_after(body, m.end())
    hit_ops = [o for _, o in _ordered(hit, [('Close', r'\bclose_if_needed\s*\('), ('Convert', r'\bconvert_to_connection_error\s*\(')])]
    if not re.search(r'return\s+Poll::Ready\s*\(\s*Err', hit):
        raise AnchorLost('poll_connection_error: hit branch does not return Ready(Err)')
    # ops inside the hit branch are not part of the straight-line body
    f['poll_body'] = [o for p, o in ops if not (hi < p < hj)]
    f['check_hit'] = hit_ops
    if not re.search(r'Poll::Pending\s*$', body.strip()):
        raise AnchorLost('poll_connection_error does not end in Poll::Pending')

    # ---- handle_connection_error (first fn of that name: the ConnectionInner method)
    body, spans['handle_connection_error'] = cec.fn_body('handle_connection_error')
    ops = _ordered(body, [('Memo', r'if\s+let\s+Some\([^)]*\)\s*=\s*self\s*\.\s*handled_connection_error'),
                          ('Set', r'\.\s*set_conn_error\s*\('),
                          ('Close', r'\bclose_if_needed\s*\('),
                          ('Convert', r'\bconvert_to_connection_error\s*\(')])
    f['handle_body'] = [o for _, o in ops]
    if f['handle_body'].count('Set') != 1:
        raise AnchorLost('handle_connection_error: set_conn_error occurrences')

    # ---- close_if_needed: match arms that call close_connection
    body, spans['close_if_needed'] = cec.fn_body('close_if_needed')
    arms = []
    for m in re.finditer(r'ErrorOrigin::(\w+)\s*\(', body):
        from rustsrc import match_close
        i = m.end() - 1
        j = match_close(body, i, '(', ')')
        pat = re.sub(r'\s+', '', body[i + 1:j])
        rest = body[j + 1:]
        am = re.match(r'\s*=>\s*', rest)
        if not am:
            continue
        rest = rest[am.end():]
        if rest.startswith('{'):
            blk, _, _ = _block_after(rest, 0)
        else:
            blk = rest.split('\n')[0]
        cm = re.search(r'close_connection\s*\(\s*([^,]+),', blk)
        if not cm:
            continue
        arg = re.sub(r'\s+', '', cm.group(1))
        if m.group(1) == 'Internal':
            p = 'PatInternal'
            binder = re.sub(r'^ref', '', pat)
        elif m.group(1) == 'Quic':
            qm = re.match(r'ConnectionErrorIncoming::(\w+)', pat)
            if not qm:
                raise AnchorLost('close_if_needed: Quic arm pattern ' + pat)
            p = {'InternalError': 'PatQuicInternal', 'Timeout': 'PatQuicTimeout',
                 'ApplicationClose': 'PatQuicAppClose', 'Undefined': 'PatQuicUndefined'}.get(qm.group(1))
            if p is None:
                raise AnchorLost('close_if_needed: Quic variant ' + qm.group(1))
            binder = None
        else:
            raise AnchorLost('close_if_needed: origin ' + m.group(1))
        cm2 = re.match(r'Code::(\w+)$', arg)
        if cm2:
            src = 'CodeConst ' + cm2.group(1)
        elif binder and arg == binder + '.code':
            src = 'CodeOfError'
        else:
            raise AnchorLost('close_if_needed: code argument ' + arg)
        arms.append((p, src))
    f['close_arms'] = arms

    # ---- convert_to_connection_error: the method (memo) and the free function (arms)
    body, spans['convert_method'] = cec.fn_body('convert_to_connection_error')
    if not re.search(r'\bconvert_to_connection_error\s*\(', body):
        raise AnchorLost('convert_to_connection_error method (expected to call the free function)')
    f['convert_sets_memo'] = bool(re.search(r'self\s*\.\s*handled_connection_error\s*=\s*Some\s*\(', body))
    body, spans['convert_fn'] = cec.fn_body('convert_to_connection_error', nth=1)
    carms = []
    for m in re.finditer(r'ErrorOrigin::(\w+)\s*\(([^=]*?)\)\s*=>\s*ConnectionError::(\w+)', body):
        origin, pat, target = m.group(1), re.sub(r'\s+', '', m.group(2)), m.group(3)
        if origin == 'Internal':
            p = 'PatInternal'
        else:
            qm = re.match(r'ConnectionErrorIncoming::(\w+)', pat)
            if qm:
                p = {'InternalError': 'PatQuicInternal', 'Timeout': 'PatQuicTimeout',
                     'ApplicationClose': 'PatQuicAppClose', 'Undefined': 'PatQuicUndefined'}.get(qm.group(1))
                if p is None:
                    raise AnchorLost('convert: Quic variant')
            elif re.match(r'\w+$', pat):
                p = 'PatQuicAny'
            else:
                raise AnchorLost('convert: pattern ' + pat)
        t = {'Local': 'ToLocal', 'Timeout': 'ToTimeout', 'Remote': 'ToRemote'}.get(target)
        if t is None:
            raise AnchorLost('convert: target ' + target)
        carms.append((p, t))
    if not carms:
        raise AnchorLost('convert arms')
    f['convert_arms'] = carms

    # ---- shared_state.rs
    body, spans['set_conn_error'] = ss.fn_body('set_conn_error')
    f['store_first_wins'] = bool(re.search(r'\.\s*get_or_init\s*\(', body))
    body, spans['set_conn_error_and_wake'] = ss.fn_body('set_conn_error_and_wake')
    ops = _ordered(body, [('Store', r'\.\s*set_conn_error\s*\('), ('Wake', r'\.\s*wake\s*\(\s*\)')], STREAM_POINTS)
    f['raise_body'] = [o for _, o in ops]
    if f['raise_body'].count('Store') != 1:
        raise AnchorLost('set_conn_error_and_wake: store occurrences')
    body, spans['get_conn_error'] = ss.fn_body('get_conn_error')
    if not re.search(r'connection_error', body):
        raise AnchorLost('get_conn_error')
    return f, spans


def _ops(prefix, names):
    out = []
    for n in names:
        if n.startswith('Point '):
            out.append('%sPoint %s' % (prefix, n.split()[1]))
        else:
            out.append(prefix + n)
    return '[' + '; '.join(out) + ']'


def render(f):
    L = ['(* GENERATED by translate/gen_sharederr.py from h3/src/error/connection_error_creators.rs and h3/src/shared_state.rs *)',
         'From H3V Require Import Base.Bytes Gen.GenCodes.',
         '(* statement vocabulary (fixed text) *)',
         'Inductive pce_op := POMemo | PORegister | POCheck | POPoint (n : N).',
         'Inductive handle_op := HOMemo | HOSet | HOClose | HOConvert.',
         'Inductive raise_op := ROStore | ROWake | ROPoint (n : N).',
         'Inductive origin_pat := PatInternal | PatQuicInternal | PatQuicTimeout | PatQuicAppClose | PatQuicUndefined | PatQuicAny.',
         'Inductive code_src := CodeOfError | CodeConst (c : N).',
         'Inductive conv_target := ToLocal | ToTimeout | ToRemote.',
         '(* facts read from the source *)',
         'Definition poll_body : list pce_op := %s.' % _ops('PO', f['poll_body']),
         'Definition check_hit : list handle_op := %s.' % _ops('HO', f['check_hit']),
         'Definition handle_body : list handle_op := %s.' % _ops('HO', f['handle_body']),
         'Definition raise_body : list raise_op := %s.' % _ops('RO', f['raise_body']),
         'Definition store_first_wins : bool := %s.' % ('true' if f['store_first_wins'] else 'false'),
         'Definition convert_sets_memo : bool := %s.' % ('true' if f['convert_sets_memo'] else 'false'),
         'Definition close_arms : list (origin_pat * code_src) := [%s].' % '; '.join('(%s, %s)' % a for a in f['close_arms']),
         'Definition convert_arms : list (origin_pat * conv_target) := [%s].' % '; '.join('(%s, %s)' % a for a in f['convert_arms'])]
    return '\n'.join(L) + '\n'


if __name__ == '__main__':
    import sys
    facts, spans = extract(sys.argv[1] if len(sys.argv) > 1 else '/repo')
    sys.stdout.write(render(facts))
