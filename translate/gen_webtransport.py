"""Source facts for C19 (WebTransport streams stay attached to their session, bytes intact).

Read from the working tree on every run:
  h3/src/webtransport/session_id.rs   From<StreamId> conversion (into_inner() vs index()), Encode expression
  h3/src/proto/frame.rs               frame_types!{} WEBTRANSPORT_BI_STREAM; Frame::decode special case (no length)
  h3/src/proto/stream.rs              stream_types!{} values
  h3/src/stream.rs                    Uni/BidiStreamHeader encoders (type constant, order), poll_next_varint
                                      (memo reset, buffer consulted before the transport), poll_type second-varint set,
                                      into_stream arm
  h3/src/frame.rs                     FrameStream::into_inner body, poll_next WebTransport arm
  h3/src/connection.rs                poll_accept_recv: guard of the WebTransportUni arm, Unknown arm stop code
  h3-webtransport/src/server.rs       WebTransportSession::accept: where the session id comes from
  h3/src/stream.rs, h3/src/buf.rs     whole bodies of BufRecvStream::{poll_data, poll_read, take_chunk, split}, of both AsyncRead
                                      impls (futures, tokio) and of BufList::{take_chunk, take_first_chunk}
  h3-webtransport/src/stream.rs       the poll_data / poll_read / split wrappers are pass-throughs
"""
import re
from rustsrc import Source, AnchorLost, parse_int, match_close

NAME = 'GenWebTransport'


def macro_rows(src, name):
    m = re.search(r'(?m)^' + name + r'!\s*\{', src.text)
    if not m:
        raise AnchorLost(name + '! invocation')
    i = src.text.index('{', m.start())
    j = match_close(src.text, i)
    rows = re.findall(r'(\w+)\s*=\s*(0x[0-9a-fA-F]+|\d+)\s*,', src.text[i:j])
    if not rows:
        raise AnchorLost(name + ' rows')
    return {a: parse_int(b) for a, b in rows}, (src.line_of(i), src.line_of(j))


def arm_stmts(body, head_re):
    """statements of the `{ ... }` block following the first match of head_re in body"""
    m = re.search(head_re, body)
    if not m:
        raise AnchorLost('arm ' + head_re)
    i = body.index('{', m.end() - 1)
    j = match_close(body, i)
    return [s.strip() for s in body[i + 1:j].split(';') if s.strip()]


def header_arm(body, variant, types):
    """[type value, position of the type write, position of the session write] of a *StreamHeader arm"""
    st = arm_stmts(body, r'Self::' + variant + r'\(\s*session_id\s*\)\s*=>\s*\{')
    ty, tpos, spos = None, None, None
    for k, s in enumerate(st):
        m = re.match(r'StreamType::(\w+)\.encode\(buf\)$', s)
        if m:
            if m.group(1) not in types or ty is not None:
                raise AnchorLost('header arm type ' + s)
            ty, tpos = types[m.group(1)], k
            continue
        if re.match(r'session_id\.encode\(buf\)$', s):
            if spos is not None:
                raise AnchorLost('header arm writes the session twice')
            spos = k
            continue
        raise AnchorLost('header arm statement ' + s)
    if ty is None or spos is None:
        raise AnchorLost('header arm incomplete: ' + variant)
    return ty, tpos < spos


def squash(t):
    return re.sub(r'\s+', '', t)


def inner_fn_body(block, name):
    """body of `fn name` inside an already extracted impl block (whitespace squashed)"""
    m = re.search(r'\bfn\s+' + name + r'\b', block)
    if not m:
        raise AnchorLost('fn %s in impl block' % name)
    i = m.end()
    depth = 0
    while i < len(block):
        c = block[i]
        if c in '([':
            depth += 1
        elif c in ')]':
            depth -= 1
        elif c == '{' and depth == 0:
            break
        i += 1
    j = match_close(block, i)
    return squash(block[i + 1:j])


GUARDS = {'!p.has_remaining()': 1, '!p.is_eos()': 2}

# the two hand-written AsyncRead bodies of BufRecvStream, whole statement sequence, whitespace removed;
# the guard expression and the capacity expression are the extracted facts
FUT_BODY = re.compile(
    r'^letp=&mut\*self;if(?P<guard>[^{]+)\{leteos=ready!\(p\.poll_read\(cx\)\.map_err\(convert_to_std_io_error\)\)\?;'
    r'ifeos\{returnPoll::Ready\(Ok\(0\)\);\}\}letchunk=p\.buf_mut\(\)\.take_chunk\((?P<cap>[^;]+)\);'
    r'ifletSome\(chunk\)=chunk\{assert!\(chunk\.len\(\)<=buf\.len\(\)\);letlen=chunk\.len\(\)\.min\(buf\.len\(\)\);'
    r'buf\[\.\.len\]\.copy_from_slice\(&chunk\);Poll::Ready\(Ok\(len\)\)\}else\{Poll::Ready\(Ok\(0\)\)\}$')
TOKIO_BODY = re.compile(
    r'^letp=&mut\*self;if(?P<guard>[^{]+)\{leteos=ready!\(p\.poll_read\(cx\)\.map_err\(convert_to_std_io_error\)\)\?;'
    r'ifeos\{returnPoll::Ready\(Ok\(\(\)\)\);\}\}letchunk=p\.buf_mut\(\)\.take_chunk\((?P<cap>[^;]+)\);'
    r'ifletSome\(chunk\)=chunk\{assert!\(chunk\.len\(\)<=buf\.remaining\(\)\);buf\.put_slice\(&chunk\);'
    r'Poll::Ready\(Ok\(\(\)\)\)\}else\{Poll::Ready\(Ok\(\(\)\)\)\}$')
SPLIT_BODY = re.compile(
    r'^let\(send,recv\)=self\.stream\.split\(\);\(BufRecvStream\{buf:(?P<b1>[^,]+),eos:self\.eos,stream:send,_marker:PhantomData,\},'
    r'BufRecvStream\{buf:(?P<b2>[^,]+),eos:self\.eos,stream:recv,_marker:PhantomData,\},\)$')
POLL_DATA_BODY = ('ifletSome(chunk)=self.buf.take_first_chunk(){returnPoll::Ready(Ok(Some(chunk)));}'
                  'ifletSome(mutdata)=ready!(self.stream.poll_data(cx))?{Poll::Ready(Ok(Some(data.copy_to_bytes(data.remaining()))))}'
                  'else{self.eos=true;Poll::Ready(Ok(None))}')
BRS_POLL_READ_BODY = ('letdata=ready!(self.stream.poll_data(cx))?;ifletSome(mutdata)=data{self.buf.push_bytes(&mutdata);'
                      'Poll::Ready(Ok(false))}else{self.eos=true;Poll::Ready(Ok(true))}')


import json
import os

BODIES_SNAPSHOT = os.path.join(os.path.dirname(os.path.abspath(__file__)), 'snapshots', 'GenWebTransport.bodies.json')

# masks: the sites that are read as facts (everything else of a body must be literally what the model was written against)
M_CONV = (r'value\.(into_inner|index)\(\)', 'value.<CONV>()')
M_ENC = (r'VarInt::from_u64\(self\.0(/\d+|>>\d+)?\)', 'VarInt::from_u64(<EXPR>)')
M_NUM = (r'=(0x[0-9a-fA-F]+|\d+),', '=<V>,')
M_RESET = (r'self\.expected=None;', '')
M_GUARD = (r'AcceptedRecvStream::WebTransportUni\(id,s\)(if!?self\.config\.settings\.enable_webtransport)?=>', 'AcceptedRecvStream::WebTransportUni(id,s)<GUARD>=>')
M_DISABLED = (r'AcceptedRecvStream::WebTransportUni\(_,mutstream\)=>\{stream\.stop_sending\(Code::\w+\.value\(\)\);\}', '')
M_RGUARD = (r'if!p\.(has_remaining|is_eos)\(\)\{', 'if<RGUARD>{')
M_SPLIT = (r'buf:(self\.buf|BufList::new\(\)),eos', 'buf:<HALF>,eos')
M_CMP = (r'buf\.remaining\(\)(>=|>)expected', 'buf.remaining()<CMP>expected')


def top_fn(src, name, after_regex=None):
    after = 0
    if after_regex:
        m = re.search(after_regex, src.text)
        if not m:
            raise AnchorLost('%s in %s' % (after_regex, src.path))
        after = m.start()
    body, _ = src.fn_body(name, after=after)
    return squash(body)


def impl_fn(src, impl_regex, name):
    blk, _, _ = src.item_block(impl_regex)
    return inner_fn_body(blk, name)


def whole_block(src, regex):
    blk, _, _ = src.item_block(regex)
    return squash(blk)


def collect_bodies(repo):
    """key -> comment-free, whitespace-free body with the fact sites masked"""
    sid = Source(repo + '/h3/src/webtransport/session_id.rs')
    pf = Source(repo + '/h3/src/proto/frame.rs')
    ps = Source(repo + '/h3/src/proto/stream.rs')
    st = Source(repo + '/h3/src/stream.rs')
    fr = Source(repo + '/h3/src/frame.rs')
    cn = Source(repo + '/h3/src/connection.rs')
    sv = Source(repo + '/h3-webtransport/src/server.rs')
    out = {}

    def put(key, text, *masks):
        for rx, rep in masks:
            text = re.sub(rx, rep, text)
        out[key] = text

    # session id: the whole file below the imports
    put('session_id.rs', squash(sid.text[sid.text.index('pub struct SessionId'):]), M_CONV, M_ENC)
    # constants (names and order pinned, values are facts)
    m = re.search(r'(?m)^frame_types!\s*\{', pf.text)
    if not m:
        raise AnchorLost('frame_types! invocation')
    i = pf.text.index('{', m.start())
    put('frame_types', squash(pf.text[i:match_close(pf.text, i) + 1]), M_NUM)
    m = re.search(r'(?m)^stream_types!\s*\{', ps.text)
    if not m:
        raise AnchorLost('stream_types! invocation')
    i = ps.text.index('{', m.start())
    put('stream_types', squash(ps.text[i:match_close(ps.text, i) + 1]), M_NUM)
    put('StreamType::encode', impl_fn(ps, r'impl\s+Encode\s+for\s+StreamType', 'encode'))
    put('StreamType::from_value', top_fn(ps, 'from_value'))
    put('FrameType::decode', top_fn(pf, 'decode', r'impl\s+FrameType\s*\{'))
    put('write_var', impl_fn(Source(repo + '/h3/src/proto/varint.rs'), r'impl<T:\s*BufMut>\s*BufMutExt\s+for\s+T', 'write_var'))
    # Frame::decode: the statement prefix up to the end of the WebTransport special case
    fd = top_fn(pf, 'decode', r'impl\s+Frame<PayloadLen>')
    end = 'returnOk(Frame::WebTransportStream(SessionId::decode(buf)?));}'
    if end not in fd:
        raise AnchorLost('Frame::decode WebTransport special case')
    put('Frame::decode(head)', fd[:fd.index(end) + len(end)])
    # stream.rs
    put('UniStreamHeader::encode', impl_fn(st, r'impl\s+Encode\s+for\s+UniStreamHeader', 'encode'))
    put('BidiStreamHeader::encode', impl_fn(st, r'impl\s+Encode\s+for\s+BidiStreamHeader', 'encode'))
    put('WriteBuf::from(UniStreamHeader)', impl_fn(st, r'impl<B>\s*From<UniStreamHeader>\s+for\s+WriteBuf<B>', 'from'))
    put('WriteBuf::from(BidiStreamHeader)', impl_fn(st, r'impl<B>\s*From<BidiStreamHeader>\s+for\s+WriteBuf<B>', 'from'))
    put('WriteBuf::encode_value', top_fn(st, 'encode_value'))
    for fn in ('remaining', 'chunk', 'advance'):
        put('WriteBuf::' + fn, impl_fn(st, r'impl<B>\s*Buf\s+for\s+WriteBuf<B>', fn))
    put('AcceptRecvStream::new', impl_fn(st, r'impl<S,\s*B>\s*AcceptRecvStream<S,\s*B>', 'new'))
    put('AcceptRecvStream::into_stream', impl_fn(st, r'impl<S,\s*B>\s*AcceptRecvStream<S,\s*B>', 'into_stream'))
    put('AcceptRecvStream::poll_next_varint', impl_fn(st, r'impl<S,\s*B>\s*AcceptRecvStream<S,\s*B>', 'poll_next_varint'), M_RESET, M_CMP)
    put('AcceptRecvStream::poll_type', impl_fn(st, r'impl<S,\s*B>\s*AcceptRecvStream<S,\s*B>', 'poll_type'))
    put('BufRecvStream::new', impl_fn(st, r'impl<S,\s*B>\s*BufRecvStream<S,\s*B>\s*\{', 'new'))
    # frame.rs
    put('FrameStream::new', top_fn(fr, 'new'))
    put('FrameStream::into_inner', top_fn(fr, 'into_inner'))
    put('FrameStream::poll_next', top_fn(fr, 'poll_next'))
    put('FrameStream::try_recv', top_fn(fr, 'try_recv'))
    put('FrameDecoder::decode', top_fn(fr, 'decode', r'impl\s+FrameDecoder\s*\{'))
    # connection.rs
    put('poll_accept_recv', top_fn(cn, 'poll_accept_recv'), M_GUARD, M_DISABLED)
    put('accepted_streams_mut', top_fn(cn, 'accepted_streams_mut'))
    # h3-webtransport server
    wts = r'impl<C,\s*B>\s*WebTransportSession<C,\s*B>'
    for fn in ('accept', 'accept_uni', 'accept_bi', 'open_bi', 'open_uni', 'session_id'):
        put('WebTransportSession::' + fn, impl_fn(sv, wts, fn))
    put('OpenBi::poll', impl_fn(sv, r"impl<'a,\s*B,\s*C>\s*Future\s+for\s+OpenBi<'a,\s*C,\s*B>", 'poll'))
    put('OpenUni::poll', impl_fn(sv, r"impl<'a,\s*C,\s*B>\s*Future\s+for\s+OpenUni<'a,\s*C,\s*B>", 'poll'))
    put('AcceptUni::poll', impl_fn(sv, r"impl<'a,\s*C,\s*B>\s*Future\s+for\s+AcceptUni<'a,\s*C,\s*B>", 'poll'))
    put('validate_wt_connect', top_fn(sv, 'validate_wt_connect'))
    return out


def check_bodies(repo):
    got = collect_bodies(repo)
    try:
        ref = json.load(open(BODIES_SNAPSHOT))
    except FileNotFoundError:
        raise AnchorLost('missing ' + BODIES_SNAPSHOT)
    bad = [k for k in sorted(set(got) | set(ref)) if got.get(k) != ref.get(k)]
    if bad:
        raise AnchorLost('not the body the model was written against: ' + ', '.join(bad))


def read_body(block, rx, what):
    body = inner_fn_body(block, 'poll_read')
    m = rx.match(body)
    if not m:
        raise AnchorLost(what + ' body changed: ' + body[:200])
    g = m.group('guard')
    if g not in GUARDS:
        raise AnchorLost(what + ' guard: ' + g)
    return GUARDS[g], m.group('cap')


def extract(repo):
    f, spans = {}, {}
    check_bodies(repo)

    # ---- session id conversion and encoding
    src = Source(repo + '/h3/src/webtransport/session_id.rs')
    blk, spans['session_from_stream'], _ = src.item_block(r'impl\s+From<StreamId>\s+for\s+SessionId')
    m = re.search(r'fn\s+from\(\s*(\w+)\s*:\s*StreamId\s*\)\s*->\s*Self\s*\{\s*Self\(\s*(\w+)\.(\w+)\(\)\s*\)\s*\}', blk)
    if not m or m.group(1) != m.group(2) or m.group(3) not in ('into_inner', 'index'):
        raise AnchorLost('From<StreamId> for SessionId body')
    f['from_stream_into_inner'] = (m.group(3) == 'into_inner')
    blk, spans['session_encode'], _ = src.item_block(r'impl\s+Encode\s+for\s+SessionId')
    m = re.search(r'VarInt::from_u64\(\s*self\.0\s*(?:(/|>>)\s*(\d+)\s*)?\)\s*\.unwrap\(\)\s*\.encode\(buf\)', blk)
    if not m:
        raise AnchorLost('SessionId::encode expression')
    if m.group(1) is None:
        f['encode_divisor'] = 1
    elif m.group(1) == '/':
        f['encode_divisor'] = int(m.group(2))
    else:
        f['encode_divisor'] = 2 ** int(m.group(2))
    body, spans['from_varint'] = src.fn_body('from_varint')
    if not re.search(r'Self\(\s*id\.0\s*\)', body):
        raise AnchorLost('SessionId::from_varint')
    blk, spans['session_decode'], _ = src.item_block(r'impl\s+Decode\s+for\s+SessionId')
    if not re.search(r'Ok\(\s*Self\(\s*VarInt::decode\(buf\)\?\s*\.into_inner\(\)\s*\)\s*\)', blk):
        raise AnchorLost('SessionId::decode')

    # ---- type constants
    fsrc = Source(repo + '/h3/src/proto/frame.rs')
    ftypes, spans['frame_types'] = macro_rows(fsrc, 'frame_types')
    if 'WEBTRANSPORT_BI_STREAM' not in ftypes:
        raise AnchorLost('WEBTRANSPORT_BI_STREAM')
    f['frame_wt_bidi'] = ftypes['WEBTRANSPORT_BI_STREAM']
    ssrc = Source(repo + '/h3/src/proto/stream.rs')
    stypes, spans['stream_types'] = macro_rows(ssrc, 'stream_types')
    for k in ('CONTROL', 'PUSH', 'ENCODER', 'DECODER', 'WEBTRANSPORT_BIDI', 'WEBTRANSPORT_UNI'):
        if k not in stypes:
            raise AnchorLost('stream type ' + k)
    f['stypes'] = stypes

    # ---- Frame::decode: the WebTransport signal is recognised before any length is read
    body, spans['frame_decode'] = fsrc.fn_body('decode')
    m = re.search(r'if\s+ty\s*==\s*FrameType::(\w+)\s*\{[^{}]*return\s+Ok\(\s*Frame::WebTransportStream\(\s*SessionId::decode\(buf\)\?\s*\)\s*\)\s*;', body)
    if not m or m.group(1) not in ftypes:
        raise AnchorLost('Frame::decode WebTransport special case')
    f['frame_wt_checked'] = ftypes[m.group(1)]
    lenpos = body.find('get_var()')
    f['frame_wt_before_length'] = (lenpos < 0 or m.start() < lenpos)
    m2 = re.search(r'FrameType::decode\(buf\)\s*\.map_err\(\s*\|_\|\s*FrameError::Incomplete\(\s*remaining\s*\+\s*(\d+)\s*\)\s*\)', body)
    if not m2:
        raise AnchorLost('Frame::decode type Incomplete')
    f['frame_type_incomplete_add'] = int(m2.group(1))

    # ---- stream.rs: header encoders, AcceptRecvStream
    st = Source(repo + '/h3/src/stream.rs')
    blk, spans['uni_header'], _ = st.item_block(r'impl\s+Encode\s+for\s+UniStreamHeader')
    f['uni_hdr_type'], f['uni_hdr_type_first'] = header_arm(blk, 'WebTransportUni', stypes)
    blk, spans['bidi_header'], _ = st.item_block(r'impl\s+Encode\s+for\s+BidiStreamHeader')
    f['bidi_hdr_type'], f['bidi_hdr_type_first'] = header_arm(blk, 'WebTransportBidi', stypes)

    body, spans['poll_next_varint'] = st.fn_body('poll_next_varint')
    dpos = body.find('VarInt::decode(')
    rpos = body.find('self.stream.poll_read(cx)')
    if dpos < 0 or rpos < 0:
        raise AnchorLost('poll_next_varint decode/poll_read')
    f['buffer_first'] = dpos < rpos
    # memo reset: a `self.expected = None;` anywhere inside the block that returns the decoded value (order of the
    # independent statements in that block does not matter); read on the whitespace-free body
    sq = squash(body)
    bm = re.search(r'ifmatches!\(self\.expected,Some\(expected\)ifbuf\.remaining\(\)(>=|>)expected\)\{', sq)
    if not bm:
        raise AnchorLost('poll_next_varint completeness test')
    bi = bm.end() - 1
    bj = match_close(sq, bi)
    blk = sq[bi + 1:bj]
    if not blk.endswith('returnPoll::Ready(Ok((result,stream_stopped)));') or blk.count('return') != 1:
        raise AnchorLost('poll_next_varint value block')
    nreset = sq.count('self.expected=None;')
    if nreset != blk.count('self.expected=None;') or nreset > 1:
        raise AnchorLost('poll_next_varint: memo reset outside the value block')
    f['memo_reset'] = (nreset == 1)
    m = re.search(r'self\.expected\.is_none\(\)\s*&&\s*buf\.remaining\(\)\s*>=\s*(\d+)', body)
    if not m or not re.search(r'self\.expected\s*=\s*Some\(\s*VarInt::encoded_size\(\s*buf\.chunk\(\)\[0\]\s*\)\s*\)', body):
        raise AnchorLost('poll_next_varint memo')
    f['memo_min'] = int(m.group(1))
    if not re.search(r'Some\(expected\)\s+if\s+buf\.remaining\(\)\s*>=\s*expected', body):
        raise AnchorLost('poll_next_varint completeness test')
    m = re.search(r'InternalConnectionError::new\(\s*Code::(\w+)', body)
    if not m:
        raise AnchorLost('poll_next_varint error code')
    f['varint_err_code'] = m.group(1)

    body, spans['poll_type'] = st.fn_body('poll_type')
    m = re.search(r'matches!\(\s*self\.ty\s*,\s*Some\(([^)]*)\)\s*\)\s*&&\s*self\.id\.is_none\(\)', body)
    if not m:
        raise AnchorLost('poll_type second varint condition')
    names = re.findall(r'StreamType::(\w+)', m.group(1))
    if not names or any(n not in stypes for n in names):
        raise AnchorLost('poll_type second varint set')
    f['second_varint_types'] = [stypes[n] for n in names]

    body, spans['into_stream'] = st.fn_body('into_stream')
    m = re.search(r'StreamType::(\w+)\s*=>\s*AcceptedRecvStream::WebTransportUni\(\s*SessionId::from_varint\(\s*self\.id\.expect\([^)]*\)\s*\)\s*,\s*self\.stream\s*,?\s*\)', body)
    if not m or m.group(1) not in stypes:
        raise AnchorLost('into_stream WebTransportUni arm')
    f['into_stream_wt_type'] = stypes[m.group(1)]
    arms = re.findall(r'StreamType::(\w+)\s*=>\s*AcceptedRecvStream::(\w+)\(', body)
    f['into_stream_arms'] = [(stypes[a], b) for a, b in arms if a in stypes]


    # ---- BufRecvStream: the read paths applications use after the hand-over, and split()
    blk, spans['brs_poll_data'], _ = st.item_block(r'impl<S:\s*RecvStream,\s*B>\s*RecvStream\s+for\s+BufRecvStream<S,\s*B>')
    if inner_fn_body(blk, 'poll_data') != POLL_DATA_BODY:
        raise AnchorLost('BufRecvStream::poll_data body changed')
    blk, spans['brs_inherent'], _ = st.item_block(r'impl<B,\s*S:\s*RecvStream>\s*BufRecvStream<S,\s*B>')
    if inner_fn_body(blk, 'poll_read') != BRS_POLL_READ_BODY:
        raise AnchorLost('BufRecvStream::poll_read body changed')
    if inner_fn_body(blk, 'take_chunk') != 'self.buf.take_chunk(limit)':
        raise AnchorLost('BufRecvStream::take_chunk body changed')
    blk, spans['futures_async_read'], _ = st.item_block(r'impl<S,\s*B>\s*futures_util::io::AsyncRead\s+for\s+BufRecvStream<S,\s*B>')
    f['fut_guard'], cap = read_body(blk, FUT_BODY, 'futures AsyncRead')
    f['fut_take_capacity'] = (cap == 'buf.len()')
    if not f['fut_take_capacity']:
        raise AnchorLost('futures AsyncRead take_chunk argument: ' + cap)
    blk, spans['tokio_async_read'], _ = st.item_block(r'impl<S,\s*B>\s*tokio::io::AsyncRead\s+for\s+BufRecvStream<S,\s*B>')
    f['tokio_guard'], cap = read_body(blk, TOKIO_BODY, 'tokio AsyncRead')
    f['tokio_take_capacity'] = (cap == 'buf.remaining()')
    if not f['tokio_take_capacity']:
        raise AnchorLost('tokio AsyncRead take_chunk argument: ' + cap)
    blk, spans['brs_split'], _ = st.item_block(r'impl<S,\s*B>\s*BidiStream<B>\s+for\s+BufRecvStream<S,\s*B>')
    m = SPLIT_BODY.match(inner_fn_body(blk, 'split'))
    if not m:
        raise AnchorLost('BufRecvStream::split body changed')
    halves = (m.group('b1'), m.group('b2'))
    if halves == ('BufList::new()', 'self.buf'):
        f['split_buf_to_recv'] = True
    elif halves == ('self.buf', 'BufList::new()'):
        f['split_buf_to_recv'] = False
    else:
        raise AnchorLost('BufRecvStream::split buffers: %s / %s' % halves)
    # BufList::take_chunk / take_first_chunk
    bl = Source(repo + '/h3/src/buf.rs')
    blk, spans['buflist_bytes'], _ = bl.item_block(r'impl\s+BufList<Bytes>')
    if inner_fn_body(blk, 'take_first_chunk') != 'self.bufs.pop_front()':
        raise AnchorLost('BufList::take_first_chunk body changed')
    if inner_fn_body(blk, 'take_chunk') != ('letchunk=self.bufs.front_mut().map(|chunk|chunk.split_to(usize::min(max_len,chunk.remaining())));'
                                            'ifletSome(front)=self.bufs.front(){iffront.remaining()==0{let_=self.bufs.pop_front();}}chunk'):
        raise AnchorLost('BufList::take_chunk body changed')
    # h3-webtransport wrappers: reads and split are pass-throughs to the BufRecvStream
    ws = Source(repo + '/h3-webtransport/src/stream.rs')
    blk, spans['wt_bidi_split'], _ = ws.item_block(r'impl<S,\s*B>\s*quic::BidiStream<B>\s+for\s+BidiStream<S,\s*B>')
    if inner_fn_body(blk, 'split') != 'let(send,recv)=self.stream.split();(SendStream::new(send),RecvStream::new(recv))':
        raise AnchorLost('h3-webtransport BidiStream::split body changed')
    n_pass = 0
    for mm in re.finditer(r'fn\s+poll_read\b', ws.text):
        i = ws.text.index('{', ws.text.index(')', mm.end()))
        # skip the return type: find the body brace after `->`
        k = ws.text.index('->', mm.end())
        i = ws.text.index('{', k)
        j = match_close(ws.text, i)
        if squash(ws.text[i + 1:j]) != 'letp=self.project();p.stream.poll_read(cx,buf)':
            raise AnchorLost('h3-webtransport poll_read wrapper changed')
        n_pass += 1
    if n_pass != 4:
        raise AnchorLost('h3-webtransport AsyncRead wrappers: %d' % n_pass)
    for mm in re.finditer(r'fn\s+poll_data\b', ws.text):
        k = ws.text.index('->', mm.end())
        i = ws.text.index('{', k)
        j = match_close(ws.text, i)
        if squash(ws.text[i + 1:j]) != 'self.stream.poll_data(cx)':
            raise AnchorLost('h3-webtransport poll_data wrapper changed')

    # ---- frame.rs: into_inner, poll_next
    fr = Source(repo + '/h3/src/frame.rs')
    body, spans['into_inner'] = fr.fn_body('into_inner')
    f['into_inner_keeps_buffer'] = (body.strip() == 'self.stream')
    if not f['into_inner_keeps_buffer'] and 'BufRecvStream' not in body and 'stream' not in body:
        raise AnchorLost('FrameStream::into_inner body')
    body, spans['poll_next'] = fr.fn_body('poll_next')
    if not re.search(r'Some\(Frame::WebTransportStream\(_\)\)\s*=>\s*\{\s*self\.remaining_data\s*=\s*usize::MAX\s*;', body):
        raise AnchorLost('poll_next WebTransport arm')

    # ---- connection.rs: routing gate
    cn = Source(repo + '/h3/src/connection.rs')
    body, spans['poll_accept_recv'] = cn.fn_body('poll_accept_recv')
    m = re.search(r'AcceptedRecvStream::WebTransportUni\(\s*(\w+)\s*,\s*(\w+)\s*\)\s*(?:if\s+([^=]+?)\s*)?=>', body)
    if not m:
        raise AnchorLost('poll_accept_recv WebTransportUni arm')
    guard = (m.group(3) or '').strip()
    if guard == '':
        f['gate'] = 'none'
    elif re.sub(r'\s+', '', guard) == 'self.config.settings.enable_webtransport':
        f['gate'] = 'local_enable_webtransport'
    elif re.sub(r'\s+', '', guard) == '!self.config.settings.enable_webtransport':
        f['gate'] = 'not_local_enable_webtransport'
    else:
        raise AnchorLost('poll_accept_recv guard: ' + guard)
    i = body.index('{', m.end() - 1) if body[m.end():].lstrip().startswith('{') else None
    if i is None:
        raise AnchorLost('WebTransportUni arm block')
    j = match_close(body, i)
    if not re.search(r'self\.accepted_streams\.wt_uni_streams\.push\(\(\s*' + m.group(1) + r'\s*,\s*' + m.group(2) + r'\s*\)\)', body[i:j]):
        raise AnchorLost('WebTransportUni arm push')
    # an arm for the case the guard refuses (absent today: the stream falls through `_ => ()`)
    md = re.search(r'AcceptedRecvStream::WebTransportUni\(\s*_\s*,\s*mut\s+stream\s*\)\s*=>\s*\{\s*stream\.stop_sending\(\s*Code::(\w+)\.value\(\)\s*\)\s*;\s*\}', body)
    if md and md.start() < m.start():
        raise AnchorLost('disabled-case arm in front of the guarded arm')
    f['disabled_stop_code'] = md.group(1) if md else None
    m = re.search(r'AcceptedRecvStream::Unknown\(\s*mut\s+stream\s*\)\s*=>', body)
    if not m:
        raise AnchorLost('Unknown arm')
    i = body.index('{', m.end())
    j = match_close(body, i)
    m = re.search(r'stream\.stop_sending\(\s*Code::(\w+)\.value\(\)\s*\)', body[i:j])
    if not m:
        raise AnchorLost('Unknown arm stop_sending')
    f['unknown_stop_code'] = m.group(1)
    # what the fall-through arm does (the disabled case lands there)
    f['fallthrough_is_noop'] = bool(re.search(r'_\s*=>\s*\(\)\s*,', body))
    m = re.search(r'Poll::Ready\(Err\(stream::PollTypeError::EndOfStream\)\)\s*=>', body)
    if not m:
        raise AnchorLost('EndOfStream arm')
    i = body.index('{', m.end())
    j = match_close(body, i)
    f['end_of_stream_removes'] = bool(re.search(r'stream\.take\(\)', body[i:j])) and 'handle_connection_error' not in body[i:j]

    # ---- h3-webtransport: the session id of an accepted session
    sv = Source(repo + '/h3-webtransport/src/server.rs')
    body, spans['session_accept'] = sv.fn_body('accept')
    m = re.search(r'let\s+session_id\s*=\s*stream\.(\w+)\(\)\.into\(\)\s*;', body)
    if not m or m.group(1) not in ('send_id', 'id'):
        raise AnchorLost('WebTransportSession::accept session id source')
    f['session_from_connect_stream'] = True
    body, spans['accept_bi'] = sv.fn_body('accept_bi')
    if not re.search(r'Ok\(Some\(Frame::WebTransportStream\(session_id\)\)\)\s*=>\s*\{[^{}]*resolver\.frame_stream\.into_inner\(\)', body):
        raise AnchorLost('accept_bi WebTransport arm')
    return f, spans


def b(x):
    return 'true' if x else 'false'


def render(f):
    st = f['stypes']
    L = ['(* GENERATED by translate/gen_webtransport.py from h3/src/webtransport/session_id.rs, proto/frame.rs,',
         '   proto/stream.rs, stream.rs, frame.rs, connection.rs and h3-webtransport/src/server.rs *)',
         'From H3V Require Import Base.Bytes Gen.GenCodes.',
         '(* From<StreamId> for SessionId: value.into_inner() (true) or value.index() (false) *)',
         'Definition wt_from_stream_into_inner : bool := %s.' % b(f['from_stream_into_inner']),
         '(* SessionId::encode writes VarInt::from_u64(self.0 / d) *)',
         'Definition wt_encode_divisor : N := %d.' % f['encode_divisor'],
         'Definition wt_frame_bidi : N := %d.' % f['frame_wt_bidi'],
         'Definition wt_frame_checked : N := %d.' % f['frame_wt_checked'],
         'Definition wt_frame_before_length : bool := %s.' % b(f['frame_wt_before_length']),
         'Definition wt_frame_type_incomplete_add : N := %d.' % f['frame_type_incomplete_add'],
         'Definition wt_st_control : N := %d.' % st['CONTROL'],
         'Definition wt_st_push : N := %d.' % st['PUSH'],
         'Definition wt_st_encoder : N := %d.' % st['ENCODER'],
         'Definition wt_st_decoder : N := %d.' % st['DECODER'],
         'Definition wt_st_bidi : N := %d.' % st['WEBTRANSPORT_BIDI'],
         'Definition wt_st_uni : N := %d.' % st['WEBTRANSPORT_UNI'],
         '(* header encoders: the stream type constant written and whether it comes before the session id *)',
         'Definition wt_uni_hdr_type : N := %d.' % f['uni_hdr_type'],
         'Definition wt_uni_hdr_type_first : bool := %s.' % b(f['uni_hdr_type_first']),
         'Definition wt_bidi_hdr_type : N := %d.' % f['bidi_hdr_type'],
         'Definition wt_bidi_hdr_type_first : bool := %s.' % b(f['bidi_hdr_type_first']),
         '(* AcceptRecvStream *)',
         'Definition wt_buffer_first : bool := %s.' % b(f['buffer_first']),
         'Definition wt_memo_reset : bool := %s.' % b(f['memo_reset']),
         'Definition wt_memo_min : N := %d.' % f['memo_min'],
         'Definition wt_varint_err_code : N := %s.' % f['varint_err_code'],
         'Definition wt_second_varint_types : list N := [%s].' % '; '.join('%d' % x for x in f['second_varint_types']),
         'Definition wt_into_stream_type : N := %d.' % f['into_stream_wt_type'],
         '(* FrameStream::into_inner returns self.stream (buffer included) *)',
         'Definition wt_into_inner_keeps_buffer : bool := %s.' % b(f['into_inner_keeps_buffer']),
         '(* poll_accept_recv: guard of the WebTransportUni arm. 0 = no guard, 1 = config.settings.enable_webtransport, 2 = its negation *)',
         'Definition wt_gate : N := %d.' % {'none': 0, 'local_enable_webtransport': 1, 'not_local_enable_webtransport': 2}[f['gate']],
         'Definition wt_unknown_stop_code : N := %s.' % f['unknown_stop_code'],
         '(* a 0x54 stream refused by the guard: true = an explicit arm sends STOP_SENDING(code); false = it falls through `_ => ()` *)',
         'Definition wt_disabled_stops : bool := %s.' % b(f['disabled_stop_code'] is not None),
         'Definition wt_disabled_stop_code : N := %s.' % (f['disabled_stop_code'] or '0'),
         'Definition wt_fallthrough_is_noop : bool := %s.' % b(f['fallthrough_is_noop']),
         'Definition wt_end_of_stream_removes : bool := %s.' % b(f['end_of_stream_removes']),
         'Definition wt_session_from_connect_stream : bool := %s.' % b(f['session_from_connect_stream']),
         '(* AsyncRead for BufRecvStream (futures / tokio): what makes the body skip the transport. 1 = data is buffered (!has_remaining() guards the poll), 2 = eos flag (!is_eos()) *)',
         'Definition wt_fut_guard : N := %d.' % f['fut_guard'],
         'Definition wt_tokio_guard : N := %d.' % f['tokio_guard'],
         '(* take_chunk is called with the capacity of the destination (buf.len() / buf.remaining()) *)',
         'Definition wt_fut_take_capacity : bool := %s.' % b(f['fut_take_capacity']),
         'Definition wt_tokio_take_capacity : bool := %s.' % b(f['tokio_take_capacity']),
         '(* BidiStream::split for BufRecvStream: the buffered bytes go to the receive half *)',
         'Definition wt_split_buf_to_recv : bool := %s.' % b(f['split_buf_to_recv'])]
    return '\n'.join(L) + '\n'


if __name__ == '__main__':
    # python3 gen_webtransport.py --snapshot : (re)write the body snapshot from /repo (done by hand, when the model is updated)
    import sys
    if len(sys.argv) > 1 and sys.argv[1] == '--snapshot':
        json.dump(collect_bodies(sys.argv[2] if len(sys.argv) > 2 else '/repo'), open(BODIES_SNAPSHOT, 'w'), indent=1, sort_keys=True)
        print('wrote', BODIES_SNAPSHOT)
