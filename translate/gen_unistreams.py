"""Source facts for C04 (control / unidirectional stream rules).

Reads  h3/src/proto/stream.rs   stream_types!{}, StreamType::grease constants
       h3/src/proto/frame.rs    frame_types!{}, the HTTP/2-reserved arm of Frame::decode, FrameType::grease constants
       h3/src/stream.rs         AcceptRecvStream::into_stream arms, the two-varint types of poll_type, and the two
                                decision points of poll_next_varint (memo reset after a decode; buffer consulted
                                before the transport)
       h3/src/connection.rs     the Code at every error site of poll_accept_recv / poll_control / process_goaway,
                                the stop_sending code for unknown streams, whether poll_control propagates a Pending
                                grease step (`ready!`) or not
       h3/src/server/connection.rs, h3/src/client/connection.rs   the Codes of the role filters
"""
import re
from rustsrc import Source, AnchorLost, parse_int, match_close

NAME = 'GenStreamTypes'


SHAPES = [('h3/src/connection.rs', 'poll_accept_recv', 'poll_accept_recv'),
          ('h3/src/connection.rs', 'poll_control', 'inner_poll_control'),
          ('h3/src/connection.rs', 'process_goaway', 'process_goaway'),
          ('h3/src/connection.rs', 'poll_grease_stream', 'poll_grease_stream'),
          ('h3/src/stream.rs', 'into_stream', 'into_stream'),
          ('h3/src/stream.rs', 'poll_next_varint', 'poll_next_varint'),
          ('h3/src/stream.rs', 'poll_type', 'poll_type'),
          ('h3/src/server/connection.rs', 'accept', 'server_accept'),
          ('h3/src/server/connection.rs', 'shutdown', 'server_shutdown'),
          ('h3/src/server/connection.rs', 'poll_accept_request_stream_internal', 'server_poll_accept_request'),
          ('h3/src/server/connection.rs', 'poll_control', 'server_poll_control'),
          ('h3/src/server/connection.rs', 'poll_next_control', 'server_poll_next_control'),
          ('h3/src/client/connection.rs', 'poll_close', 'client_poll_close'),
          ('h3/src/client/connection.rs', 'wait_idle', 'client_wait_idle'),
          ('h3/src/server/connection.rs', 'poll_accept_request_stream', 'server_poll_accept_request_stream'),
          ('h3/src/server/connection.rs', 'poll_requests_completion', 'server_poll_requests_completion'),
          ('h3/src/server/connection.rs', 'create_resolver_internal', 'server_create_resolver_internal')]

# the closed list of functions of the `impl Connection` blocks of the two roles: a function that is not listed (a new
# entry point driving the control stream, say) is an anchor loss, not something silently outside the model
IMPL_FNS = {'h3/src/client/connection.rs': ['shutdown', 'wait_idle', 'poll_close'],
            'h3/src/server/connection.rs': ['new', 'create_resolver', 'poll_accept_request_stream', 'accept',
                                            'create_resolver_internal', 'shutdown', 'poll_accept_request_stream_internal',
                                            'poll_control', 'poll_next_control', 'poll_requests_completion']}
# whole items outside functions that the model takes as identities
ITEM_SHAPES = [('h3/src/proto/push.rs', r'impl\s+From<PushId>\s+for\s+VarInt\b', 'pushid_to_varint'),
               ('h3/src/proto/push.rs', r'impl\s+From<VarInt>\s+for\s+PushId\b', 'varint_to_pushid')]


def impl_fns(src):
    """names of the fns defined directly in the `impl<..> Connection<..>` blocks (not trait impls), in source order"""
    names = []
    for m in re.finditer(r'\bimpl\s*<[^{;]*?>\s*Connection\s*<[^{;]*?>\s*(?:where[^{]*)?\{', src.text):
        i = m.end() - 1
        j = match_close(src.text, i)
        block = src.text[i + 1:j]
        depth = 0
        k = 0
        while k < len(block):
            c = block[k]
            if c == '"':
                k += 1
                while k < len(block) and block[k] != '"':
                    k += 2 if block[k] == '\\' else 1
            elif c == '{':
                depth += 1
            elif c == '}':
                depth -= 1
            elif depth == 0:
                mm = re.match(r'fn\s+(\w+)', block[k:])
                if mm and (k == 0 or not (block[k - 1].isalnum() or block[k - 1] == '_')):
                    names.append(mm.group(1))
                    k += mm.end() - 1
            k += 1
    return names


def shape_of(body):
    """whole-body anchor: the statement sequence with string literals blanked and white space removed, as a number"""
    import hashlib
    body = re.sub(r'"(?:[^"\\]|\\.)*"', '""', body)
    body = re.sub(r'\s+', '', body)
    # rustfmt adds or drops trailing commas when an expression is re-wrapped
    body = body.replace(',)', ')').replace(',}', '}').replace(',]', ']')
    return int(hashlib.sha256(body.encode()).hexdigest()[:15], 16)


def macro_rows(src, name):
    m = re.search(r'(?m)^' + name + r'!\s*\{', src.text)
    if not m:
        raise AnchorLost(name + '! invocation')
    i = src.text.index('{', m.start())
    j = match_close(src.text, i)
    rows = re.findall(r'(\w+)\s*=\s*(0x[0-9a-fA-F]+|\d+)\s*,', src.text[i:j])
    if len(rows) < 4:
        raise AnchorLost(name + ' rows')
    return [(a, parse_int(b)) for a, b in rows], (src.line_of(i), src.line_of(j))


def grease_consts(src, type_name):
    m = re.search(r'impl\s+' + type_name + r'\s*\{', src.text)
    pos = 0
    while True:
        m = re.search(r'\bfn\s+grease\s*\(\s*\)\s*->\s*Self\s*\{', src.text[pos:])
        if not m:
            raise AnchorLost('grease fn of ' + type_name)
        i = pos + m.end() - 1
        j = match_close(src.text, i)
        body = src.text[i:j]
        mm = re.search(type_name + r'\(\s*fastrand::u64\(\s*0\s*\.\.\s*(0x[0-9a-fA-F]+|\d+)\s*\)\s*\*\s*(0x[0-9a-fA-F]+|\d+)\s*\+\s*(0x[0-9a-fA-F]+|\d+)\s*\)', body)
        if mm:
            return [parse_int(x) for x in mm.groups()], (src.line_of(i), src.line_of(j))
        pos = j


def codes_in(body):
    return re.findall(r'InternalConnectionError::new\(\s*Code::(\w+)', body)


def extract(repo):
    f, spans = {}, {}
    ps = Source(repo + '/h3/src/proto/stream.rs')
    f['stream_types'], spans['stream_types'] = macro_rows(ps, 'stream_types')
    f['st_grease'], spans['st_grease'] = grease_consts(ps, 'StreamType')
    pf = Source(repo + '/h3/src/proto/frame.rs')
    f['frame_types'], spans['frame_types'] = macro_rows(pf, 'frame_types')
    f['ft_grease'], spans['ft_grease'] = grease_consts(pf, 'FrameType')
    body, spans['frame_decode'] = pf.fn_body('decode')
    m = re.search(r'((?:FrameType::\w+\s*\|\s*)*FrameType::\w+)\s*=>\s*Err\(FrameError::UnsupportedFrame', body)
    if not m:
        raise AnchorLost('HTTP/2 reserved arm')
    f['h2_reserved'] = re.findall(r'FrameType::(\w+)', m.group(1))
    # which arm comes first: the payload-less special cases
    if not re.search(r'ty\s*==\s*FrameType::WEBTRANSPORT_BI_STREAM', body) or not re.search(r'ty\s*==\s*FrameType::DATA', body):
        raise AnchorLost('special arms of Frame::decode')
    arms = re.findall(r'FrameType::(\w+)\s*=>\s*Ok\(Frame::(\w+)', body)
    f['decode_arms'] = arms
    if len(arms) < 6:
        raise AnchorLost('Frame::decode arms')

    st = Source(repo + '/h3/src/stream.rs')
    body, spans['into_stream'] = st.fn_body('into_stream')
    arms = re.findall(r'StreamType::(\w+)\s*=>\s*AcceptedRecvStream::(\w+)', body)
    if len(arms) < 4 or not re.search(r'_\s*=>\s*AcceptedRecvStream::Unknown', body):
        raise AnchorLost('into_stream arms')
    f['into_stream'] = arms
    body, spans['poll_type'] = st.fn_body('poll_type')
    m = re.search(r'Some\(\s*((?:StreamType::\w+\s*\|\s*)*StreamType::\w+)\s*\)\s*\)\s*&&\s*self\.id\.is_none\(\)', body)
    if not m:
        raise AnchorLost('poll_type two-varint types')
    f['two_varint'] = re.findall(r'StreamType::(\w+)', m.group(1))
    body, spans['poll_next_varint'] = st.fn_body('poll_next_varint')
    i_dec = body.find('VarInt::decode(')
    i_read = body.find('poll_read(cx)')
    if i_dec < 0 or i_read < 0:
        raise AnchorLost('poll_next_varint anchors')
    f['pnv_buffer_first'] = i_dec < i_read
    i_ret = body.find('return Poll::Ready(Ok((', i_dec)
    if i_ret < 0:
        raise AnchorLost('poll_next_varint return')
    f['pnv_memo_reset'] = bool(re.search(r'self\.expected\s*=\s*None\s*;', body[i_dec:i_ret]))
    cs = codes_in(body)
    if len(cs) != 1:
        raise AnchorLost('poll_next_varint code')
    f['pnv_code'] = cs[0]

    cn = Source(repo + '/h3/src/connection.rs')
    body, spans['poll_accept_recv'] = cn.fn_body('poll_accept_recv')
    cs = codes_in(body)
    if len(cs) != 3:
        raise AnchorLost('poll_accept_recv error sites: %r' % cs)
    f['par_codes'] = cs
    m = re.search(r'stop_sending\(\s*Code::(\w+)\.value\(\)\s*\)', body)
    if not m:
        raise AnchorLost('stop_sending code')
    f['par_stop'] = m.group(1)
    # slot claiming order as written: Control, Encoder, Decoder arms exist
    for k in ('Control', 'Encoder', 'Decoder', 'Unknown'):
        if not re.search(r'AcceptedRecvStream::' + k + r'\(', body):
            raise AnchorLost('poll_accept_recv arm ' + k)
    body, spans['poll_control'] = cn.fn_body('poll_control')
    cs = codes_in(body)
    if len(cs) != 7:
        raise AnchorLost('poll_control error sites: %r' % cs)
    f['pc_codes'] = cs
    if re.search(r'ready!\(\s*self\.poll_grease_stream\(cx\)\s*\)', body):
        f['grease_pending_propagates'] = True
    elif re.search(r'let\s+_\s*=\s*self\.poll_grease_stream\(cx\)', body):
        f['grease_pending_propagates'] = False
    else:
        raise AnchorLost('poll_control grease call')
    m = re.search(r'frame\s*@\s*Frame::(\w+)\(_\)\s*\|\s*frame\s*@\s*Frame::(\w+)\(_\)\s*\|\s*frame\s*@\s*Frame::(\w+)\(_\)', body)
    if not m:
        raise AnchorLost('poll_control pass-through arm')
    f['pc_pass'] = list(m.groups())
    body, spans['process_goaway'] = cn.fn_body('process_goaway')
    cs = codes_in(body)
    m = re.search(r'if\s+prev_id\s*(<=|<|>=|>)\s*id', body)
    if len(cs) != 1 or not m:
        raise AnchorLost('process_goaway')
    f['goaway_code'] = cs[0]
    f['goaway_cmp'] = m.group(1)

    sv = Source(repo + '/h3/src/server/connection.rs')
    body, spans['server_poll_next_control'] = sv.fn_body('poll_next_control')
    cs = codes_in(body)
    if len(cs) != 1:
        raise AnchorLost('server poll_next_control')
    f['srv_code'] = cs[0]
    m = re.search(r'Frame::(\w+)\(_\)\s*\|\s*_frame\s*@\s*Frame::(\w+)\(_\)', body)
    if not m:
        raise AnchorLost('server ignored frames arm')
    f['srv_ignored'] = list(m.groups())
    cl = Source(repo + '/h3/src/client/connection.rs')
    body, spans['client_poll_close'] = cl.fn_body('poll_close')
    cs = codes_in(body)
    if len(cs) != 3:
        raise AnchorLost('client poll_close sites: %r' % cs)
    f['cli_codes'] = cs
    if not re.search(r'!\s*StreamId::from\(id\)\.is_request\(\)', body):
        raise AnchorLost('client goaway id check')

    # whole bodies of the functions the model mirrors by hand (loops, guards, `continue`s, statement order)
    f['shapes'] = []
    cache = {}
    for path, fn, name in SHAPES:
        src = cache.setdefault(path, Source(repo + '/' + path))
        body, spans['shape_' + name] = src.fn_body(fn)
        f['shapes'].append((name, shape_of(body)))
    for path, want in IMPL_FNS.items():
        src = cache.setdefault(path, Source(repo + '/' + path))
        got = impl_fns(src)
        if got != want:
            raise AnchorLost('functions of `impl Connection` in %s: %r (model written against %r)' % (path, got, want))
    for path, rx, name in ITEM_SHAPES:
        src = cache.setdefault(path, Source(repo + '/' + path))
        m = re.search(rx, src.text)
        if not m:
            raise AnchorLost(name)
        i = src.text.index('{', m.end())
        j = match_close(src.text, i)
        spans['shape_' + name] = (src.line_of(i), src.line_of(j))
        f['shapes'].append((name, shape_of(src.text[m.start():j + 1])))
    return f, spans


def b(x):
    return 'true' if x else 'false'


def render(f):
    L = ['(* GENERATED by translate/gen_unistreams.py from h3/src/proto/stream.rs, proto/frame.rs, stream.rs,',
         '   connection.rs, server/connection.rs, client/connection.rs *)',
         'From H3V Require Import Base.Bytes Gen.GenCodes.',
         '(* stream_types! *)']
    for n, v in f['stream_types']:
        L.append('Definition st_%s : N := %d.' % (n, v))
    L.append('Definition stream_type_table : list N := [%s].' % '; '.join('st_' + n for n, _ in f['stream_types']))
    L.append('(* StreamType::grease / FrameType::grease: fastrand::u64(0..bound) * mul + add *)')
    for pre, key in (('st', 'st_grease'), ('cft', 'ft_grease')):
        bd, mul, add = f[key]
        L.append('Definition %s_grease_bound : N := %d.' % (pre, bd))
        L.append('Definition %s_grease_mul : N := %d.' % (pre, mul))
        L.append('Definition %s_grease_add : N := %d.' % (pre, add))
    L.append('(* frame_types! *)')
    for n, v in f['frame_types']:
        L.append('Definition cft_%s : N := %d.' % (n, v))
    L.append('Definition cft_table : list N := [%s].' % '; '.join('cft_' + n for n, _ in f['frame_types']))
    L.append('(* Frame::decode: the arm answering UnsupportedFrame, and the payload arms in source order *)')
    L.append('Definition h2_reserved_types : list N := [%s].' % '; '.join('cft_' + n for n in f['h2_reserved']))
    L.append('Inductive frame_kind := KHeaders | KSettings | KCancelPush | KPushPromise | KGoaway | KMaxPushId.')
    kind = {'Headers': 'KHeaders', 'Settings': 'KSettings', 'CancelPush': 'KCancelPush', 'PushPromise': 'KPushPromise',
            'Goaway': 'KGoaway', 'MaxPushId': 'KMaxPushId'}
    L.append('Definition decode_arms : list (N * frame_kind) := [%s].' % '; '.join(
        '(cft_%s, %s)' % (t, kind[k]) for t, k in f['decode_arms']))
    L.append('(* AcceptRecvStream::into_stream arms in source order; anything else is Unknown *)')
    L.append('Inductive uni_kind := UControl | UPush | UEncoder | UDecoder | UWebTransportUni | UUnknown.')
    uk = {'Control': 'UControl', 'Push': 'UPush', 'Encoder': 'UEncoder', 'Decoder': 'UDecoder', 'WebTransportUni': 'UWebTransportUni'}
    L.append('Definition into_stream_arms : list (N * uni_kind) := [%s].' % '; '.join(
        '(st_%s, %s)' % (t, uk[k]) for t, k in f['into_stream']))
    L.append('(* poll_type: the types followed by a second varint (push id / session id) *)')
    L.append('Definition two_varint_types : list N := [%s].' % '; '.join('st_' + n for n in f['two_varint']))
    L.append('(* poll_next_varint decision points *)')
    L.append('Definition pnv_buffer_first : bool := %s.' % b(f['pnv_buffer_first']))
    L.append('Definition pnv_memo_reset : bool := %s.' % b(f['pnv_memo_reset']))
    L.append('Definition code_pnv_internal : N := %s.' % f['pnv_code'])
    L.append('(* poll_accept_recv error sites in source order, and the stop_sending code for unknown streams *)')
    for nm, c in zip(('two_control', 'two_encoder', 'two_decoder'), f['par_codes']):
        L.append('Definition code_par_%s : N := %s.' % (nm, c))
    L.append('Definition code_par_stop_unknown : N := %s.' % f['par_stop'])
    L.append('(* poll_control error sites in source order *)')
    for nm, c in zip(('reset', 'quic_unknown', 'unexpected_end', 'closed', 'second_settings', 'missing_settings', 'unexpected_frame'),
                     f['pc_codes']):
        L.append('Definition code_pc_%s : N := %s.' % (nm, c))
    L.append('Definition pc_pass_through : list frame_kind := [%s].' % '; '.join(kind[k] for k in f['pc_pass']))
    L.append('Definition grease_pending_propagates : bool := %s.' % b(f['grease_pending_propagates']))
    L.append('(* process_goaway: `if prev_id OP id` is the H3_ID_ERROR condition *)')
    L.append('Inductive gcmp := GLt | GLe | GGt | GGe.')
    L.append('Definition goaway_reject_cmp : gcmp := %s.' % {'<': 'GLt', '<=': 'GLe', '>': 'GGt', '>=': 'GGe'}[f['goaway_cmp']])
    L.append('Definition code_goaway_increase : N := %s.' % f['goaway_code'])
    L.append('(* role filters *)')
    L.append('Definition code_srv_unexpected : N := %s.' % f['srv_code'])
    L.append('Definition srv_ignored : list frame_kind := [%s].' % '; '.join(kind[k] for k in f['srv_ignored']))
    for nm, c in zip(('goaway_id', 'unexpected', 'bidi'), f['cli_codes']):
        L.append('Definition code_cli_%s : N := %s.' % (nm, c))
    L.append('(* whole-body shapes (comments and string literals blanked, white space removed, SHA-256 prefix): any edit of a')
    L.append('   function whose control flow the model mirrors by hand moves one of these *)')
    for name, v in f['shapes']:
        L.append('Definition shape_%s : N := %d.' % (name, v))
    return '\n'.join(L) + '\n'
