"""Source facts for C16/C18: proto/varint.rs and the StreamId arithmetic of proto/stream.rs."""
import re
from rustsrc import Source, AnchorLost, parse_int, coq_list


def extract(repo):
    src = Source(repo + '/h3/src/proto/varint.rs')
    spans = {}
    facts = {}

    body, span = src.fn_body('size')
    spans['size'] = span
    rows = re.findall(r'x\s*<\s*2u64\.pow\(\s*(\d+)\s*\)\s*\{\s*(\d+)\s*\}', body)
    if len(rows) < 1:
        raise AnchorLost('varint size rows')
    facts['size_rows'] = [(int(a), int(b)) for a, b in rows]

    body, span = src.fn_body('encode')
    spans['encode'] = span
    rows = []
    for m in re.finditer(r'x\s*<\s*2u64\.pow\(\s*(\d+)\s*\)\s*\{\s*w\.put_u(\d+)\(([^;]*)\);', body):
        pw, width, expr = int(m.group(1)), int(m.group(2)), m.group(3)
        mm = re.match(r'\s*(\w+)\s*<<\s*(\d+)\s*\|\s*x(\s+as\s+u\d+)?\s*$', expr)
        if mm:
            tag, sh = parse_int(mm.group(1)), int(mm.group(2))
        elif re.match(r'\s*x(\s+as\s+u\d+)?\s*$', expr):
            tag, sh = 0, 0
        else:
            raise AnchorLost('varint encode arm: ' + expr)
        rows.append((pw, width, tag, sh))
    if not rows:
        raise AnchorLost('varint encode rows')
    facts['enc_rows'] = rows

    body, span = src.fn_body('decode')
    spans['decode'] = span
    m = re.search(r'let\s+tag\s*=\s*buf\[0\]\s*>>\s*(\d+)', body)
    if not m:
        raise AnchorLost('varint decode tag')
    facts['dec_tag_shift'] = int(m.group(1))
    m = re.search(r'buf\[0\]\s*&=\s*(\w+)', body)
    if not m:
        raise AnchorLost('varint decode mask')
    facts['dec_mask'] = parse_int(m.group(1))
    m = re.search(r'!r\.has_remaining\(\)\s*\{\s*return\s+Err\(UnexpectedEnd\((\d+)\)\)', body)
    if not m:
        raise AnchorLost('varint decode empty')
    facts['dec_empty_err'] = int(m.group(1))
    rows = []
    arm_re = re.compile(r'(0b[01]+)\s*=>\s*(\{|u64::from\(buf\[0\]\))')
    for m in arm_re.finditer(body):
        tag = parse_int(m.group(1))
        if m.group(2) != '{':
            rows.append((tag, 0, 0, 0, 1))
            continue
        from rustsrc import match_close
        i = m.end() - 1
        j = match_close(body, i)
        arm = body[i:j]
        a = re.search(r'r\.remaining\(\)\s*<\s*(\d+)\s*\{\s*return\s+Err\(UnexpectedEnd\((\d+)\)\)', arm)
        b = re.search(r'copy_to_slice\(&mut\s+buf\[(\d+)\.\.(\d+)\]\)', arm)
        c = re.search(r'from_be_bytes\(buf\[\.\.(\d+)\]', arm) or (re.search(r'u64::from_be_bytes\(buf\)', arm) and 8)
        if not (a and b and c):
            raise AnchorLost('varint decode arm %d' % tag)
        total = c if isinstance(c, int) else int(c.group(1))
        if int(b.group(1)) != 1:
            raise AnchorLost('varint decode slice start')
        rows.append((tag, int(a.group(1)), int(a.group(2)), int(b.group(2)) - 1, total))
    if not rows:
        raise AnchorLost('varint decode rows')
    facts['dec_rows'] = rows

    body, span = src.fn_body('from_u64')
    spans['from_u64'] = span
    m = re.search(r'if\s+x\s*(<|<=)\s*2u64\.pow\(\s*(\d+)\s*\)', body)
    if not m:
        raise AnchorLost('from_u64 bound')
    facts['from_u64_strict'] = (m.group(1) == '<')
    facts['from_u64_pow'] = int(m.group(2))

    body, span = src.fn_body('encoded_size')
    m = re.search(r'2usize\.pow\(\(first\s*>>\s*(\d+)\)\s*as\s*u32\)', body)
    if not m:
        raise AnchorLost('encoded_size')
    facts['encsize_shift'] = int(m.group(1))

    m = re.search(r'pub const MAX: VarInt = VarInt\(\(1\s*<<\s*(\d+)\)\s*-\s*1\)', src.text)
    if not m:
        raise AnchorLost('VarInt::MAX')
    facts['max_shift'] = int(m.group(1))

    # the other checked constructors: they must delegate to from_u64 (the whole body is the delegation)
    def body_of(rx, what, text):
        m = re.search(rx, text, re.S)
        if not m:
            raise AnchorLost(what)
        return re.sub(r'\s+', ' ', m.group(1)).strip()
    b = body_of(r'impl\s+std::convert::TryFrom<u64>\s+for\s+VarInt\s*\{.*?fn\s+try_from\(x:\s*u64\)[^{]*\{(.*?)\}\s*\}', 'TryFrom<u64> for VarInt', src.text)
    facts['try_from_u64_delegates'] = (b == 'VarInt::from_u64(x)')
    if not facts['try_from_u64_delegates']:
        raise AnchorLost('TryFrom<u64> for VarInt body: ' + b)
    b = body_of(r'impl\s+std::convert::TryFrom<usize>\s+for\s+VarInt\s*\{.*?fn\s+try_from\(x:\s*usize\)[^{]*\{(.*?)\}\s*\}', 'TryFrom<usize> for VarInt', src.text)
    facts['try_from_usize_delegates'] = (b == 'VarInt::try_from(x as u64)')
    if not facts['try_from_usize_delegates']:
        raise AnchorLost('TryFrom<usize> for VarInt body: ' + b)
    pu = Source(repo + '/h3/src/proto/push.rs')
    b = body_of(r'impl\s+TryFrom<u64>\s+for\s+PushId\s*\{.*?fn\s+try_from\(v:\s*u64\)[^{]*\{(.*?)\}\s*\}\s*\}', 'TryFrom<u64> for PushId', pu.text + '}')
    facts['push_id_delegates'] = bool(re.fullmatch(r'match VarInt::try_from\(v\) \{ Ok\(id\) => Ok\(id\.into\(\)\), Err\(_\) => Err\(InvalidPushId\(v\)\), ?', b))
    if not facts['push_id_delegates']:
        raise AnchorLost('TryFrom<u64> for PushId body: ' + b)
    # write_var / get_var wrappers, both copies
    co = Source(repo + '/h3/src/proto/coding.rs')
    wv, gv = [], []
    for srcx in (src, co):
        for mm in re.finditer(r'fn\s+write_var\(&mut self,\s*x:\s*u64\)\s*\{(.*?)\}', srcx.text, re.S):
            wv.append(re.sub(r'\s+', ' ', mm.group(1)).strip())
        for mm in re.finditer(r'fn\s+get_var\(&mut self\)\s*->\s*[^{;]*\{(.*?)\}', srcx.text, re.S):
            gv.append(re.sub(r'\s+', ' ', mm.group(1)).strip())
    if len(wv) != 2 or any(w != 'VarInt::from_u64(x).unwrap().encode(self);' for w in wv):
        raise AnchorLost('write_var bodies: %r' % wv)
    if len(gv) != 2 or any(g != 'Ok(VarInt::decode(self)?.into_inner())' for g in gv):
        raise AnchorLost('get_var bodies: %r' % gv)
    facts['write_var_is_checked_encode'] = True
    facts['get_var_is_decode'] = True
    if len(facts['size_rows']) != 4 or len(facts['enc_rows']) != 4 or len(facts['dec_rows']) != 4:
        raise AnchorLost('varint tables must have four rows each')

    # StreamId
    s2 = Source(repo + '/h3/src/proto/stream.rs')
    t = s2.text
    def need(rx, what):
        m = re.search(rx, t)
        if not m:
            raise AnchorLost('StreamId ' + what)
        return m
    body, _ = s2.fn_body('index')
    m = re.search(r'self\.0\s*>>\s*(\d+)', body)
    if not m: raise AnchorLost('sid index')
    facts['sid_index_shift'] = int(m.group(1))
    body, _ = s2.fn_body('initiator')
    m = re.search(r'self\.0\s*&\s*(\w+)\s*==\s*0\s*\{\s*Side::(\w+)', body)
    if not m: raise AnchorLost('sid initiator')
    facts['sid_init_mask'] = parse_int(m.group(1))
    facts['sid_init_zero_is_client'] = (m.group(2) == 'Client')
    body, _ = s2.fn_body('dir')
    m = re.search(r'self\.0\s*&\s*(\w+)\s*==\s*0\s*\{\s*Dir::(\w+)', body)
    if not m: raise AnchorLost('sid dir')
    facts['sid_dir_mask'] = parse_int(m.group(1))
    facts['sid_dir_zero_is_bi'] = (m.group(2) == 'Bi')
    body, _ = s2.fn_body('new')
    m = re.search(r'\(index\)\s*<<\s*(\d+)\s*\|\s*\(dir as u64\)\s*<<\s*(\d+)\s*\|\s*initiator as u64', body)
    if not m: raise AnchorLost('sid new')
    facts['sid_new_index_shift'] = int(m.group(1))
    facts['sid_new_dir_shift'] = int(m.group(2))
    body, _ = s2.fn_body('add')
    m = re.search(r'u64::min\(\s*u64::saturating_add\(self\.index\(\),\s*rhs as u64\),\s*VarInt::MAX\.0\s*>>\s*(\d+),?\s*\)', body)
    if not m: raise AnchorLost('sid add')
    facts['sid_add_cap_shift'] = int(m.group(1))
    if not re.search(r'Self::new\(index,\s*self\.dir\(\),\s*self\.initiator\(\)\)', body):
        raise AnchorLost('sid add new')
    m = need(r'impl TryFrom<u64> for StreamId\s*\{[^}]*?fn try_from\(v: u64\)[^{]*\{\s*if\s+v\s*(>=|>)\s*VarInt::MAX\.0', 'try_from')
    facts['sid_try_from_strict_gt'] = (m.group(1) == '>')
    body, _ = s2.fn_body('is_request')
    m = re.search(r'self\.dir\(\)\s*==\s*Dir::(\w+)\s*&&\s*self\.initiator\(\)\s*==\s*Side::(\w+)', body)
    if not m: raise AnchorLost('is_request')
    facts['is_request_def'] = (m.group(1), m.group(2))
    body, _ = s2.fn_body('is_push')
    m = re.search(r'self\.dir\(\)\s*==\s*Dir::(\w+)\s*&&\s*self\.initiator\(\)\s*==\s*Side::(\w+)', body)
    if not m: raise AnchorLost('is_push')
    facts['is_push_def'] = (m.group(1), m.group(2))
    return facts, spans


def b(x):
    return 'true' if x else 'false'


def render(f):
    L = []
    L.append('(* GENERATED by translate/gen_varint.py from h3/src/proto/varint.rs and proto/stream.rs. *)')
    L.append('From H3V Require Import Base.Bytes.')
    L.append('Definition size_rows : list (N * N) := %s.' % coq_list('(%d, %d)' % r for r in f['size_rows']))
    L.append('Definition enc_rows : list (N * (N * (N * N))) := %s.' % coq_list('(%d, (%d, (%d, %d)))' % r for r in f['enc_rows']))
    L.append('Definition dec_tag_shift : N := %d.' % f['dec_tag_shift'])
    L.append('Definition dec_mask : N := %d.' % f['dec_mask'])
    L.append('Definition dec_empty_err : N := %d.' % f['dec_empty_err'])
    L.append('Definition dec_rows : list (N * (N * (N * (N * N)))) := %s.' % coq_list('(%d, (%d, (%d, (%d, %d))))' % r for r in f['dec_rows']))
    L.append('Definition from_u64_strict : bool := %s.' % b(f['from_u64_strict']))
    L.append('Definition from_u64_pow : N := %d.' % f['from_u64_pow'])
    L.append('Definition encsize_shift : N := %d.' % f['encsize_shift'])
    L.append('Definition try_from_u64_delegates : bool := %s.' % b(f['try_from_u64_delegates']))
    L.append('Definition try_from_usize_delegates : bool := %s.' % b(f['try_from_usize_delegates']))
    L.append('Definition push_id_delegates : bool := %s.' % b(f['push_id_delegates']))
    L.append('Definition write_var_is_checked_encode : bool := %s.' % b(f['write_var_is_checked_encode']))
    L.append('Definition get_var_is_decode : bool := %s.' % b(f['get_var_is_decode']))
    L.append('Definition max_shift : N := %d.' % f['max_shift'])
    L.append('Definition sid_index_shift : N := %d.' % f['sid_index_shift'])
    L.append('Definition sid_init_mask : N := %d.' % f['sid_init_mask'])
    L.append('Definition sid_init_zero_is_client : bool := %s.' % b(f['sid_init_zero_is_client']))
    L.append('Definition sid_dir_mask : N := %d.' % f['sid_dir_mask'])
    L.append('Definition sid_dir_zero_is_bi : bool := %s.' % b(f['sid_dir_zero_is_bi']))
    L.append('Definition sid_new_index_shift : N := %d.' % f['sid_new_index_shift'])
    L.append('Definition sid_new_dir_shift : N := %d.' % f['sid_new_dir_shift'])
    L.append('Definition sid_add_cap_shift : N := %d.' % f['sid_add_cap_shift'])
    L.append('Definition sid_try_from_strict_gt : bool := %s.' % b(f['sid_try_from_strict_gt']))
    L.append('Definition is_request_bi_client : bool := %s.' % b(f['is_request_def'] == ('Bi', 'Client')))
    L.append('Definition is_push_uni_server : bool := %s.' % b(f['is_push_def'] == ('Uni', 'Server')))
    return '\n'.join(L) + '\n'


NAME = 'GenVarint'
