"""Source facts for C16/C18: proto/varint.rs, the StreamId/StreamType code of proto/stream.rs, the write_var/get_var
copies of proto/coding.rs, PushId::try_from (proto/push.rs) and SessionId (webtransport/session_id.rs).

How an item is read.  Every function the Coq model mirrors is located inside its impl block and its WHOLE text
(`fn name(params) -> ret { body }`, comments stripped) is compared with a template kept below.  Before the comparison
both sides are normalised:
  * whitespace is dropped (one blank is kept between two adjacent words);
  * identifiers bound by the function itself - parameters, `let [mut] x`, `Ok(x) =>`/`Err(x) =>`/`Some(x) =>` -
    are renamed v0, v1, ... in binding order (alpha-normalisation), so a pure rename of a local passes, while an
    inserted statement, an early return, an extra arm, a changed result expression or anything after the
    condition does not.
The template is the Rust text of the item with HOLES at the fact sites only: <<name:regex>> (a word-like hole: a
number, a path segment), <<name~regex>> (an operator / string-literal hole), <<name>> (must repeat the earlier
hole).  A text that does not match its template raises AnchorLost (= the check reports a violation; the message
names the item and the first position where the normalised texts part).  Where a site decides a boolean fact
(`*_delegates`, `write_var_is_checked_encode`, `get_var_is_decode`) the item has two templates: the delegating body
(fact true) and the plain unchecked body (fact false, which the theorems refute); anything else is AnchorLost.
"""
import re
from rustsrc import Source, AnchorLost, parse_int, coq_list, match_close

NAME = 'GenVarint'

# ------------------------------------------------------------------ normaliser

_TOK_REAL = re.compile(r'b?"(?:[^"\\]|\\.)*"|\'(?:\\.[^\']*|[^\'\\])\'|\w+|\s+|.', re.S)
_TOK_TPL = re.compile(r'<<\w+(?:[:~].*?)?>>|' + _TOK_REAL.pattern, re.S)
_HOLE = re.compile(r'<<(\w+)(?:([:~])(.*?))?>>$', re.S)
_KEYWORDS = {'self', 'Self', 'mut', 'ref', 'let', 'if', 'else', 'match', 'return', 'fn', 'as', 'for', 'in', 'impl',
             'pub', 'const', 'unsafe', 'crate', 'super', 'where', 'type', 'true', 'false', '_'}


def tokens(text, template=False):
    """holes are recognised in templates only (real Rust text may contain `a<<b>>c`)"""
    return [t for t in (_TOK_TPL if template else _TOK_REAL).findall(text) if not t.isspace()]


def is_word(t):
    m = _HOLE.match(t)
    if m:
        return m.group(2) != '~'          # <<n:..>> and <<n>> stand for words, <<n~..>> for operators / literals
    return bool(re.match(r'\w', t)) and not t.startswith(('"', "'"))


def binders(toks):
    """identifiers the item binds itself, in binding order"""
    out = []

    def add(t):
        if re.fullmatch(r'[A-Za-z_]\w*', t) and t not in _KEYWORDS and t not in out:
            out.append(t)
    # parameters: `name :` at depth 1 of the first parenthesis group
    try:
        i = toks.index('(')
    except ValueError:
        i = None
    if i is not None and toks[0] == 'fn':
        depth, k = 0, i
        while k < len(toks):
            t = toks[k]
            if t in '([':
                depth += 1
            elif t in ')]':
                depth -= 1
                if depth == 0:
                    break
            elif depth == 1 and k + 1 < len(toks) and toks[k + 1] == ':' and toks[k - 1] in ('(', ',', 'mut') \
                    and (k + 2 >= len(toks) or toks[k + 2] != ':'):
                add(t)
            k += 1
    for k, t in enumerate(toks):
        if t == 'let':
            j = k + 1
            if j < len(toks) and toks[j] == 'mut':
                j += 1
            if j < len(toks):
                add(toks[j])
        if t in ('Ok', 'Err', 'Some') and k + 5 < len(toks) + 1 and toks[k + 1:k + 2] == ['('] \
                and toks[k + 3:k + 6] == [')', '=', '>']:
            add(toks[k + 2])
    return out


def normalise(text, template=False):
    """token list after alpha-normalisation"""
    toks = tokens(text, template)
    names = {n: 'v%d' % i for i, n in enumerate(binders(toks))}
    out = []
    for k, t in enumerate(toks):
        if t in names:
            prev = toks[k - 1] if k else ''
            prev2 = toks[k - 2] if k > 1 else ''
            nxt = toks[k + 1] if k + 1 < len(toks) else ''
            nxt2 = toks[k + 2] if k + 2 < len(toks) else ''
            is_path = (prev == ':' and prev2 == ':') or (nxt == ':' and nxt2 == ':')
            is_field = prev == '.' and prev2 != '.'
            is_macro = nxt == '!' and nxt2 != '='
            if not (is_path or is_field or is_macro):
                t = names[t]
        out.append(t)
    return out


def joined(toks):
    out = []
    for k, t in enumerate(toks):
        if k and is_word(toks[k - 1]) and is_word(t):
            out.append(' ')
        out.append(t)
    return ''.join(out)


def template_parts(tpl):
    toks = normalise(tpl, True)
    parts, seen = [], set()
    for k, t in enumerate(toks):
        sp = ' ' if (k and is_word(toks[k - 1]) and is_word(t)) else ''
        m = _HOLE.match(t)
        if not m:
            parts.append(sp + re.escape(t))
        elif m.group(2) is None:
            if m.group(1) not in seen:
                raise ValueError('hole %s repeated before it is defined' % m.group(1))
            parts.append(sp + '(?P=%s)' % m.group(1))
        else:
            seen.add(m.group(1))
            parts.append(sp + '(?P<%s>%s)' % (m.group(1), m.group(3)))
    return parts


def template_regex(tpl):
    return re.compile(''.join(template_parts(tpl)))


def matched_prefix(tpl, text):
    """how far the normalised text follows the template (diagnosis only)"""
    parts, best = template_parts(tpl), 0
    for k in range(1, len(parts) + 1):
        m = re.compile(''.join(parts[:k])).match(text)
        if not m:
            break
        best = m.end()
    return best


def match_item(what, text, templates):
    """templates: list of (template, tagvalue); returns (tagvalue, groupdict) of the first full match"""
    norm = joined(normalise(text))
    for tpl, tag in templates:
        m = template_regex(tpl).fullmatch(norm)
        if m:
            return tag, m.groupdict()
    n = max(matched_prefix(tpl, norm) for tpl, _ in templates)
    raise AnchorLost('%s is not the text the model was written against; it follows the template up to `%s` and parts '
                     'from it at `%s`' % (what, norm[max(0, n - 30):n], norm[n:n + 50]))


# ------------------------------------------------------------------ locating items

def impl_block(src, header_rx, what):
    ms = list(re.finditer(header_rx, src.text))
    if len(ms) != 1:
        raise AnchorLost('%s: %d impl blocks match in %s' % (what, len(ms), src.path))
    i = src.text.index('{', ms[0].end() - 1)
    j = match_close(src.text, i)
    return src.text[i + 1:j], (src.line_of(i), src.line_of(j))


def fn_item(block, name, what):
    """text `fn name ... { ... }` of the only fn of that name at depth 0 of the block"""
    found = []
    depth, i, n = 0, 0, len(block)
    pat = re.compile(r'\bfn\s+' + re.escape(name) + r'\b')
    while i < n:
        c = block[i]
        if c == '{':
            i = match_close(block, i) + 1
            continue
        m = pat.match(block, i) if c == 'f' and (i == 0 or not (block[i - 1].isalnum() or block[i - 1] == '_')) else None
        if m:
            k, pd = m.end(), 0
            while k < n:
                ch = block[k]
                if ch in '([':
                    pd += 1
                elif ch in ')]':
                    pd -= 1
                elif ch == '{' and pd == 0:
                    break
                elif ch == ';' and pd == 0:
                    raise AnchorLost('%s: fn %s has no body' % (what, name))
                k += 1
            e = match_close(block, k)
            found.append(block[i:e + 1])
            i = e + 1
            continue
        i += 1
    if len(found) != 1:
        raise AnchorLost('%s: %d definitions of fn %s' % (what, len(found), name))
    return found[0]


def fn_names(block):
    """names of the fns at depth 0 of an impl block"""
    out, i, n = [], 0, len(block)
    while i < n:
        if block[i] == '{':
            i = match_close(block, i) + 1
            continue
        m = re.compile(r'\bfn\s+(\w+)').match(block, i)
        if m and (i == 0 or not (block[i - 1].isalnum() or block[i - 1] == '_')):
            out.append(m.group(1))
            i = m.end()
            continue
        i += 1
    return out


# ------------------------------------------------------------------ templates (Rust text, holes at the fact sites)

T = {}
T['VarInt::from_u32'] = [('fn from_u32(x: u32) -> Self { VarInt(x as u64) }', None)]
T['VarInt::from_u64'] = [('''fn from_u64(x: u64) -> Result<Self, VarIntBoundsExceeded> {
    if x <<op~<=?>> 2u64.pow(<<pow:\\d+>>) { Ok(VarInt(x)) } else { Err(VarIntBoundsExceeded(x)) } }''', None)]
T['VarInt::from_u64_unchecked'] = [('fn from_u64_unchecked(x: u64) -> Self { VarInt(x) }', None)]
T['VarInt::into_inner'] = [('fn into_inner(self) -> u64 { self.0 }', None)]
T['VarInt::size'] = [('''fn size(self) -> usize {
    let x = self.0;
    if x < 2u64.pow(<<p0:\\d+>>) { <<s0:\\d+>> }
    else if x < 2u64.pow(<<p1:\\d+>>) { <<s1:\\d+>> }
    else if x < 2u64.pow(<<p2:\\d+>>) { <<s2:\\d+>> }
    else if x < 2u64.pow(<<p3:\\d+>>) { <<s3:\\d+>> }
    else { unreachable!("malformed VarInt"); } }''', None)]
T['VarInt::encoded_size'] = [('fn encoded_size(first: u8) -> usize { 2usize.pow((first >> <<sh:\\d+>>) as u32) }', None)]
T['VarInt::decode'] = [('''fn decode<B: Buf>(r: &mut B) -> Result<Self, UnexpectedEnd> {
    if !r.has_remaining() { return Err(UnexpectedEnd(<<e_empty:\\d+>>)); }
    let mut buf = [0; 8];
    buf[0] = r.get_u8();
    let tag = buf[0] >> <<tagshift:\\d+>>;
    buf[0] &= <<mask:\\w+>>;
    let x = match tag {
        <<t0:0b[01]+>> => u64::from(buf[0]),
        <<t1:0b[01]+>> => {
            if r.remaining() < <<n1:\\d+>> { return Err(UnexpectedEnd(<<e1:\\d+>>)); }
            r.copy_to_slice(&mut buf[1..<<c1:\\d+>>]);
            u64::from(u16::from_be_bytes(buf[..<<tot1:\\d+>>].try_into().unwrap()))
        }
        <<t2:0b[01]+>> => {
            if r.remaining() < <<n2:\\d+>> { return Err(UnexpectedEnd(<<e2:\\d+>>)); }
            r.copy_to_slice(&mut buf[1..<<c2:\\d+>>]);
            u64::from(u32::from_be_bytes(buf[..<<tot2:\\d+>>].try_into().unwrap()))
        }
        <<t3:0b[01]+>> => {
            if r.remaining() < <<n3:\\d+>> { return Err(UnexpectedEnd(<<e3:\\d+>>)); }
            r.copy_to_slice(&mut buf[1..<<c3:\\d+>>]);
            u64::from_be_bytes(buf)
        }
        _ => unreachable!(),
    };
    Ok(VarInt(x)) }''', None)]
T['VarInt::encode'] = [('''fn encode<B: BufMut>(&self, w: &mut B) {
    let x = self.0;
    if x < 2u64.pow(<<p0:\\d+>>) { w.put_u8(x as u8); }
    else if x < 2u64.pow(<<p1:\\d+>>) { w.put_u16(<<t1:\\w+>> << <<s1:\\d+>> | x as u16); }
    else if x < 2u64.pow(<<p2:\\d+>>) { w.put_u32(<<t2:\\w+>> << <<s2:\\d+>> | x as u32); }
    else if x < 2u64.pow(<<p3:\\d+>>) { w.put_u64(<<t3:\\w+>> << <<s3:\\d+>> | x); }
    else { unreachable!("malformed VarInt") } }''', None)]
T['From<VarInt> for u64'] = [('fn from(x: VarInt) -> u64 { x.0 }', None)]
T['From<u8> for VarInt'] = [('fn from(x: u8) -> Self { VarInt(x.into()) }', None)]
T['From<u16> for VarInt'] = [('fn from(x: u16) -> Self { VarInt(x.into()) }', None)]
T['From<u32> for VarInt'] = [('fn from(x: u32) -> Self { VarInt(x.into()) }', None)]
T['TryFrom<u64> for VarInt'] = [
    ('fn try_from(x: u64) -> Result<Self, VarIntBoundsExceeded> { VarInt::from_u64(x) }', True),
    ('fn try_from(x: u64) -> Result<Self, VarIntBoundsExceeded> { Ok(VarInt(x)) }', False)]
T['TryFrom<usize> for VarInt'] = [
    ('fn try_from(x: usize) -> Result<Self, VarIntBoundsExceeded> { VarInt::try_from(x as u64) }', True),
    ('fn try_from(x: usize) -> Result<Self, VarIntBoundsExceeded> { Ok(VarInt(x as u64)) }', False)]
T['TryFrom<u64> for PushId'] = [
    ('''fn try_from(v: u64) -> Result<Self, Self::Error> {
        match VarInt::try_from(v) { Ok(id) => Ok(id.into()), Err(_) => Err(InvalidPushId(v)), } }''', True),
    ('fn try_from(v: u64) -> Result<Self, Self::Error> { Ok(PushId(v)) }', False),
    ('fn try_from(v: u64) -> Result<Self, Self::Error> { Ok(Self(v)) }', False)]
T['From<VarInt> for PushId'] = [('fn from(v: VarInt) -> Self { Self(v.0) }', None)]
T['get_var (varint.rs)'] = [
    ('fn get_var(&mut self) -> Result<u64, UnexpectedEnd> { Ok(VarInt::decode(self)?.into_inner()) }', True),
    ('fn get_var(&mut self) -> Result<u64, UnexpectedEnd> { Err(UnexpectedEnd(0)) }', False)]
T['get_var (coding.rs)'] = [
    ('fn get_var(&mut self) -> Result<u64> { Ok(VarInt::decode(self)?.into_inner()) }', True),
    ('fn get_var(&mut self) -> Result<u64> { Err(UnexpectedEnd(0)) }', False)]
T['write_var'] = [
    ('fn write_var(&mut self, x: u64) { VarInt::from_u64(x).unwrap().encode(self); }', True),
    ('fn write_var(&mut self, x: u64) { VarInt::from_u32(x as u32).encode(self); }', False)]
# proto/stream.rs
T['Decode for StreamType'] = [('fn decode<B: Buf>(buf: &mut B) -> Result<Self, UnexpectedEnd> { Ok(StreamType(buf.get_var()?)) }', None)]
T['Encode for StreamType'] = [('fn encode<W: BufMut>(&self, buf: &mut W) { buf.write_var(self.0); }', None)]
T['StreamType::value'] = [('fn value(&self) -> u64 { self.0 }', None)]
T['StreamType::from_value'] = [('fn from_value(value: u64) -> Self { StreamType(value) }', None)]
T['Display for StreamId'] = [('''fn fmt(&self, f: &mut fmt::Formatter<'_>) -> fmt::Result {
    let initiator = match self.initiator() { Side::Client => <<w_client~"[^"\\\\{}]*">>, Side::Server => <<w_server~"[^"\\\\{}]*">>, };
    let dir = match self.dir() { Dir::Uni => <<w_uni~"[^"\\\\{}]*">>, Dir::Bi => <<w_bi~"[^"\\\\{}]*">>, };
    write!(f, <<fmt~"[^"\\\\]*">>, initiator, dir, <<num~self\\.index\\(\\)|self\\.0|self\\.into_inner\\(\\)>>) }''', None)]
T['StreamId::is_request'] = [('fn is_request(&self) -> bool { self.dir() == Dir::<<d:\\w+>> && self.initiator() == Side::<<s:\\w+>> }', None)]
T['StreamId::is_push'] = [('fn is_push(&self) -> bool { self.dir() == Dir::<<d:\\w+>> && self.initiator() == Side::<<s:\\w+>> }', None)]
T['StreamId::initiator'] = [('fn initiator(self) -> Side { if self.0 & <<mask:\\w+>> == 0 { Side::<<zero:\\w+>> } else { Side::<<one:\\w+>> } }', None)]
T['StreamId::new'] = [('''fn new(index: u64, dir: Dir, initiator: Side) -> Self {
    StreamId((index) << <<ishift:\\d+>> | (dir as u64) << <<dshift:\\d+>> | initiator as u64) }''', None)]
T['StreamId::index'] = [('fn index(self) -> u64 { self.0 >> <<shift:\\d+>> }', None)]
T['StreamId::dir'] = [('fn dir(self) -> Dir { if self.0 & <<mask:\\w+>> == 0 { Dir::<<zero:\\w+>> } else { Dir::<<one:\\w+>> } }', None)]
T['StreamId::into_inner'] = [('fn into_inner(self) -> u64 { self.0 }', None)]
T['TryFrom<u64> for StreamId'] = [('''fn try_from(v: u64) -> Result<Self, Self::Error> {
    if v <<op~>=?>> VarInt::MAX.0 { return Err(InvalidStreamId(v)); } Ok(Self(v)) }''', None)]
T['From<VarInt> for StreamId'] = [('fn from(v: VarInt) -> Self { Self(v.0) }', None)]
T['From<StreamId> for VarInt'] = [('fn from(v: StreamId) -> Self { Self(v.0) }', None)]
T['From<SessionId> for StreamId'] = [('fn from(value: SessionId) -> Self { Self(value.into_inner()) }', None)]
T['Encode for StreamId'] = [('fn encode<B: bytes::BufMut>(&self, buf: &mut B) { VarInt::from_u64(self.0).unwrap().encode(buf); }', None)]
T['Add<usize> for StreamId'] = [('''fn add(self, rhs: usize) -> Self::Output {
    let index = u64::min(u64::saturating_add(self.index(), rhs as u64), VarInt::MAX.0 >> <<cap:\\d+>> <<tc~,?>> );
    Self::new(index, self.dir(), self.initiator()) }''', None)]
# webtransport/session_id.rs
T['SessionId::from_varint'] = [('fn from_varint(id: VarInt) -> SessionId { Self(id.0) }', None)]
T['SessionId::into_inner'] = [('fn into_inner(self) -> u64 { self.0 }', None)]
T['TryFrom<u64> for SessionId'] = [('''fn try_from(v: u64) -> Result<Self, Self::Error> {
    if v <<op~>=?>> VarInt::MAX.0 { return Err(InvalidStreamId(v)); } Ok(Self(v)) }''', None)]
T['Encode for SessionId'] = [('fn encode<B: bytes::BufMut>(&self, buf: &mut B) { VarInt::from_u64(self.0).unwrap().encode(buf); }', None)]
T['Decode for SessionId'] = [('fn decode<B: bytes::Buf>(buf: &mut B) -> crate::proto::coding::Result<Self> { Ok(Self(VarInt::decode(buf)?.into_inner())) }', None)]
T['From<StreamId> for SessionId'] = [('fn from(value: StreamId) -> Self { Self(value.into_inner()) }', None)]

TF = r'(?:std::convert::|convert::)?TryFrom'
# (key, file, impl header regex, fn name, allowed fn names of the impl block or None = not checked)
ITEMS = [
    ('VarInt::from_u32', 'va', r'(?m)^impl\s+VarInt\s*\{', 'from_u32'),
    ('VarInt::from_u64', 'va', r'(?m)^impl\s+VarInt\s*\{', 'from_u64'),
    ('VarInt::from_u64_unchecked', 'va', r'(?m)^impl\s+VarInt\s*\{', 'from_u64_unchecked'),
    ('VarInt::into_inner', 'va', r'(?m)^impl\s+VarInt\s*\{', 'into_inner'),
    ('VarInt::size', 'va', r'(?m)^impl\s+VarInt\s*\{', 'size'),
    ('VarInt::encoded_size', 'va', r'(?m)^impl\s+VarInt\s*\{', 'encoded_size'),
    ('VarInt::decode', 'va', r'(?m)^impl\s+VarInt\s*\{', 'decode'),
    ('VarInt::encode', 'va', r'(?m)^impl\s+VarInt\s*\{', 'encode'),
    ('From<VarInt> for u64', 'va', r'(?m)^impl\s+From<VarInt>\s+for\s+u64\s*\{', 'from'),
    ('From<u8> for VarInt', 'va', r'(?m)^impl\s+From<u8>\s+for\s+VarInt\s*\{', 'from'),
    ('From<u16> for VarInt', 'va', r'(?m)^impl\s+From<u16>\s+for\s+VarInt\s*\{', 'from'),
    ('From<u32> for VarInt', 'va', r'(?m)^impl\s+From<u32>\s+for\s+VarInt\s*\{', 'from'),
    ('TryFrom<u64> for VarInt', 'va', r'(?m)^impl\s+' + TF + r'<u64>\s+for\s+VarInt\s*\{', 'try_from'),
    ('TryFrom<usize> for VarInt', 'va', r'(?m)^impl\s+' + TF + r'<usize>\s+for\s+VarInt\s*\{', 'try_from'),
    ('get_var (varint.rs)', 'va', r'(?m)^impl<(\w+):\s*Buf>\s+BufExt\s+for\s+\1\s*\{', 'get_var'),
    ('write_var', 'va', r'(?m)^impl<(\w+):\s*BufMut>\s+BufMutExt\s+for\s+\1\s*\{', 'write_var'),
    ('get_var (coding.rs)', 'co', r'(?m)^impl<(\w+):\s*Buf>\s+BufExt\s+for\s+\1\s*\{', 'get_var'),
    ('write_var', 'co', r'(?m)^impl<(\w+):\s*BufMut>\s+BufMutExt\s+for\s+\1\s*\{', 'write_var'),
    ('TryFrom<u64> for PushId', 'pu', r'(?m)^impl\s+' + TF + r'<u64>\s+for\s+PushId\s*\{', 'try_from'),
    ('From<VarInt> for PushId', 'pu', r'(?m)^impl\s+From<VarInt>\s+for\s+PushId\s*\{', 'from'),
    ('Decode for StreamType', 'st', r'(?m)^impl\s+Decode\s+for\s+StreamType\s*\{', 'decode'),
    ('Encode for StreamType', 'st', r'(?m)^impl\s+Encode\s+for\s+StreamType\s*\{', 'encode'),
    ('StreamType::value', 'st', r'(?m)^impl\s+StreamType\s*\{', 'value'),
    ('StreamType::from_value', 'st', r'(?m)^impl\s+StreamType\s*\{', 'from_value'),
    ('Display for StreamId', 'st', r'(?m)^impl\s+(?:std::)?(?:fmt::)?Display\s+for\s+StreamId\s*\{', 'fmt'),
    ('StreamId::is_request', 'st', r'(?m)^impl\s+StreamId\s*\{', 'is_request'),
    ('StreamId::is_push', 'st', r'(?m)^impl\s+StreamId\s*\{', 'is_push'),
    ('StreamId::initiator', 'st', r'(?m)^impl\s+StreamId\s*\{', 'initiator'),
    ('StreamId::new', 'st', r'(?m)^impl\s+StreamId\s*\{', 'new'),
    ('StreamId::index', 'st', r'(?m)^impl\s+StreamId\s*\{', 'index'),
    ('StreamId::dir', 'st', r'(?m)^impl\s+StreamId\s*\{', 'dir'),
    ('StreamId::into_inner', 'st', r'(?m)^impl\s+StreamId\s*\{', 'into_inner'),
    ('TryFrom<u64> for StreamId', 'st', r'(?m)^impl\s+' + TF + r'<u64>\s+for\s+StreamId\s*\{', 'try_from'),
    ('From<VarInt> for StreamId', 'st', r'(?m)^impl\s+From<VarInt>\s+for\s+StreamId\s*\{', 'from'),
    ('From<StreamId> for VarInt', 'st', r'(?m)^impl\s+From<StreamId>\s+for\s+VarInt\s*\{', 'from'),
    ('From<SessionId> for StreamId', 'st', r'(?m)^impl\s+From<SessionId>\s+for\s+StreamId\s*\{', 'from'),
    ('Encode for StreamId', 'st', r'(?m)^impl\s+Encode\s+for\s+StreamId\s*\{', 'encode'),
    ('Add<usize> for StreamId', 'st', r'(?m)^impl\s+(?:std::ops::|ops::)?Add<usize>\s+for\s+StreamId\s*\{', 'add'),
    ('SessionId::from_varint', 'se', r'(?m)^impl\s+SessionId\s*\{', 'from_varint'),
    ('SessionId::into_inner', 'se', r'(?m)^impl\s+SessionId\s*\{', 'into_inner'),
    ('TryFrom<u64> for SessionId', 'se', r'(?m)^impl\s+' + TF + r'<u64>\s+for\s+SessionId\s*\{', 'try_from'),
    ('Encode for SessionId', 'se', r'(?m)^impl\s+Encode\s+for\s+SessionId\s*\{', 'encode'),
    ('Decode for SessionId', 'se', r'(?m)^impl\s+Decode\s+for\s+SessionId\s*\{', 'decode'),
    ('From<StreamId> for SessionId', 'se', r'(?m)^impl\s+From<StreamId>\s+for\s+SessionId\s*\{', 'from'),
]
# every fn of these impl blocks must be one of the anchored ones (a new method = a new writer/constructor to look at)
CLOSED_BLOCKS = [
    ('va', r'(?m)^impl\s+VarInt\s*\{', ['from_u32', 'from_u64', 'from_u64_unchecked', 'into_inner', 'size', 'encoded_size', 'decode', 'encode']),
    ('st', r'(?m)^impl\s+StreamId\s*\{', ['is_request', 'is_push', 'initiator', 'new', 'index', 'dir', 'into_inner']),
    ('se', r'(?m)^impl\s+SessionId\s*\{', ['from_varint', 'into_inner']),
]
FILES = {'va': '/h3/src/proto/varint.rs', 'co': '/h3/src/proto/coding.rs', 'pu': '/h3/src/proto/push.rs',
         'st': '/h3/src/proto/stream.rs', 'se': '/h3/src/webtransport/session_id.rs'}


def display_parse(text):
    """the lenient reading of Display the harness (harness/src/bin/c16.rs, fn display_parse) applies: case-insensitive
    words, the last run of digits"""
    low = text.lower()
    side = 'client' if ('client' in low and 'server' not in low) else 'server' if ('server' in low and 'client' not in low) else '?'
    dirn = 'uni' if 'uni' in low else 'bi' if 'bi' in low else '?'
    nums = re.findall(r'\d+', text)
    return side, dirn, (nums[-1] if nums else '?')


def enum_discriminants(src, name):
    m = re.search(r'\benum\s+' + name + r'\s*\{', src.text)
    if not m:
        raise AnchorLost('enum ' + name)
    i = src.text.index('{', m.start())
    j = match_close(src.text, i)
    body = re.sub(r'\s+', '', src.text[i + 1:j])
    rows = re.fullmatch(r'(?:(\w+)=(\d+),)(?:(\w+)=(\d+),?)', body)
    if not rows:
        raise AnchorLost('enum %s is not two variants with explicit discriminants: %s' % (name, body))
    return {rows.group(1): int(rows.group(2)), rows.group(3): int(rows.group(4))}


def extract(repo):
    srcs = {k: Source(repo + p) for k, p in FILES.items()}
    spans, got = {}, {}
    for key, fk, hdr, fn in ITEMS:
        block, span = impl_block(srcs[fk], hdr, key)
        item = fn_item(block, fn, key)
        tag, g = match_item('%s (%s)' % (key, FILES[fk][8:]), item, T[key])
        got.setdefault(key, []).append((tag, g))
        spans[key + '@' + fk] = span
    for fk, hdr, allowed in CLOSED_BLOCKS:
        block, _ = impl_block(srcs[fk], hdr, hdr)
        extra = [n for n in fn_names(block) if n not in allowed]
        if extra:
            raise AnchorLost('new method(s) %s in the inherent impl block (%s) of %s: not modelled' % (extra, allowed[0] + ', ...', FILES[fk][1:]))

    def one(key):
        return got[key][0][1]

    def flag(key):
        tags = {t for t, _ in got[key]}
        if len(tags) != 1:
            raise AnchorLost('the copies of %s differ' % key)
        return tags.pop()

    f = {}
    g = one('VarInt::size')
    f['size_rows'] = [(int(g['p%d' % i]), int(g['s%d' % i])) for i in range(4)]
    g = one('VarInt::encode')
    f['enc_rows'] = [(int(g['p0']), 8, 0, 0)] + [(int(g['p%d' % i]), w, parse_int(g['t%d' % i]), int(g['s%d' % i]))
                                                  for i, w in ((1, 16), (2, 32), (3, 64))]
    g = one('VarInt::decode')
    f['dec_tag_shift'] = int(g['tagshift'])
    f['dec_mask'] = parse_int(g['mask'])
    f['dec_empty_err'] = int(g['e_empty'])
    f['dec_rows'] = [(parse_int(g['t0']), 0, 0, 0, 1)] + [
        (parse_int(g['t%d' % i]), int(g['n%d' % i]), int(g['e%d' % i]), int(g['c%d' % i]) - 1, tot)
        for i, tot in ((1, int(g['tot1'])), (2, int(g['tot2'])), (3, 8))]
    g = one('VarInt::from_u64')
    f['from_u64_strict'] = (g['op'] == '<')
    f['from_u64_pow'] = int(g['pow'])
    f['encsize_shift'] = int(one('VarInt::encoded_size')['sh'])
    m = re.search(r'\bconst\s+MAX\s*:\s*VarInt\s*=\s*VarInt\(\(1\s*<<\s*(\d+)\)\s*-\s*1\)\s*;', srcs['va'].text)
    if not m or len(re.findall(r'\bconst\s+MAX\b', srcs['va'].text)) != 1:
        raise AnchorLost('VarInt::MAX')
    f['max_shift'] = int(m.group(1))
    f['try_from_u64_delegates'] = flag('TryFrom<u64> for VarInt')
    f['try_from_usize_delegates'] = flag('TryFrom<usize> for VarInt')
    f['push_id_delegates'] = flag('TryFrom<u64> for PushId')
    f['write_var_is_checked_encode'] = flag('write_var')
    gv = {flag('get_var (varint.rs)'), flag('get_var (coding.rs)')}
    if len(gv) != 1:
        raise AnchorLost('the copies of get_var differ')
    f['get_var_is_decode'] = gv.pop()
    # stream.rs must take write_var/get_var from proto/coding.rs (the copy of proto/varint.rs is anchored as well)
    st = srcs['st'].text
    m = re.search(r'\bcoding::\{([^}]*)\}', st)
    if not m or not {'BufExt', 'BufMutExt', 'Decode', 'Encode'} <= set(re.findall(r'\w+', m.group(1))) \
            or re.search(r'varint::\{[^}]*Buf(Mut)?Ext', st) or re.search(r'varint::Buf(Mut)?Ext', st):
        raise AnchorLost('proto/stream.rs no longer imports BufExt/BufMutExt/Decode/Encode from coding')

    # StreamId
    f['sid_index_shift'] = int(one('StreamId::index')['shift'])
    for key, fact_mask, fact_zero, a, b_ in (('StreamId::initiator', 'sid_init_mask', 'sid_init_zero_is_client', 'Client', 'Server'),
                                             ('StreamId::dir', 'sid_dir_mask', 'sid_dir_zero_is_bi', 'Bi', 'Uni')):
        g = one(key)
        if {g['zero'], g['one']} != {a, b_}:
            raise AnchorLost('%s returns %s / %s' % (key, g['zero'], g['one']))
        f[fact_mask] = parse_int(g['mask'])
        f[fact_zero] = (g['zero'] == a)
    g = one('StreamId::new')
    f['sid_new_index_shift'] = int(g['ishift'])
    f['sid_new_dir_shift'] = int(g['dshift'])
    f['sid_add_cap_shift'] = int(one('Add<usize> for StreamId')['cap'])
    f['sid_try_from_strict_gt'] = (one('TryFrom<u64> for StreamId')['op'] == '>')
    f['sess_try_from_strict_gt'] = (one('TryFrom<u64> for SessionId')['op'] == '>')
    g = one('StreamId::is_request')
    f['is_request_def'] = (g['d'], g['s'])
    g = one('StreamId::is_push')
    f['is_push_def'] = (g['d'], g['s'])
    # the discriminants `new` casts: the model's side_n / dir_n hard-code them
    if enum_discriminants(srcs['st'], 'Side') != {'Client': 0, 'Server': 1}:
        raise AnchorLost('enum Side discriminants are not Client = 0, Server = 1 (Model/Varint.v side_n)')
    if enum_discriminants(srcs['st'], 'Dir') != {'Bi': 0, 'Uni': 1}:
        raise AnchorLost('enum Dir discriminants are not Bi = 0, Uni = 1 (Model/Varint.v dir_n)')
    # Display for StreamId: read the words through the same lenient parser the harness uses
    g = one('Display for StreamId')
    fmt = g['fmt'][1:-1]
    if fmt.count('{}') != 3 or '{' in fmt.replace('{}', ''):
        raise AnchorLost('Display for StreamId: format string is not three plain {} placeholders: ' + fmt)
    words = {}
    for side_w, dir_w in (('w_client', 'w_bi'), ('w_server', 'w_uni')):
        p = fmt.split('{}')
        text = p[0] + g[side_w][1:-1] + p[1] + g[dir_w][1:-1] + p[2] + '4242' + p[3]
        s, d, n = display_parse(text)
        if '?' in (s, d) or n != '4242':
            raise AnchorLost('Display for StreamId prints %r: initiator/direction words or number not recognisable '
                             '(update display_parse here and in harness/src/bin/c16.rs)' % text)
        words[side_w], words[dir_w] = s, d
    if {words['w_client'], words['w_server']} != {'client', 'server'} or {words['w_bi'], words['w_uni']} != {'bi', 'uni'}:
        raise AnchorLost('Display for StreamId: the two initiator (direction) words read the same')
    f['disp_side_words_straight'] = (words['w_client'] == 'client')
    f['disp_dir_words_straight'] = (words['w_bi'] == 'bi')
    f['disp_number_is_index'] = (g['num'] == 'self.index()')
    return f, spans


def b(x):
    return 'true' if x else 'false'


def render(f):
    L = []
    L.append('(* GENERATED by translate/gen_varint.py from h3/src/proto/varint.rs and proto/stream.rs. *)')
    L.append('From H3V Require Import Base.Bytes.')
    L.append('Definition size_rows : list (N * N) := %s.' % coq_list('(%d, %d)' % r for r in f['size_rows']))
    L.append('Definition enc_rows : list (N * (N * (N * N))) := %s.' % coq_list('(%d, (%d, (%d, %d)))' % r for r in f['enc_rows']))
    L.append('Definition dec_tag_shift : N := %d.' % f['dec_tag_shift'])
    L.append('Definition dec_mask : N := %d.' % f['dec_mask'])
    L.append('Definition dec_empty_err : N := %d.' % f['dec_empty_err'])
    L.append('Definition dec_rows : list (N * (N * (N * (N * N)))) := %s.' % coq_list('(%d, (%d, (%d, (%d, %d))))' % r for r in f['dec_rows']))
    L.append('Definition from_u64_strict : bool := %s.' % b(f['from_u64_strict']))
    L.append('Definition from_u64_pow : N := %d.' % f['from_u64_pow'])
    L.append('Definition encsize_shift : N := %d.' % f['encsize_shift'])
    L.append('Definition try_from_u64_delegates : bool := %s.' % b(f['try_from_u64_delegates']))
    L.append('Definition try_from_usize_delegates : bool := %s.' % b(f['try_from_usize_delegates']))
    L.append('Definition push_id_delegates : bool := %s.' % b(f['push_id_delegates']))
    L.append('Definition write_var_is_checked_encode : bool := %s.' % b(f['write_var_is_checked_encode']))
    L.append('Definition get_var_is_decode : bool := %s.' % b(f['get_var_is_decode']))
    L.append('Definition max_shift : N := %d.' % f['max_shift'])
    L.append('Definition sid_index_shift : N := %d.' % f['sid_index_shift'])
    L.append('Definition sid_init_mask : N := %d.' % f['sid_init_mask'])
    L.append('Definition sid_init_zero_is_client : bool := %s.' % b(f['sid_init_zero_is_client']))
    L.append('Definition sid_dir_mask : N := %d.' % f['sid_dir_mask'])
    L.append('Definition sid_dir_zero_is_bi : bool := %s.' % b(f['sid_dir_zero_is_bi']))
    L.append('Definition sid_new_index_shift : N := %d.' % f['sid_new_index_shift'])
    L.append('Definition sid_new_dir_shift : N := %d.' % f['sid_new_dir_shift'])
    L.append('Definition sid_add_cap_shift : N := %d.' % f['sid_add_cap_shift'])
    L.append('Definition sid_try_from_strict_gt : bool := %s.' % b(f['sid_try_from_strict_gt']))
    L.append('Definition is_request_bi_client : bool := %s.' % b(f['is_request_def'] == ('Bi', 'Client')))
    L.append('Definition is_push_uni_server : bool := %s.' % b(f['is_push_def'] == ('Uni', 'Server')))
    L.append('Definition sess_try_from_strict_gt : bool := %s.' % b(f['sess_try_from_strict_gt']))
    L.append('Definition disp_side_words_straight : bool := %s.' % b(f['disp_side_words_straight']))
    L.append('Definition disp_dir_words_straight : bool := %s.' % b(f['disp_dir_words_straight']))
    L.append('Definition disp_number_is_index : bool := %s.' % b(f['disp_number_is_index']))
    return '\n'.join(L) + '\n'


if __name__ == '__main__':
    import sys
    repo = sys.argv[1] if len(sys.argv) > 1 else '/repo'
    facts, _ = extract(repo)
    sys.stdout.write(render(facts))
