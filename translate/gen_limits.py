"""Source facts for C10: where h3 compares a field-section size with a limit, which limit it is, and what happens then.

send sites     client/connection.rs send_request, server/stream.rs send_response, connection.rs send_trailers:
               the comparison operator, that the limit read is the PEER's (`settings().max_field_section_size`),
               that the comparison precedes the write
receive sites  server/request.rs (accept_with_frame + ResolvedRequest::resolve), client/stream.rs (recv_response,
               poll_recv_trailers), connection.rs (poll_recv_trailers): the limit handed to decode_stateless is the
               endpoint's OWN configured one; HeaderTooLong is turned into StreamError::HeaderTooBig; the 431 answer;
               the client's stop_sending code
defaults       config.rs Default for Settings (VarInt::MAX), proto/varint.rs VarInt::MAX, shared_state.rs settings()
               falling back to the default, the SETTINGS identifier read into max_field_section_size
(the running-size comparison inside decode_stateless and the 32-octet overhead are in gen_qstateless)
"""
import re
from rustsrc import Source, AnchorLost, parse_int

NAME = 'GenLimits'

STATUS = {'REQUEST_HEADER_FIELDS_TOO_LARGE': 431}


def send_site(body, what):
    """returns (strict?, limit_is_peer?)"""
    enc = body.find('qpack::encode_stateless(')
    cmpm = re.search(r'if\s+mem_size\s*(>=|>)\s*(\w+)\s*\{\s*return\s+Err\(\s*StreamError::HeaderTooBig', body)
    wr = body.find('stream::write(', enc if enc >= 0 else 0)
    if enc < 0 or not cmpm or wr < 0:
        raise AnchorLost(what + ': encode / compare / write')
    if not (enc < cmpm.start() < wr):
        raise AnchorLost(what + ': the comparison does not sit between encode and write')
    var = cmpm.group(2)
    binds = list(re.finditer(r'let\s+(?:mut\s+)?' + var + r'\b[^=;]*=\s*([^;]+);', body))
    if len(binds) != 1 or re.search(r'\b' + var + r'\s*(?:[-+*/|&^]?=)[^=]', body[binds[0].end():cmpm.start()]):
        raise AnchorLost(what + ': the limit variable is bound or assigned more than once')
    src = binds[0]
    e = re.sub(r'\s+', '', src.group(1))
    if e in ('self.settings().max_field_section_size', 'self.inner.settings().max_field_section_size'):
        peer = True
    elif e in ('self.max_field_section_size', 'self.inner.max_field_section_size'):
        peer = False
    else:
        raise AnchorLost(what + ': limit source ' + e)
    if src.start() > cmpm.start():
        raise AnchorLost(what + ': limit read after comparison')
    # the limit in force is the one at the moment of the comparison: nothing the call can be parked on (an .await,
    # a poll_fn) may sit between reading the limit and comparing
    between = body[src.end():cmpm.start()]
    if re.search(r'\.await\b|poll_fn|poll_', between):
        raise AnchorLost(what + ': the call can wait between reading the limit and comparing it')
    if re.search(r'\.await\b', body[:enc]) and src.start() < body[:enc].rfind('.await'):
        raise AnchorLost(what + ': the limit is read before an await point')
    return cmpm.group(1) == '>', peer


def decomp_arm(body, what):
    """the `Err(_e) =>` arm next to the HeaderTooLong arm: a connection error with which code"""
    m = re.search(r'Err\(\s*_e\s*\)\s*=>\s*\{?\s*return\s+(?:Poll::Ready\(\s*)?Err\(\s*self\.handle_connection_error_on_stream\(\s*'
                  r'InternalConnectionError\s*\{\s*code:\s*Code::(\w+)\s*,', body)
    if not m:
        raise AnchorLost(what + ': decode failure is not handle_connection_error_on_stream(InternalConnectionError{code..})')
    return m.group(1)


def recv_site(body, what):
    m = re.search(r'qpack::decode_stateless\(\s*(?:&mut\s+)?\w+\s*,\s*([\w\.]+)\s*,?\s*\)', body)
    if not m:
        raise AnchorLost(what + ': decode_stateless call')
    e = m.group(1)
    if e in ('self.max_field_section_size', 'self.inner.max_field_section_size'):
        own = True
    elif e in ('self.settings().max_field_section_size', 'self.inner.settings().max_field_section_size'):
        own = False
    else:
        raise AnchorLost(what + ': limit argument ' + e)
    if not re.search(r'Err\(\s*qpack::DecoderError::HeaderTooLong\(\s*\w+\s*\)\s*\)\s*=>', body):
        raise AnchorLost(what + ': HeaderTooLong arm')
    return own


import json
import os

BODIES = os.path.join(os.path.dirname(os.path.abspath(__file__)), 'snapshots', 'GenLimits.bodies.json')


def fingerprint(body):
    t = re.sub(r'\s+', '', body)
    t = re.sub(r'mem_size>=?(\w+)\{', r'mem_size?\1{', t)
    return t


def send_tail(body, what):
    """from the encode call to the end of the function: encode, read the limit, compare, write - nothing else may touch `block`"""
    i = body.find('let mut block = BytesMut::new();')
    if i < 0:
        raise AnchorLost(what + ': block')
    return fingerprint(body[i:])


def whole_bodies(repo):
    out = {}
    cc = Source(repo + '/h3/src/client/connection.rs')
    body, _ = cc.fn_body('send_request')
    out['send_request'] = send_tail(body, 'send_request')
    ss = Source(repo + '/h3/src/server/stream.rs')
    body, _ = ss.fn_body('send_response')
    out['send_response'] = fingerprint(body)
    co = Source(repo + '/h3/src/connection.rs')
    body, _ = co.fn_body('send_trailers')
    out['send_trailers'] = fingerprint(body)
    body, _ = co.fn_body('split')
    out['split'] = fingerprint(body)
    blk, _, _ = cc.item_block(r'impl<[^>]*>\s*Clone\s+for\s+SendRequest')
    out['Clone for SendRequest'] = fingerprint(blk)
    body, _ = cc.fn_body('send_request')
    i = body.find('let request_stream = RequestStream')
    out['send_request (new stream)'] = fingerprint(body[i:])
    blk, _, _ = co.item_block(r'impl<S,\s*B>\s*RequestStream<S,\s*B>\s*\{\s*#\[allow\(missing_docs\)\]\s*pub\s+fn\s+new')
    out['RequestStream::new impl'] = fingerprint(blk)
    sc = Source(repo + '/h3/src/server/connection.rs')
    body, _ = sc.fn_body('create_resolver_internal')
    out['create_resolver_internal'] = fingerprint(body)
    sr0 = Source(repo + '/h3/src/server/request.rs')
    body, _ = sr0.fn_body('accept_with_frame')
    i = body.find('let request_stream = RequestStream')
    out['accept_with_frame (new stream)'] = fingerprint(body[i:])
    sr = Source(repo + '/h3/src/server/request.rs')
    body, _ = sr.fn_body('resolve')
    i = body.find('Header::try_from(fields)')
    out['resolve (too-big arm)'] = fingerprint(body[:i])
    body, _ = sr.fn_body('accept_with_frame')
    i = body.find('let decoded = match qpack::decode_stateless')
    out['accept_with_frame (decode)'] = fingerprint(body[i:])
    cs = Source(repo + '/h3/src/client/stream.rs')
    body, _ = cs.fn_body('recv_response')
    i, j = body.find('let decoded = if let Frame::Headers'), body.find('let qpack::Decoded { fields, .. } = decoded;')
    out['recv_response (decode)'] = fingerprint(body[i:j])
    body, _ = cs.fn_body('poll_recv_trailers')
    out['client poll_recv_trailers'] = fingerprint(body)
    body, _ = co.fn_body('poll_recv_trailers')
    i = body.find('let qpack::Decoded { fields, .. } =')
    out['poll_recv_trailers (decode)'] = fingerprint(body[i:])
    return out


def check_bodies(repo):
    got = whole_bodies(repo)
    want = json.load(open(BODIES))
    for k in sorted(set(got) | set(want)):
        if got.get(k) != want.get(k):
            a, b = want.get(k) or '', got.get(k) or ''
            i = next((j for j in range(min(len(a), len(b))) if a[j] != b[j]), min(len(a), len(b)))
            raise AnchorLost('%s: body differs from the recorded one at "...%s" (now "...%s")' % (k, a[max(0, i - 30):i + 30], b[max(0, i - 30):i + 30]))


def src_kind(expr, what):
    e = re.sub(r'\s+', '', expr)
    if e in ('self.max_field_section_size', 'self.config.settings.max_field_section_size', 'max_field_section_size',
             'self.inner.max_field_section_size'):
        return 'SrcOwn'
    if e in ('self.settings().max_field_section_size', 'self.inner.settings().max_field_section_size',
             'self.conn_state.settings().max_field_section_size'):
        return 'SrcPeer'
    if e == '0':
        return 'SrcZero'
    raise AnchorLost(what + ': where the limit comes from: ' + e)


def cell_kind(expr, what):
    """which settings cell a handle holds: the connection's (an Arc clone / move of the holder's) or a fresh one"""
    e = re.sub(r'\s+', '', expr)
    if e in ('self.conn_state.clone()', 'self.conn_state', 'self.shared.clone()', 'self.inner.shared.clone()', 'conn_state', 'self.shared'):
        return 'SharedCell'
    if 'default()' in e or '::new(' in e:
        return 'FreshCell'
    raise AnchorLost(what + ': which state cell: ' + e)


def mentions(src):
    """all lines of a file that mention the field, whitespace-normalised (comments are already stripped)"""
    return [re.sub(r'\s+', ' ', l).strip() for l in src.text.splitlines() if 'max_field_section_size' in l]


def flow(repo, f, spans):
    """how the configured limit travels from the Builder to every handle that can receive a field section"""
    from rustsrc import match_close
    # Builder -> client SendRequest+Connection / server Connection
    for role in ('client', 'server'):
        b = Source(repo + '/h3/src/%s/builder.rs' % role)
        ms = mentions(b)
        want = ['pub fn max_field_section_size(&mut self, value: u64) -> &mut Self {', 'self.config.settings.max_field_section_size = value;',
                'max_field_section_size: self.config.settings.max_field_section_size,']
        if ms != want:
            raise AnchorLost('%s/builder.rs: limit flow %r' % (role, ms))
        f['flow_builder_' + role] = 'SrcOwn'
    # client: SendRequest::send_request -> RequestStream::new(.., self.max_field_section_size, ..); Clone
    cc = Source(repo + '/h3/src/client/connection.rs')
    body, spans['flow_send_request_new_stream'] = cc.fn_body('send_request')
    m = re.search(r'connection::RequestStream::new\(\s*[^,]+(?:\([^)]*\))*[^,]*,\s*([^,]+),', body)
    if not m:
        raise AnchorLost('send_request: RequestStream::new')
    f['flow_client_stream'] = src_kind(m.group(1), 'send_request -> RequestStream::new')
    blk, spans['flow_clone'], _ = cc.item_block(r'impl<[^>]*>\s*Clone\s+for\s+SendRequest')
    m = re.search(r'max_field_section_size\s*:\s*([^,]+),', blk)
    if not m:
        raise AnchorLost('Clone for SendRequest')
    f['flow_clone'] = src_kind(m.group(1), 'Clone for SendRequest')
    m = re.search(r'conn_state\s*:\s*([^,]+),', blk)
    if not m:
        raise AnchorLost('Clone for SendRequest: conn_state')
    f['state_clone'] = cell_kind(m.group(1), 'Clone for SendRequest')
    m = re.search(r'connection::RequestStream::new\(\s*[^,]+(?:\([^)]*\))*[^,]*,\s*[^,]+,\s*([^,]+),', body)
    if not m:
        raise AnchorLost('send_request: RequestStream::new state argument')
    f['state_client_stream'] = cell_kind(m.group(1), 'send_request -> RequestStream::new')
    if len(mentions(cc)) != 6:
        raise AnchorLost('client/connection.rs: limit mentions %r' % mentions(cc))
    # server: Connection -> RequestResolver -> RequestStream::new / ResolvedRequest::new
    sc = Source(repo + '/h3/src/server/connection.rs')
    ms = mentions(sc)
    if ms != ['pub(super) max_field_section_size: u64,', 'max_field_section_size: self.max_field_section_size,']:
        raise AnchorLost('server/connection.rs: limit flow %r' % ms)
    f['flow_server_resolver'] = 'SrcOwn'
    body, spans['flow_create_resolver'] = sc.fn_body('create_resolver_internal')
    m = re.search(r'shared\s*:\s*([^,]+),', body)
    if not m:
        raise AnchorLost('create_resolver_internal: shared')
    f['state_resolver'] = cell_kind(m.group(1), 'create_resolver_internal')
    sr = Source(repo + '/h3/src/server/request.rs')
    body, spans['flow_accept_with_frame'] = sr.fn_body('accept_with_frame')
    m = re.search(r'connection::RequestStream::new\(\s*self\.frame_stream\s*,\s*([^,]+),', body)
    if not m:
        raise AnchorLost('accept_with_frame: RequestStream::new')
    f['flow_server_stream'] = src_kind(m.group(1), 'accept_with_frame -> RequestStream::new')
    m = re.search(r'connection::RequestStream::new\(\s*self\.frame_stream\s*,\s*[^,]+,\s*([^,]+),', body)
    if not m:
        raise AnchorLost('accept_with_frame: RequestStream::new state argument')
    f['state_server_stream'] = cell_kind(m.group(1), 'accept_with_frame -> RequestStream::new')
    if len(mentions(sr)) != 8:
        raise AnchorLost('server/request.rs: limit mentions %r' % mentions(sr))
    # connection.rs: RequestStream::new stores its argument; split() gives the receive half the limit
    co = Source(repo + '/h3/src/connection.rs')
    body, spans['flow_split'] = co.fn_body('split')
    halves = re.findall(r'RequestStream\s*\{\s*stream:\s*(\w+)\s*,(.*?)\}', body, re.S)
    got = {}
    for which, rest in halves:
        m = re.search(r'max_field_section_size\s*:\s*([^,]+),', rest)
        if not m:
            raise AnchorLost('split: half without the limit')
        got[which] = src_kind(m.group(1), 'split() ' + which + ' half')
    if set(got) != {'send', 'recv'}:
        raise AnchorLost('split: halves %r' % sorted(got))
    f['flow_split_recv'], f['flow_split_send'] = got['recv'], got['send']
    cells = {}
    for which, rest in halves:
        m = re.search(r'conn_state\s*:\s*([^,]+),', rest)
        if not m:
            raise AnchorLost('split: half without the state cell')
        cells[which] = cell_kind(m.group(1), 'split() ' + which + ' half')
    f['state_split_send'], f['state_split_recv'] = cells['send'], cells['recv']
    ms = [l for l in mentions(co)]
    if len(ms) != 8 or 'max_field_section_size,' not in ms:
        raise AnchorLost('connection.rs: limit mentions %r' % ms)
    # the stream wrappers only forward
    for path, n in (('client/stream.rs', 2), ('server/stream.rs', 1)):
        w = Source(repo + '/h3/src/' + path)
        if len(mentions(w)) != n:
            raise AnchorLost(path + ': limit mentions %r' % mentions(w))
        body, _ = w.fn_body('split')
        if not re.search(r'let\s*\(\s*send\s*,\s*recv\s*\)\s*=\s*self\.inner\.split\(\)\s*;', body):
            raise AnchorLost(path + ': split wrapper')


def extract(repo):
    f, spans = {}, {}
    flow(repo, f, spans)
    cc = Source(repo + '/h3/src/client/connection.rs')
    body, spans['send_request'] = cc.fn_body('send_request')
    f['send_request'] = send_site(body, 'send_request')
    ss = Source(repo + '/h3/src/server/stream.rs')
    body, spans['send_response'] = ss.fn_body('send_response')
    f['send_response'] = send_site(body, 'send_response')
    co = Source(repo + '/h3/src/connection.rs')
    body, spans['send_trailers'] = co.fn_body('send_trailers')
    f['send_trailers'] = send_site(body, 'send_trailers')

    # ---- receive: server request
    sr = Source(repo + '/h3/src/server/request.rs')
    body, spans['accept_with_frame'] = sr.fn_body('accept_with_frame')
    f['recv_request_own'] = recv_site(body, 'accept_with_frame')
    if not re.search(r'HeaderTooLong\(\s*cancel_size\s*\)\s*\)\s*=>\s*Err\(\s*cancel_size\s*\)', body):
        raise AnchorLost('accept_with_frame: too long is deferred to resolve()')
    f['recv_request_decomp_code'] = decomp_arm(body, 'accept_with_frame')
    body, spans['resolve'] = sr.fn_body('resolve')
    m = re.search(r'Err\(\s*cancel_size\s*\)\s*=>\s*\{(.*?)return\s+Err\(\s*StreamError::HeaderTooBig', body, re.S)
    if not m:
        raise AnchorLost('resolve: too-big arm')
    arm = m.group(1)
    st = re.search(r'\.send_response\(\s*http::Response::builder\(\)\s*\.status\(\s*StatusCode::(\w+)\s*\)', arm)
    if not st or st.group(1) not in STATUS:
        raise AnchorLost('resolve: status of the refusal')
    f['refusal_status'] = STATUS[st.group(1)]
    # `.await?` propagates the error of send_response (HeaderTooBig when the 431 itself does not fit)
    f['refusal_send_error_propagates'] = bool(re.search(r'\.await\?\s*;', arm))
    if re.search(r'stop_sending|stop_stream|reset', arm):
        raise AnchorLost('resolve: unexpected stream abort in the too-big arm')

    # ---- receive: client response and trailers
    cs = Source(repo + '/h3/src/client/stream.rs')
    body, spans['recv_response'] = cs.fn_body('recv_response')
    f['recv_response_own'] = recv_site(body, 'recv_response')
    f['recv_response_decomp_code'] = decomp_arm(body, 'recv_response')
    m = re.search(r'HeaderTooLong\(\s*cancel_size\s*\)\s*\)\s*=>\s*\{\s*self\.inner\.stop_sending\(\s*Code::(\w+)\s*\)\s*;\s*return\s+Err\(\s*StreamError::HeaderTooBig', body)
    if not m:
        raise AnchorLost('recv_response: stop_sending + HeaderTooBig')
    f['client_response_stop_code'] = m.group(1)
    body, spans['client_poll_recv_trailers'] = cs.fn_body('poll_recv_trailers')
    m = re.search(r'if\s+let\s+Poll::Ready\(\s*Err\(\s*StreamError::HeaderTooBig\s*\{\s*\.\.\s*\}\s*\)\s*\)\s*=\s*&res\s*\{\s*'
                  r'self\.inner\.stream\.stop_sending\(\s*Code::(\w+)\s*\)', body)
    if not m:
        raise AnchorLost('client poll_recv_trailers: stop_sending')
    f['client_trailers_stop_code'] = m.group(1)

    # ---- receive: trailers (both roles)
    body, spans['poll_recv_trailers'] = co.fn_body('poll_recv_trailers')
    f['recv_trailers_own'] = recv_site(body, 'poll_recv_trailers')
    f['recv_trailers_decomp_code'] = decomp_arm(body, 'poll_recv_trailers')
    if not re.search(r'HeaderTooLong\(\s*cancel_size\s*\)\s*\)\s*=>\s*\{\s*return\s+Poll::Ready\(\s*Err\(\s*StreamError::HeaderTooBig', body):
        raise AnchorLost('poll_recv_trailers: HeaderTooBig')

    # ---- defaults
    cfg = Source(repo + '/h3/src/config.rs')
    blk, spans['settings_default'], _ = cfg.item_block(r'impl\s+Default\s+for\s+Settings\b')
    m = re.search(r'max_field_section_size\s*:\s*([^,]+),', blk)
    if not m or re.sub(r'\s+', '', m.group(1)) != 'VarInt::MAX.0':
        raise AnchorLost('Default for Settings: max_field_section_size')
    vi = Source(repo + '/h3/src/proto/varint.rs')
    m = re.search(r'pub\s+const\s+MAX\s*:\s*(?:VarInt|Self)\s*=\s*(?:VarInt|Self)\(\s*\(\s*1\s*<<\s*(\d+)\s*\)\s*-\s*1\s*\)', vi.text)
    if not m:
        raise AnchorLost('VarInt::MAX')
    f['default_limit'] = (1 << int(m.group(1))) - 1
    blk, spans['settings_from_frame'], _ = cfg.item_block(r'impl\s+From<&frame::Settings>\s+for\s+Settings\b')
    m = re.search(r'max_field_section_size\s*:\s*settings\s*\.get\(\s*frame::SettingId::(\w+)\s*\)\s*\.unwrap_or\(\s*defaults\.max_field_section_size\s*\)', blk)
    if not m:
        raise AnchorLost('From<&frame::Settings>: max_field_section_size')
    fr = Source(repo + '/h3/src/proto/frame.rs')
    m2 = re.search(r'\b' + m.group(1) + r'\s*=\s*(0x[0-9a-fA-F]+|\d+)\s*,', fr.text)
    if not m2:
        raise AnchorLost('setting id ' + m.group(1))
    f['setting_id'] = parse_int(m2.group(1))
    sh = Source(repo + '/h3/src/shared_state.rs')
    body, spans['settings_accessor'] = sh.fn_body('settings')
    if not re.search(r'\.settings\s*\.get\(\)\s*\.map\(Cow::Borrowed\)\s*\.unwrap_or_default\(\)', re.sub(r'\s+', '', body).replace('.settings.get()', '.settings .get()')) \
            and not re.search(r'settings\.get\(\)\.map\(Cow::Borrowed\)\.unwrap_or_default\(\)', re.sub(r'\s+', '', body)):
        raise AnchorLost('ConnectionState::settings')
    check_bodies(repo)
    return f, spans


def b(x):
    return 'true' if x else 'false'


def render(f):
    L = ['(* GENERATED by translate/gen_limits.py from h3/src/{client/connection,client/stream,server/stream,server/request,connection,config,shared_state}.rs *)',
         'From H3V Require Import Base.Bytes Gen.GenCodes.',
         '(* send sites: `if mem_size > limit` (true for >, false for >=); the limit is the peer\'s advertised one (settings()) *)']
    for k in ('send_request', 'send_response', 'send_trailers'):
        L.append('Definition lim_%s_strict : bool := %s.' % (k, b(f[k][0])))
        L.append('Definition lim_%s_uses_peer : bool := %s.' % (k, b(f[k][1])))
    L.append('(* receive sites: the limit handed to decode_stateless is the endpoint\'s own configured one *)')
    for k in ('recv_request_own', 'recv_response_own', 'recv_trailers_own'):
        L.append('Definition lim_%s : bool := %s.' % (k, b(f[k])))
    L += ['(* where each handle gets its receive limit from: the configured value travels Builder -> Connection / SendRequest',
          '   (-> clone) -> RequestStream (-> split halves) *)',
          'Inductive lim_src := SrcOwn | SrcPeer | SrcZero.']
    for k in ('flow_builder_client', 'flow_builder_server', 'flow_clone', 'flow_client_stream', 'flow_server_resolver',
              'flow_server_stream', 'flow_split_recv', 'flow_split_send'):
        L.append('Definition lim_%s : lim_src := %s.' % (k, f[k]))
    L += ['(* which settings cell each handle holds: the connection\'s one (an Arc clone) or a fresh one *)',
          'Inductive lim_cell := SharedCell | FreshCell.']
    for k in ('state_clone', 'state_client_stream', 'state_resolver', 'state_server_stream', 'state_split_send', 'state_split_recv'):
        L.append('Definition lim_%s : lim_cell := %s.' % (k, f[k]))
    L.append('(* any other DecoderError at a receive site: handle_connection_error_on_stream with this code *)')
    for k in ('recv_request_decomp_code', 'recv_response_decomp_code', 'recv_trailers_decomp_code'):
        L.append('Definition lim_%s : N := %s.' % (k, f[k]))
    L += ['(* a server refuses an oversized request with this status; an error of that send_response is returned *)',
          'Definition lim_refusal_status : N := %d.' % f['refusal_status'],
          'Definition lim_refusal_send_error_propagates : bool := %s.' % b(f['refusal_send_error_propagates']),
          'Definition lim_client_response_stop_code : N := %s.' % f['client_response_stop_code'],
          'Definition lim_client_trailers_stop_code : N := %s.' % f['client_trailers_stop_code'],
          '(* Settings::default().max_field_section_size = VarInt::MAX, used until the peer\'s SETTINGS are stored *)',
          'Definition lim_default : N := %d.' % f['default_limit'],
          'Definition lim_setting_id : N := %d.' % f['setting_id']]
    return '\n'.join(L) + '\n'


if __name__ == '__main__':
    import sys
    if len(sys.argv) > 2 and sys.argv[2] == '--record':
        json.dump(whole_bodies(sys.argv[1]), open(BODIES, 'w'), indent=0, sort_keys=True)
        sys.exit(0)
    facts, spans = extract(sys.argv[1] if len(sys.argv) > 1 else '/repo')
    sys.stdout.write(render(facts))
