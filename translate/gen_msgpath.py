"""Source facts for C01: whole-body anchors for the functions on the message path that no other translator of C01's
closure reads as a whole (an inserted statement, guard or early return in any of them is an edit of a body the
composed model was written against), plus the default field-section limit of config.rs.

Each body is taken comment-free and whitespace-free and compared by hash with the one recorded when the model was
written (REF below, produced by `python3 gen_msgpath.py --bootstrap /repo`); the only fact site (the default limit) is
masked before hashing.  Any difference is AnchorLost: the tie between the theorems and the source is broken."""
import hashlib
import re
import sys
from rustsrc import Source, AnchorLost, match_close

NAME = 'GenMsgPath'


def squeeze(s):
    return re.sub(r'\s+', '', s)


def block_after(src, pattern, what):
    m = re.search(pattern, src.text)
    if not m:
        raise AnchorLost(what + ' not found')
    i = src.text.find('{', m.end() - 1)
    j = match_close(src.text, i)
    return src.text[i + 1:j], (src.line_of(i), src.line_of(j)), i


def fn_in(src, pattern, name, what, nth=0):
    m = re.search(pattern, src.text)
    if not m:
        raise AnchorLost(what + ' not found')
    return src.fn_body(name, after=m.start(), nth=nth)


def collect(repo):
    out, spans = {}, {}

    def put(k, pair):
        out[k], spans[k] = pair[0], pair[1]
    pf = Source(repo + '/h3/src/proto/frame.rs')
    # proto/frame.rs: `fn encode` in source order: Frame, FrameType, PushPromise/Settings ...; `fn encode_header` x2
    put('frame_encode', pf.fn_body('encode', nth=0))
    put('frametype_encode', pf.fn_body('encode', nth=1))
    put('frame_payload', pf.fn_body('payload'))
    put('frame_payload_mut', pf.fn_body('payload_mut'))
    put('frame_encode_header_1', pf.fn_body('encode_header', nth=0))
    put('frame_encode_header_2', pf.fn_body('encode_header', nth=1))
    put('simple_frame_encode', pf.fn_body('simple_frame_encode'))
    co = Source(repo + '/h3/src/proto/coding.rs')
    out['coding_rs'], spans['coding_rs'] = co.text.split('#[cfg(test)]')[0], (1, co.line_of(len(co.text) - 1))
    fr = Source(repo + '/h3/src/frame.rs')
    put('framestream_sendstream', block_after(fr, r'impl<T,\s*B>\s*SendStream<B>\s+for\s+FrameStream<T,\s*B>', 'SendStream for FrameStream')[:2])
    st = Source(repo + '/h3/src/stream.rs')
    put('bufrecv_sendstream', block_after(st, r'impl<S,\s*B>\s*SendStream<B>\s+for\s+BufRecvStream<S,\s*B>', 'SendStream for BufRecvStream')[:2])
    put('stream_write', st.fn_body('write'))
    he = Source(repo + '/h3/src/qpack/prefix_string/encode.rs')
    out['huffman_encoder_rs'], spans['huffman_encoder_rs'] = he.text.split('#[cfg(test)]')[0], (1, he.line_of(len(he.text) - 1))
    cf = Source(repo + '/h3/src/config.rs')
    dflt = block_after(cf, r'impl\s+Default\s+for\s+Settings', 'impl Default for Settings')
    out['settings_default'], spans['settings_default'] = dflt[0], dflt[1]
    put('settings_from_frame', block_after(cf, r'impl\s+From<&frame::Settings>\s+for\s+Settings', 'From<&frame::Settings>')[:2])
    ss = Source(repo + '/h3/src/shared_state.rs')
    put('shared_settings', ss.fn_body('settings'))
    put('shared_set_settings', ss.fn_body('set_settings'))
    cc = Source(repo + '/h3/src/client/connection.rs')
    put('client_send_request', cc.fn_body('send_request'))
    put('client_clone', fn_in(cc, r'impl<T,\s*B>\s*Clone\s+for\s+SendRequest<T,\s*B>', 'clone', 'Clone for SendRequest'))
    put('client_drop', fn_in(cc, r'impl<T,\s*B>\s*Drop\s+for\s+SendRequest<T,\s*B>', 'drop', 'Drop for SendRequest'))
    put('client_wait_idle', cc.fn_body('wait_idle'))
    put('client_poll_close', cc.fn_body('poll_close'))
    cb = Source(repo + '/h3/src/client/builder.rs')
    put('client_new', cb.fn_body('new', after=cb.text.find('pub async fn new')))
    put('client_build', cb.fn_body('build'))
    sc = Source(repo + '/h3/src/server/connection.rs')
    put('server_new', sc.fn_body('new', after=sc.text.find('pub async fn new')))
    put('server_accept', sc.fn_body('accept'))
    sb = Source(repo + '/h3/src/server/builder.rs')
    put('server_build', sb.fn_body('build'))
    return out, spans


DEFAULT_RE = re.compile(r'max_field_section_size:([^,]+),')


def digest(k, body):
    sq = squeeze(body)
    if k == 'settings_default':
        sq = DEFAULT_RE.sub('max_field_section_size:@,', sq, count=1)
    return hashlib.sha256(sq.encode()).hexdigest()[:24]


REF = {
    'frame_encode': '2e70ddd8687f351b3adc4164',
    'frametype_encode': '6c4ee7c16c45f4a59591ec58',
    'frame_payload': '70afd6fbb1d164b66e0b7816',
    'frame_payload_mut': '64b458698c0ad9a22550bddf',
    'frame_encode_header_1': '8d913f70e674c0cac3573b58',
    'frame_encode_header_2': 'da248f58254c383742400c95',
    'simple_frame_encode': '251ead1d955c2457b8b4c07d',
    'coding_rs': 'e3b30528cac795fea2c58d13',
    'framestream_sendstream': 'cb3fa13ea96c445e7b099c87',
    'bufrecv_sendstream': 'c0fb46cfc241f4131aee62e8',
    'stream_write': '14aa06b35d2b6c4aaad4f237',
    'huffman_encoder_rs': '32e42bcc3b609b2a5af5c57a',
    'settings_default': 'a1e6c87efa1650184dff1a53',
    'settings_from_frame': '16b5187c9a689691ae79df4c',
    'shared_settings': 'cbf44c0178db418d89526532',
    'shared_set_settings': '2dd6883e0bd1445d97f6c2fa',
    'client_send_request': '53e30074ee34656c1fe78f21',
    'client_clone': '20deabb34424655296233c1e',
    'client_drop': 'b4b948eaa248efcae64edfcb',
    'client_wait_idle': '7a0dec412b7f1289130102b1',
    'client_poll_close': '2a129be242745e384526cac5',
    'client_new': '4662884e899dc8b0112abced',
    'client_build': '12b328cfce49eeb92bdfc85d',
    'server_new': '886bca48649e472b51cde697',
    'server_accept': 'fa5cbcc0d642d3490f3dfe79',
    'server_build': 'fab325ba172a799da0c5d63a',
}  # recorded from the tree the composed model was written against
# REF-END


def extract(repo):
    bodies, spans = collect(repo)
    for k, body in bodies.items():
        if k not in REF:
            raise AnchorLost('no recorded body for ' + k)
        if digest(k, body) != REF[k]:
            raise AnchorLost('%s is not the body the composed model was written against' % k)
    m = DEFAULT_RE.search(squeeze(bodies['settings_default']))
    if not m:
        raise AnchorLost('Settings::default max_field_section_size')
    v = m.group(1)
    if v == 'VarInt::MAX.0':
        limit = 2 ** 62 - 1
    else:
        raise AnchorLost('Settings::default max_field_section_size = ' + v)
    return {'default_limit': limit}, spans


def render(f):
    return '\n'.join([
        '(* GENERATED by translate/gen_msgpath.py: config.rs `impl Default for Settings`; the message-path bodies listed in',
        '   that translator are anchored by whole-body comparison *)',
        'From H3V Require Import Base.Bytes.',
        '(* the field-section limit an endpoint announces and enforces, and assumes of its peer, when nothing is configured *)',
        'Definition default_max_field_section_size : N := %d.' % f['default_limit'],
    ]) + '\n'


if __name__ == '__main__' and len(sys.argv) == 3 and sys.argv[1] == '--bootstrap':
    b, _ = collect(sys.argv[2])
    print('REF = {')
    for k in b:
        print("    %r: %r," % (k, digest(k, b[k])))
    print('}')
