"""Small Rust source reader used by the source-fact extractors.

Not a parser: it strips comments (string/char-literal aware), finds items by name and returns
brace-matched bodies.  Every extractor reports the span it read; when an anchor is not found an
AnchorLost exception is raised and the caller records `anchor_lost` (the fact then falls back to
the committed snapshot and the correspondence check remains the only tie for it).
"""
import re


class AnchorLost(Exception):
    pass


def strip_comments(src):
    """Replace // and /* */ comments by spaces (keeping newlines), leaving strings intact."""
    out = []
    i, n = 0, len(src)
    while i < n:
        c = src[i]
        if c == '/' and i + 1 < n and src[i + 1] == '/':
            j = src.find('\n', i)
            if j < 0:
                j = n
            out.append(' ' * (j - i))
            i = j
        elif c == '/' and i + 1 < n and src[i + 1] == '*':
            depth, j = 1, i + 2
            while j < n and depth:
                if src.startswith('/*', j):
                    depth += 1
                    j += 2
                elif src.startswith('*/', j):
                    depth -= 1
                    j += 2
                else:
                    j += 1
            out.append(''.join(ch if ch == '\n' else ' ' for ch in src[i:j]))
            i = j
        elif c == '"':
            j = i + 1
            while j < n and src[j] != '"':
                j += 2 if src[j] == '\\' else 1
            out.append(src[i:j + 1])
            i = j + 1
        elif c == 'b' and i + 1 < n and src[i + 1] == '"' and (i == 0 or not (src[i - 1].isalnum() or src[i - 1] == '_')):
            j = i + 2
            while j < n and src[j] != '"':
                j += 2 if src[j] == '\\' else 1
            out.append(src[i:j + 1])
            i = j + 1
        elif c == "'":
            # char literal or lifetime
            m = re.match(r"'(\\.[^']*|[^'\\])'", src[i:])
            if m:
                out.append(m.group(0))
                i += len(m.group(0))
            else:
                out.append(c)
                i += 1
        else:
            out.append(c)
            i += 1
    return ''.join(out)


def match_close(src, start, open_ch='{', close_ch='}'):
    """src[start] must be open_ch; returns index of the matching close (string aware)."""
    assert src[start] == open_ch, (src[start:start + 20], open_ch)
    depth, i, n = 0, start, len(src)
    while i < n:
        c = src[i]
        if c == '"':
            i += 1
            while i < n and src[i] != '"':
                i += 2 if src[i] == '\\' else 1
        elif c == "'":
            m = re.match(r"'(\\.[^']*|[^'\\])'", src[i:])
            if m:
                i += len(m.group(0)) - 1
        elif c == open_ch:
            depth += 1
        elif c == close_ch:
            depth -= 1
            if depth == 0:
                return i
        i += 1
    raise AnchorLost('unbalanced ' + open_ch)


class Source:
    def __init__(self, path):
        self.path = path
        self.raw = open(path, encoding='utf-8').read()
        self.text = strip_comments(self.raw)

    def line_of(self, idx):
        return self.text.count('\n', 0, idx) + 1

    def fn_body(self, name, after=0, nth=0):
        """Body (without outer braces) of the nth `fn name` at or after offset."""
        pat = re.compile(r'\bfn\s+' + re.escape(name) + r'\b')
        pos = after
        m = None
        for _ in range(nth + 1):
            m = pat.search(self.text, pos)
            if not m:
                raise AnchorLost('fn %s not found in %s' % (name, self.path))
            pos = m.end()
        # skip the signature: find first '{' at paren/angle depth 0 after the name
        i = m.end()
        depth = 0
        while i < len(self.text):
            c = self.text[i]
            if c in '([':
                depth += 1
            elif c in ')]':
                depth -= 1
            elif c == '{' and depth == 0:
                break
            elif c == ';' and depth == 0:
                raise AnchorLost('fn %s has no body' % name)
            i += 1
        j = match_close(self.text, i)
        return self.text[i + 1:j], (self.line_of(i), self.line_of(j))

    def item_block(self, regex, after=0):
        """Brace block following the first match of regex."""
        m = re.compile(regex).search(self.text, after)
        if not m:
            raise AnchorLost('%s not found in %s' % (regex, self.path))
        i = self.text.find('{', m.end() - 1)
        if i < 0:
            raise AnchorLost('no block after %s' % regex)
        j = match_close(self.text, i)
        return self.text[i + 1:j], (self.line_of(i), self.line_of(j)), m

    def impl_block(self, regex, after=0):
        return self.item_block(regex, after)


def parse_int(tok):
    tok = tok.strip().replace('_', '')
    tok = re.sub(r'(u8|u16|u32|u64|usize|i32|i64|isize)$', '', tok)
    if tok.startswith('0x'):
        return int(tok, 16)
    if tok.startswith('0b'):
        return int(tok, 2)
    return int(tok)


def coq_N(n):
    return '%d' % n


def coq_list(items):
    return '[' + '; '.join(items) + ']'


def coq_bytes(bs):
    return coq_list(['%d' % b for b in bs])
