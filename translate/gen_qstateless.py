"""Source facts for C11/C10: the stateless QPACK path.

h3/src/qpack/block.rs   - first-byte dispatch of HeaderBlockField::decode (ordered mask/value arms), prefix sizes and flag
                          patterns of HeaderPrefix, Indexed, LiteralWithNameRef, Literal codecs
h3/src/qpack/decoder.rs - decode_stateless: Required-Insert-Count / base checks present, which dispatch kinds are refused,
                          the running-size comparison
h3/src/qpack/encoder.rs - encode_stateless: prefix arguments, lookup order
h3/src/qpack/field.rs   - ESTIMATED_OVERHEAD_BYTES and mem_size
"""
import re
from rustsrc import Source, AnchorLost, parse_int

NAME = 'GenQStateless'

KINDS = ['Indexed', 'IndexedWithPostBase', 'LiteralWithNameRef', 'LiteralWithPostBaseNameRef', 'Literal', 'Unknown']
INT = r'(0b[01_]+|0x[0-9a-fA-F_]+|\d[\d_]*)'


import json
import os

BODIES = os.path.join(os.path.dirname(os.path.abspath(__file__)), 'snapshots', 'GenQStateless.bodies.json')


def fingerprint(body):
    """comment-free, whitespace-free text of a body with only the FACT SITES masked: integer literals (prefix sizes, masks,
    flag patterns, the overhead) and the operator of the size comparison.  Everything else - statements, their order,
    conditions, calls, early exits - must be exactly the recorded text."""
    t = re.sub(r'\s+', '', body)
    t = re.sub(r'mem_size>=?max_size', 'mem_size?max_size', t)
    t = re.sub(r'(?<![A-Za-z_0-9])(0b[01_]+|0x[0-9a-fA-F_]+|\d[\d_]*)(?:u8|u16|u32|u64|usize)?(?![A-Za-z_0-9])', '#', t)
    return t


def whole_bodies(repo):
    """name -> fingerprint of every function of the stateless path"""
    out = {}
    blk = Source(repo + '/h3/src/qpack/block.rs')
    for ty, fns in (('HeaderBlockField', ['decode']), ('HeaderPrefix', ['new', 'encoded_insert_count', 'base_without_refs', 'decode', 'encode']),
                    ('Indexed', ['decode', 'encode']), ('LiteralWithNameRef', ['new_static', 'new_dynamic', 'decode', 'encode']),
                    ('Literal', ['new', 'decode', 'encode'])):
        for fn in fns:
            body, _ = impl_fn(blk, ty, fn)
            out['block.rs %s::%s' % (ty, fn)] = fingerprint(body)
    fld = Source(repo + '/h3/src/qpack/field.rs')
    for fn in ('new', 'mem_size', 'with_value', 'into_inner'):
        body, _ = impl_fn(fld, 'HeaderField', fn)
        out['field.rs HeaderField::' + fn] = fingerprint(body)
    b2, _, _ = fld.item_block(r'impl<N,\s*V>\s*From<\(N,\s*V\)>\s*for\s+HeaderField')
    out['field.rs From<(N,V)>'] = fingerprint(b2)
    m = re.search(r'pub\s+const\s+ESTIMATED_OVERHEAD_BYTES[^;]*;', fld.text)
    out['field.rs consts'] = fingerprint(' '.join(re.findall(r'(?:pub\s+)?const\s+\w+[^;]*;', fld.text)))
    pi = Source(repo + '/h3/src/qpack/prefix_int.rs')
    for fn in ('decode', 'encode'):
        body, _ = pi.fn_body(fn)
        out['prefix_int.rs ' + fn] = fingerprint(body)
    out['prefix_int.rs consts'] = fingerprint(' '.join(re.findall(r'(?:pub\s+)?const\s+\w+[^;]*;', pi.text)))
    enc = Source(repo + '/h3/src/qpack/encoder.rs')
    body, _ = enc.fn_body('encode_stateless')
    out['encoder.rs encode_stateless'] = fingerprint(body)
    dec = Source(repo + '/h3/src/qpack/decoder.rs')
    body, _ = dec.fn_body('decode_stateless')
    out['decoder.rs decode_stateless'] = fingerprint(body)
    for k in ('prefix_int::Error', 'prefix_string::Error', 'StaticError', 'ParseError'):
        b3, _, _ = dec.item_block(r'impl\s+From<' + k + r'>\s+for\s+DecoderError')
        out['decoder.rs From<%s>' % k] = fingerprint(b3)
    pe = Source(repo + '/h3/src/qpack/parse_error.rs')
    out['parse_error.rs'] = fingerprint(pe.text)
    return out


def check_bodies(repo):
    got = whole_bodies(repo)
    want = json.load(open(BODIES))
    for k in sorted(set(got) | set(want)):
        if got.get(k) != want.get(k):
            a, b = want.get(k) or '', got.get(k) or ''
            i = next((j for j in range(min(len(a), len(b))) if a[j] != b[j]), min(len(a), len(b)))
            raise AnchorLost('%s: body differs from the recorded one at "...%s" (now "...%s")' % (k, a[max(0, i - 30):i + 30], b[max(0, i - 30):i + 30]))


def top_statements(body):
    """split a block body into its top-level statements (brace/paren depth 0; `;` or a closing `}` of a block statement)"""
    out, cur, depth, i, n = [], [], 0, 0, len(body)
    while i < n:
        c = body[i]
        if c == '"':
            j = i + 1
            while j < n and body[j] != '"':
                j += 2 if body[j] == '\\' else 1
            cur.append(body[i:j + 1])
            i = j + 1
            continue
        cur.append(c)
        if c in '({[':
            depth += 1
        elif c in ')}]':
            depth -= 1
            if c == '}' and depth == 0:
                # a block statement ends here unless an `else`, `;`, `.` or `?` follows
                rest = body[i + 1:].lstrip()
                if not (rest.startswith('else') or rest.startswith(';') or rest.startswith('.') or rest.startswith('?')):
                    out.append(''.join(cur).strip())
                    cur = []
        elif c == ';' and depth == 0:
            out.append(''.join(cur).strip())
            cur = []
        i += 1
    if ''.join(cur).strip():
        out.append(''.join(cur).strip())
    return [re.sub(r'\s+', ' ', x) for x in out if x]


def strict_match_shape(src, fn, scrutinee_re, arm_re, what):
    """the body of `fn` must be ONE match on the given scrutinee whose arms are all of the given literal shape
    plus a final `_ => None`: no guards, no bindings, no other statements"""
    body, span = src.fn_body(fn)
    m = re.match(r'\s*match\s+' + scrutinee_re + r'\s*\{', body)
    if not m:
        raise AnchorLost(what + ': scrutinee')
    i = m.end() - 1
    from rustsrc import match_close
    j = match_close(body, i)
    if body[j + 1:].strip():
        raise AnchorLost(what + ': statements after the match')
    arms = body[i + 1:j]
    rest = re.sub(arm_re, '', arms)
    rest = re.sub(r'_\s*=>\s*None\s*,?', '', rest, count=1)
    if rest.strip():
        raise AnchorLost(what + ': an arm that is not a literal pattern: ' + ' '.join(rest.split())[:80])
    return span


def impl_fn(src, ty, fn):
    blk, span, m = src.item_block(r'\bimpl\s+' + ty + r'\s*\{')
    # find fn inside the impl block
    start = src.text.find(blk)
    body, sp = src.fn_body(fn, after=start)
    if src.line_of(src.text.find(body, start)) > span[1]:
        raise AnchorLost('%s::%s' % (ty, fn))
    return body, sp


def extract(repo):
    f, spans = {}, {}
    blk = Source(repo + '/h3/src/qpack/block.rs')

    # ---- HeaderBlockField::decode: if / else-if chain over `first`
    body, spans['dispatch'] = impl_fn(blk, 'HeaderBlockField', 'decode')
    arms = re.findall(r'if\s+first\s*&\s*' + INT + r'\s*(==|!=)\s*' + INT + r'\s*\{\s*HeaderBlockField::(\w+)', body)
    m = re.search(r'else\s*\{\s*HeaderBlockField::(\w+)\s*\}\s*$', body.strip())
    if len(arms) < 3 or not m:
        raise AnchorLost('HeaderBlockField::decode chain')
    f['dispatch'] = [(parse_int(a), parse_int(c), op == '!=', k) for a, op, c, k in arms]
    f['dispatch_default'] = m.group(1)
    for _, _, _, k in f['dispatch']:
        if k not in KINDS:
            raise AnchorLost('dispatch kind ' + k)
    if body.count('if ') != len(arms):
        raise AnchorLost('dispatch arm shape')

    # ---- HeaderPrefix
    body, spans['prefix_decode'] = impl_fn(blk, 'HeaderPrefix', 'decode')
    m = re.search(r'let\s*\(\s*_\s*,\s*encoded_insert_count\s*\)\s*=\s*prefix_int::decode\(\s*(\d+)\s*,\s*buf\s*\)\?;\s*'
                  r'let\s*\(\s*sign_negative\s*,\s*delta_base\s*\)\s*=\s*prefix_int::decode\(\s*(\d+)\s*,\s*buf\s*\)\?;', body)
    m2 = re.search(r'sign_negative\s*:\s*sign_negative\s*==\s*(\d+)', body)
    if not m or not m2:
        raise AnchorLost('HeaderPrefix::decode')
    f['hp_ric_bits'], f['hp_base_bits'], f['hp_sign_value'] = int(m.group(1)), int(m.group(2)), int(m2.group(1))
    body, spans['prefix_encode'] = impl_fn(blk, 'HeaderPrefix', 'encode')
    m = re.search(r'prefix_int::encode\(\s*(\d+)\s*,\s*0\s*,\s*self\.encoded_insert_count\s+as\s+u64\s*,\s*buf\s*\)\s*;\s*'
                  r'prefix_int::encode\(\s*(\d+)\s*,\s*sign_bit\s*,\s*self\.delta_base\s+as\s+u64\s*,\s*buf\s*\)', body)
    if not m:
        raise AnchorLost('HeaderPrefix::encode')
    f['hp_enc_ric_bits'], f['hp_enc_base_bits'] = int(m.group(1)), int(m.group(2))
    body, spans['prefix_new'] = impl_fn(blk, 'HeaderPrefix', 'new')
    m = re.search(r'if\s+max_table_size\s*==\s*0\s*\{\s*return\s+Self\s*\{([^}]*)\}', body)
    if not m:
        raise AnchorLost('HeaderPrefix::new table size 0')
    flds = dict(re.findall(r'(\w+)\s*:\s*(\w+)', m.group(1)))
    if flds != {'encoded_insert_count': '0', 'sign_negative': 'false', 'delta_base': '0'}:
        raise AnchorLost('HeaderPrefix::new zero prefix')
    body, spans['base_without_refs'] = impl_fn(blk, 'HeaderPrefix', 'base_without_refs')
    f['negative_base_is_error'] = bool(re.search(r'if\s+self\.sign_negative\s*\{\s*return\s+Err\(', body))
    if not re.search(r'Ok\(\s*self\.delta_base\s*\)', body):
        raise AnchorLost('base_without_refs')

    # ---- Indexed
    body, spans['indexed_decode'] = impl_fn(blk, 'Indexed', 'decode')
    m = re.search(r'match\s+prefix_int::decode\(\s*(\d+)\s*,\s*buf\s*\)\?', body)
    st = re.search(r'\(\s*' + INT + r'\s*,\s*i\s*\)\s*=>\s*\{(?:(?!=>).)*?Ok\(\s*Indexed::Static\(', body, re.S)
    dy = re.search(r'\(\s*' + INT + r'\s*,\s*i\s*\)\s*=>\s*\{(?:(?!=>).)*?Ok\(\s*Indexed::Dynamic\(', body, re.S)
    if not (m and st and dy):
        raise AnchorLost('Indexed::decode')
    f['idx_bits'], f['idx_static_flags'], f['idx_dynamic_flags'] = int(m.group(1)), parse_int(st.group(1)), parse_int(dy.group(1))
    body, spans['indexed_encode'] = impl_fn(blk, 'Indexed', 'encode')
    m = re.search(r'Indexed::Static\(i\)\s*=>\s*prefix_int::encode\(\s*(\d+)\s*,\s*' + INT + r'\s*,\s*\*i\s+as\s+u64', body)
    if not m:
        raise AnchorLost('Indexed::encode')
    f['idx_enc_bits'], f['idx_enc_static_flags'] = int(m.group(1)), parse_int(m.group(2))

    # ---- LiteralWithNameRef
    body, spans['nameref_decode'] = impl_fn(blk, 'LiteralWithNameRef', 'decode')
    m = re.search(r'match\s+prefix_int::decode\(\s*(\d+)\s*,\s*buf\s*\)\?', body)
    arms = re.findall(r'\(\s*f\s*,\s*i\s*\)\s+if\s+f\s*&\s*' + INT + r'\s*==\s*' + INT + r'\s*=>\s*\{(.*?)\n\s{12}\}', body, re.S)
    if not m or len(arms) != 2:
        raise AnchorLost('LiteralWithNameRef::decode')
    f['nr_bits'] = int(m.group(1))
    got = {}
    for mask, val, blk_ in arms:
        kind = 'static' if 'new_static' in blk_ else 'dynamic' if 'new_dynamic' in blk_ else None
        ms = re.search(r'prefix_string::decode\(\s*(\d+)\s*,\s*buf\s*\)\?', blk_)
        if kind is None or not ms:
            raise AnchorLost('LiteralWithNameRef arm')
        got[kind] = (parse_int(mask), parse_int(val), int(ms.group(1)))
    if set(got) != {'static', 'dynamic'} or body.find('new_static') > body.find('new_dynamic'):
        raise AnchorLost('LiteralWithNameRef arm order')
    f['nr_static'], f['nr_dynamic'] = got['static'], got['dynamic']
    body, spans['nameref_encode'] = impl_fn(blk, 'LiteralWithNameRef', 'encode')
    m = re.search(r'LiteralWithNameRef::Static\s*\{\s*index\s*,\s*value\s*\}\s*=>\s*\{\s*prefix_int::encode\(\s*(\d+)\s*,\s*' + INT +
                  r'\s*,\s*\*index\s+as\s+u64\s*,\s*buf\s*\)\s*;\s*prefix_string::encode\(\s*(\d+)\s*,\s*(\d+)\s*,\s*value\s*,\s*buf\s*\)\?', body)
    if not m:
        raise AnchorLost('LiteralWithNameRef::encode')
    f['nr_enc'] = (int(m.group(1)), parse_int(m.group(2)), int(m.group(3)), int(m.group(4)))

    # ---- Literal
    body, spans['literal_decode'] = impl_fn(blk, 'Literal', 'decode')
    m = re.search(r'buf\.chunk\(\)\[0\]\s*&\s*' + INT + r'\s*!=\s*' + INT, body)
    ss = re.findall(r'prefix_string::decode\(\s*(\d+)\s*,\s*buf\s*\)\?', body)
    if not m or len(ss) != 2 or not re.search(r'buf\.remaining\(\)\s*<\s*1', body):
        raise AnchorLost('Literal::decode')
    f['lit_mask'], f['lit_value'] = parse_int(m.group(1)), parse_int(m.group(2))
    f['lit_name_size'], f['lit_value_size'] = int(ss[0]), int(ss[1])
    body, spans['literal_encode'] = impl_fn(blk, 'Literal', 'encode')
    m = re.search(r'prefix_string::encode\(\s*(\d+)\s*,\s*' + INT + r'\s*,\s*&self\.name\s*,\s*buf\s*\)\?;\s*'
                  r'prefix_string::encode\(\s*(\d+)\s*,\s*' + INT + r'\s*,\s*&self\.value\s*,\s*buf\s*\)\?', body)
    if not m:
        raise AnchorLost('Literal::encode')
    f['lit_enc'] = (int(m.group(1)), parse_int(m.group(2)), int(m.group(3)), parse_int(m.group(4)))

    # ---- decode_stateless
    dec = Source(repo + '/h3/src/qpack/decoder.rs')
    body, spans['decode_stateless'] = dec.fn_body('decode_stateless')
    if not re.search(r'let\s+prefix\s*=\s*HeaderPrefix::decode\(buf\)\?;', body):
        raise AnchorLost('decode_stateless prefix')
    f['ric_nonzero_rejected'] = bool(re.search(
        r'if\s+prefix\.encoded_insert_count\(\)\s*!=\s*0\s*\{\s*return\s+Err\(\s*DecoderError::MissingRefs', body))
    f['base_checked'] = bool(re.search(r'prefix\.base_without_refs\(\)\?;', body))
    loop = body.find('while buf.has_remaining()')
    if loop < 0 or (f['ric_nonzero_rejected'] and body.find('encoded_insert_count') > loop) or \
            (f['base_checked'] and body.find('base_without_refs') > loop):
        raise AnchorLost('decode_stateless order')
    refused = []
    for k in ('IndexedWithPostBase', 'LiteralWithPostBaseNameRef'):
        if re.search(r'HeaderBlockField::' + k + r'\s*=>\s*\{?\s*return\s+Err\(\s*DecoderError::MissingRefs', body):
            refused.append(k)
    f['refused_kinds'] = refused
    f['indexed_dynamic_refused'] = bool(re.search(r'Indexed::Dynamic\(_\)\s*=>\s*return\s+Err\(\s*DecoderError::MissingRefs', body))
    f['nameref_dynamic_refused'] = bool(re.search(
        r'LiteralWithNameRef::Dynamic\s*\{\s*\.\.\s*\}\s*=>\s*return\s+Err\(\s*DecoderError::MissingRefs', body))
    for pat in (r'Indexed::Static\(index\)\s*=>\s*StaticTable::get\(index\)\?\.clone\(\)',
                r'StaticTable::get\(index\)\?\.with_value\(value\)',
                r'HeaderField::new\(literal\.name\s*,\s*literal\.value\)',
                r'_\s*=>\s*return\s+Err\(\s*DecoderError::UnknownPrefix',
                r'mem_size\s*\+=\s*field\.mem_size\(\)\s+as\s+u64',
                r'fields\.push\(field\)'):
        if not re.search(pat, body):
            raise AnchorLost('decode_stateless: ' + pat)
    m = re.search(r'if\s+mem_size\s*(>=|>)\s*max_size\s*\{\s*return\s+Err\(\s*DecoderError::HeaderTooLong', body)
    if not m:
        raise AnchorLost('decode_stateless size comparison')
    f['too_long_strict'] = m.group(1) == '>'
    if body.find('mem_size +=') > body.find('if mem_size') or body.find('if mem_size') > body.find('fields.push'):
        raise AnchorLost('decode_stateless accumulate/compare/push order')
    # the statement skeleton of the whole function and of the loop body: nothing may be added (an early break, a cap on
    # the number of fields, a second return Ok ...)
    from rustsrc import match_close
    li = body.find('{', loop)
    lj = match_close(body, li)
    loop_stmts = top_statements(body[li + 1:lj])
    shape = [r'^let field = match HeaderBlockField::decode\(buf\.chunk\(\)\[0\]\) \{', r'^mem_size \+= field\.mem_size\(\) as u64;$',
             r'^if mem_size (>|>=) max_size \{ return Err\(DecoderError::HeaderTooLong\(mem_size\)\); \}$', r'^fields\.push\(field\);$']
    if len(loop_stmts) != len(shape) or not all(re.search(p_, s_) for p_, s_ in zip(shape, loop_stmts)):
        raise AnchorLost('decode_stateless loop body is not [decode field; add size; compare; push]: ' + ' | '.join(x[:40] for x in loop_stmts))
    if re.search(r'\b(break|continue)\b', body):
        raise AnchorLost('decode_stateless: break/continue')
    fn_stmts = top_statements(body[:loop] + ' LOOP; ' + body[lj + 1:])
    fshape = [r'^let prefix = HeaderPrefix::decode\(buf\)\?;$', r'^if prefix\.encoded_insert_count\(\) != 0 \{', r'^prefix\.base_without_refs\(\)\?;$',
              r'^let mut mem_size = 0;$', r'^let mut fields = Vec::new\(\);$', r'^LOOP;$',
              r'^Ok\(Decoded \{ fields, mem_size, dyn_ref: false, \}\)$']
    want = [p_ for p_ in fshape if not ((p_.startswith(r'^if prefix') and not f['ric_nonzero_rejected']) or
                                        (p_.startswith(r'^prefix\.base') and not f['base_checked']))]
    if len(fn_stmts) != len(want) or not all(re.search(p_, s_) for p_, s_ in zip(want, fn_stmts)):
        raise AnchorLost('decode_stateless statement skeleton: ' + ' | '.join(x[:40] for x in fn_stmts))
    if body.count('Ok(') != 1:
        raise AnchorLost('decode_stateless: more than one Ok(..)')

    # ---- encode_stateless
    enc = Source(repo + '/h3/src/qpack/encoder.rs')
    body, spans['encode_stateless'] = enc.fn_body('encode_stateless')
    m = re.search(r'HeaderPrefix::new\(\s*(\d+)\s*,\s*(\d+)\s*,\s*(\d+)\s*,\s*(\d+)\s*\)\.encode\(block\)', body)
    if not m:
        raise AnchorLost('encode_stateless prefix')
    f['enc_prefix_args'] = [int(x) for x in m.groups()]
    if f['enc_prefix_args'][3] != 0:
        raise AnchorLost('encode_stateless prefix: table size not 0')
    order = [body.find('StaticTable::find(field)'), body.find('Indexed::Static(index).encode(block)'),
             body.find('StaticTable::find_name(&field.name)'), body.find('LiteralWithNameRef::new_static(index, field.value.clone()).encode(block)'),
             body.find('Literal::new(field.name.clone(), field.value.clone()).encode(block)'),
             body.find('size += field.mem_size() as u64')]
    if -1 in order or order != sorted(order):
        raise AnchorLost('encode_stateless lookup order')

    if re.search(r'\b(break|continue|return)\b', body) or body.count('Ok(') != 1:
        raise AnchorLost('encode_stateless: early exit')
    # ---- static_.rs: find / find_name are single matches over literal patterns only (gen_static reads the arms; a guarded
    #      or binding arm would be invisible to it), get is the plain slice lookup
    st = Source(repo + '/h3/src/qpack/static_.rs')
    BS = r'b"(?:[^"\\\\]|\\\\.)*"'
    spans['static_find_shape'] = strict_match_shape(
        st, 'find', r'\(\s*&field\.name\[\.\.\]\s*,\s*&field\.value\[\.\.\]\s*\)',
        r'\(\s*' + BS + r'\s*,\s*' + BS + r'\s*,?\s*\)\s*=>\s*\{?\s*Some\(\s*\d+\s*\)\s*\}?\s*,?', 'StaticTable::find')
    spans['static_find_name_shape'] = strict_match_shape(
        st, 'find_name', r'name', BS + r'\s*=>\s*\{?\s*Some\(\s*\d+\s*\)\s*\}?\s*,?', 'StaticTable::find_name')
    gbody, spans['static_get_shape'] = st.fn_body('get')
    if re.sub(r'\s+', '', gbody) != 'matchPREDEFINED_HEADERS.get(index){Some(f)=>Ok(f),None=>Err(Error::Unknown(index)),}':
        raise AnchorLost('StaticTable::get is not the plain slice lookup')

    # ---- field.rs
    fld = Source(repo + '/h3/src/qpack/field.rs')
    m = re.search(r'pub\s+const\s+ESTIMATED_OVERHEAD_BYTES\s*:\s*usize\s*=\s*(\d+)\s*;', fld.text)
    body, spans['mem_size'] = fld.fn_body('mem_size')
    if not m or not re.search(r'self\.name\.len\(\)\s*\+\s*self\.value\.len\(\)\s*\+\s*ESTIMATED_OVERHEAD_BYTES', body):
        raise AnchorLost('HeaderField::mem_size')
    f['overhead'] = int(m.group(1))
    # every function of the stateless path, whole (only the fact sites above are masked)
    check_bodies(repo)
    return f, spans


def b(x):
    return 'true' if x else 'false'


def render(f):
    L = ['(* GENERATED by translate/gen_qstateless.py from h3/src/qpack/{block,decoder,encoder,field}.rs *)',
         'From H3V Require Import Base.Bytes.',
         'Inductive hbf_kind := HIndexed | HIndexedWithPostBase | HLiteralWithNameRef | HLiteralWithPostBaseNameRef | HLiteral | HUnknown.',
         '(* HeaderBlockField::decode: ordered arms (mask, value, negated, kind): `first & mask == value` (or != when negated) *)',
         'Definition qs_dispatch : list (N * N * bool * hbf_kind) := [']
    L.append(';\n'.join('  (%d, %d, %s, H%s)' % (m, v, b(n), k) for m, v, n, k in f['dispatch']))
    L.append('].')
    L.append('Definition qs_dispatch_default : hbf_kind := H%s.' % f['dispatch_default'])
    for k in ('hp_ric_bits', 'hp_base_bits', 'hp_sign_value', 'hp_enc_ric_bits', 'hp_enc_base_bits',
              'idx_bits', 'idx_static_flags', 'idx_dynamic_flags', 'idx_enc_bits', 'idx_enc_static_flags', 'nr_bits'):
        L.append('Definition qs_%s : N := %d.' % (k, f[k]))
    for nm in ('nr_static', 'nr_dynamic'):
        m, v, s = f[nm]
        L.append('Definition qs_%s_mask : N := %d.' % (nm, m))
        L.append('Definition qs_%s_value : N := %d.' % (nm, v))
        L.append('Definition qs_%s_string_size : N := %d.' % (nm, s))
    a, fl, s, sf = f['nr_enc']
    L += ['Definition qs_nr_enc_bits : N := %d.' % a, 'Definition qs_nr_enc_flags : N := %d.' % fl,
          'Definition qs_nr_enc_string_size : N := %d.' % s, 'Definition qs_nr_enc_string_flags : N := %d.' % sf]
    L += ['Definition qs_lit_mask : N := %d.' % f['lit_mask'], 'Definition qs_lit_value : N := %d.' % f['lit_value'],
          'Definition qs_lit_name_size : N := %d.' % f['lit_name_size'], 'Definition qs_lit_value_size : N := %d.' % f['lit_value_size']]
    a, fl, s, sf = f['lit_enc']
    L += ['Definition qs_lit_enc_name_size : N := %d.' % a, 'Definition qs_lit_enc_name_flags : N := %d.' % fl,
          'Definition qs_lit_enc_value_size : N := %d.' % s, 'Definition qs_lit_enc_value_flags : N := %d.' % sf]
    L += ['(* decode_stateless *)',
          'Definition qs_ric_nonzero_rejected : bool := %s.' % b(f['ric_nonzero_rejected']),
          'Definition qs_base_checked : bool := %s.' % b(f['base_checked']),
          'Definition qs_negative_base_is_error : bool := %s.' % b(f['negative_base_is_error']),
          'Definition qs_postbase_indexed_refused : bool := %s.' % b('IndexedWithPostBase' in f['refused_kinds']),
          'Definition qs_postbase_nameref_refused : bool := %s.' % b('LiteralWithPostBaseNameRef' in f['refused_kinds']),
          'Definition qs_indexed_dynamic_refused : bool := %s.' % b(f['indexed_dynamic_refused']),
          'Definition qs_nameref_dynamic_refused : bool := %s.' % b(f['nameref_dynamic_refused']),
          '(* `if mem_size > max_size` : true for >, false for >= *)',
          'Definition qs_too_long_strict : bool := %s.' % b(f['too_long_strict']),
          '(* encode_stateless: HeaderPrefix::new(required, base, total_inserted, max_table_size) *)',
          'Definition qs_enc_prefix_required : N := %d.' % f['enc_prefix_args'][0],
          'Definition qs_enc_prefix_base : N := %d.' % f['enc_prefix_args'][1],
          '(* field.rs: ESTIMATED_OVERHEAD_BYTES *)',
          'Definition qs_overhead : N := %d.' % f['overhead']]
    return '\n'.join(L) + '\n'


if __name__ == '__main__':
    import sys
    if len(sys.argv) > 2 and sys.argv[2] == '--record':
        json.dump(whole_bodies(sys.argv[1]), open(BODIES, 'w'), indent=0, sort_keys=True)
        sys.exit(0)
    facts, spans = extract(sys.argv[1] if len(sys.argv) > 1 else '/repo')
    sys.stdout.write(render(facts))
