"""Source facts for C15: the hand-modelled control flow of h3/src/qpack/prefix_string/{decode,encode,bitwin}.rs.

The bodies of HuffmanDecoder::{check_eof, fetch_value, decode_next}, read_bits, DecodeIter::check_padding and
DecodeIter::next are anchored WHOLE: comment-free, whitespace-free text must equal the templates below; only
the masked fact sites (divisors, moduli, fillers, shift bases) are read out.  Anything else: AnchorLost.
"""
import re
from rustsrc import Source, AnchorLost, parse_int

NAME = 'GenHuffIter'

NUM = r'(?:0x[0-9a-fA-F_]+|\d[\d_]*)'


def squeeze(txt):
    return re.sub(r'\s+', '', txt)


def tmpl(t, **sites):
    """regex from a literal whitespace-free template; `<<name>>` marks a numeric fact site"""
    out, i = [], 0
    for m in re.finditer(r'<<(\w+)>>', t):
        out.append(re.escape(t[i:m.start()]))
        out.append('(?P<%s>%s)' % (m.group(1), NUM))
        i = m.end()
    out.append(re.escape(t[i:]))
    return re.compile('^' + ''.join(out) + '$')


CHECK_PADDING = tmpl(
    'letfirst=self.symbol_end/<<cp_div>>;'
    'for(i,byte)inself.content.iter().enumerate().skip(first){'
    'letfiller=ifi==first{<<cp_filler_first>>>>(self.symbol_end%<<cp_mod>>)}else{<<cp_filler_rest>>};'
    'ifbyte&filler!=filler{returnErr(Error::MissingBits(self.bit_pos.clone()));}'
    '}Ok(())')

NEXT = tmpl(
    'ifself.finished{returnNone;}'
    'matchHPACK_STRING.decode_next(&mutself.bit_pos,self.content){'
    'Ok(Some(x))=>{self.symbol_end=self.bit_pos.byteasusize*<<se_mul>>+self.bit_pos.bitasusize+self.bit_pos.countasusize;Some(Ok(x))}'
    'Err(err)=>{self.finished=true;Some(Err(err))}'
    'Ok(None)=>{self.finished=true;self.check_padding().err().map(Err)}'
    '}')

CHECK_EOF = tmpl(
    'usestd::cmp::Ordering;'
    'match((bit_pos.byte+1)asusize).cmp(&input.len()){'
    'Ordering::Greater=>{returnOk(None);}'
    'Ordering::Equal=>{letside=bit_pos.opposite_bit_window();'
    'letrest=matchread_bits(input,side.byte,side.bit,side.count){Ok(x)=>x,Err(())=>{returnErr(Error::MissingBits(side));}};'
    'leteof_filler=((<<eof_base>>u16<<(side.count-<<eof_sub1>>))-<<eof_sub2>>)asu8;'
    'ifrest&eof_filler==eof_filler{returnOk(None);}}'
    'Ordering::Less=>{}'
    '}Err(Error::MissingBits(bit_pos.clone()))')

FETCH_VALUE = tmpl(
    'matchread_bits(input,bit_pos.byte,bit_pos.bit,bit_pos.count){'
    'Ok(value)=>Ok(Some(valueasu32)),Err(())=>self.check_eof(bit_pos,input),}')

DECODE_NEXT = tmpl(
    'bit_pos.forwards(self.lookup);'
    'letvalue=matchself.fetch_value(bit_pos,input){Ok(Some(value))=>valueasusize,Ok(None)=>returnOk(None),Err(err)=>returnErr(err),};'
    'letat_value=match(self.table).get(value){Some(x)=>x,None=>returnErr(Error::Unhandled(bit_pos.clone(),value)),};'
    'matchat_value{DecodeValue::Sym(x)=>Ok(Some(*x)),DecodeValue::Partial(d)=>d.decode_next(bit_pos,input),}')

READ_BITS = tmpl(
    'iflen==0||len><<rb_max>>||src.len()asu32*<<rb_m1>><(byte_offset*<<rb_m2>>)+bit_offset+len{returnErr(());}'
    'byte_offset+=bit_offset/<<rb_d1>>;bit_offset-=(bit_offset/<<rb_d2>>)*<<rb_m3>>;'
    'Ok(ifbit_offset+len<=<<rb_one>>{(src[byte_offsetasusize]<<bit_offset)>>(<<rb_w8>>-len)}'
    'else{letmutresult=(src[byte_offsetasusize]asu16)<<<<rb_sh8>>;result|=src[byte_offsetasusize+1]asu16;'
    '((result<<bit_offset)>>(<<rb_w16>>-len))asu8})')


# exact (comment-free, whitespace-free) bodies of the remaining hand-modelled control flow; <<N>> = a number read elsewhere
EXACT = {
    'enc_new': 'HuffmanEncoder{buffer_pos:BitWindow::new(),buffer:Vec::new(),}',
    'enc_ensure_free_space': 'letmutend_range=self.buffer_pos.clone();end_range.forwards(bit_count);end_range.forwards(0);ifself.buffer.len()>end_range.byteasusize{return;}ifself.buffer.capacity()<=end_range.byteasusize{self.buffer.reserve(((<<N>>*end_range.byte)/<<N>>)asusize);}letforward=end_range.byteasusize-self.buffer.len()+ifend_range.bit>0{1}else{0};for_in0..forward{self.buffer.push(255);}',
    'enc_put': 'letencode_value=&HPACK_STRING[codeasusize];self.ensure_free_space(encode_value.bit_count);letmutrest=encode_value.bit_count;foriin0..encode_value.buffer.len(){letpart=encode_value.buffer[i];self.buffer_pos.forwards(ifrest<8{rest}else{8});rest-=self.buffer_pos.count;write_bits(&mutself.buffer,&self.buffer_pos,part)}Ok(())',
    'enc_ends': 'Ok(self.buffer)',
    'enc_write_bits': 'debug_assert!(pos.bit<8);debug_assert!(pos.count<=8);debug_assert!(pos.count>0);if(pos.bit+pos.count)<=8{debug_assert_eq!(out[pos.byteasusize]|PAD_LEFT[pos.bitasusize],255);letpad_left=out[pos.byteasusize]|PAD_RIGHT[(8-pos.bit)asusize];letshifted=value<<(8-pos.bit-pos.count)|PAD_LEFT[pos.bitasusize];letpad_right=PAD_RIGHT[(8-pos.count-pos.bit)asusize];out[pos.byteasusize]=(pad_left&shifted)|pad_right;}else{debug_assert_eq!(out[pos.byteasusize]|PAD_LEFT[pos.bitasusize],255);letsplit=8-pos.bit;letpad_left=out[pos.byteasusize]|PAD_RIGHT[splitasusize];letshifted=(value>>(pos.count-split))|PAD_LEFT[pos.bitasusize];out[pos.byteasusize]=pad_left&shifted;letrem=8-(pos.count-split);out[(pos.byte+1)asusize]=(value<<rem)|PAD_RIGHT[remasusize];}',
    'enc_hpack_encode': 'letmutencoder=HuffmanEncoder::new();forcodeinself{encoder.put(*code)?;}encoder.ends()',
    'dec_hpack_decode': 'DecodeIter{bit_pos:BitWindow::new(),content:self,symbol_end:0,finished:false,}',
    'dec_DecodeIter': "bit_pos:BitWindow,content:&'aVec<u8>,symbol_end:usize,finished:bool,",
    'bitwin_derive': 'Debug,Default,PartialEq,Clone',
    'bitwin_new': 'Self::default()',
}


def need(rx, body, what):
    m = rx.match(squeeze(body))
    if not m:
        raise AnchorLost('decode.rs %s: body changed' % what)
    return {k: parse_int(v) for k, v in m.groupdict().items()}


def extract(repo):
    src = Source(repo + '/h3/src/qpack/prefix_string/decode.rs')
    f, spans = {}, {}
    for name, rx in (('check_eof', CHECK_EOF), ('fetch_value', FETCH_VALUE), ('decode_next', DECODE_NEXT),
                     ('read_bits', READ_BITS), ('check_padding', CHECK_PADDING), ('next', NEXT)):
        body, spans[name] = src.fn_body(name)
        f.update(need(rx, body, name))
    enc = Source(repo + '/h3/src/qpack/prefix_string/encode.rs')
    bw = Source(repo + '/h3/src/qpack/prefix_string/bitwin.rs')
    got = {}
    for fn, nth in (('new', 0), ('ensure_free_space', 0), ('put', 0), ('ends', 0), ('write_bits', 0), ('hpack_encode', 1)):
        body, spans['enc_' + fn] = enc.fn_body(fn, nth=nth)
        got['enc_' + fn] = squeeze(body)
    body, spans['dec_hpack_decode'] = src.fn_body('hpack_decode', nth=1)
    got['dec_hpack_decode'] = squeeze(body)
    blk, spans['dec_DecodeIter'], _ = src.item_block(r"pub\s+struct\s+DecodeIter<'a>")
    got['dec_DecodeIter'] = squeeze(blk)
    m = re.search(r'#\[derive\(([^)]*)\)\]\s*pub\s+struct\s+BitWindow', bw.text)
    got['bitwin_derive'] = squeeze(m.group(1)) if m else ''
    body, spans['bitwin_new'] = bw.fn_body('new')
    got['bitwin_new'] = squeeze(body)
    got['enc_ensure_free_space'] = re.sub(r'\(\(\d+\*end_range\.byte\)/\d+\)', '((<<N>>*end_range.byte)/<<N>>)', got['enc_ensure_free_space'])
    for k, want in EXACT.items():
        if got.get(k) != want:
            raise AnchorLost('%s: body changed' % k)
    # read_bits is modelled with the literal 8/16-bit layout: its constants must be the expected ones
    expect = dict(rb_max=8, rb_m1=8, rb_m2=8, rb_d1=8, rb_d2=8, rb_m3=8, rb_one=8, rb_w8=8, rb_sh8=8, rb_w16=16)
    for k, v in expect.items():
        if f[k] != v:
            raise AnchorLost('read_bits constant %s = %d (modelled as %d)' % (k, f[k], v))
        del f[k]
    return f, spans


def render(f):
    L = ['(* GENERATED by translate/gen_huffiter.py from h3/src/qpack/prefix_string/decode.rs: fact sites of',
         '   DecodeIter::{check_padding, next} and HuffmanDecoder::check_eof (their bodies, and those of fetch_value,',
         '   decode_next and read_bits, are anchored whole by the translator) *)',
         'From H3V Require Import Base.Bytes.']
    for k in ('cp_div', 'cp_mod', 'cp_filler_first', 'cp_filler_rest', 'se_mul', 'eof_base', 'eof_sub1', 'eof_sub2'):
        L.append('Definition hi_%s : N := %d.' % (k, f[k]))
    return '\n'.join(L) + '\n'
