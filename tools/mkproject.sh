#!/bin/sh
# regenerate coq/_CoqProject (all .v files found) and the Makefile
cd "$(dirname "$0")/../coq" || exit 2
(cat _CoqProject.head; find Base Gen Spec Model Proofs Properties Refute -name '*.v' 2>/dev/null | sort) > _CoqProject.new
if ! cmp -s _CoqProject.new _CoqProject 2>/dev/null || [ ! -f Makefile ]; then
  mv _CoqProject.new _CoqProject
  coq_makefile -f _CoqProject -o Makefile >/dev/null
else
  rm -f _CoqProject.new
fi
