#!/usr/bin/env python3
"""Measure which branches of the EXTRACTED MODEL the correspondence runs actually execute.

    tools/model_coverage.py [C01 C02 ...]        (default: every claimed property, quick tier)

The correspondence check (DESIGN.md section 4b) ties a hand-written model function to the Rust code only on the
branches the generated cases drive the model through: a `match` arm or `if` branch of the model that no case ever
reaches is covered by the theorems but NOT by the tie.  This tool makes that visible:

  * the property's extracted model (`.cache/ocaml/Cxx/Cxx_model.ml`, produced by the normal build) and its driver are
    compiled once more with OCaml's own profiler front end (`ocamloptp -P a`: counters on every function body, match
    arm, if branch, loop and try);
  * the corpus and the quick-tier generated cases of the property are fed to that binary (one process, so that the
    counters of `ocamlprof.dump` accumulate);
  * `ocamlprof` prints the model source annotated with the counters; the points with count 0 are attributed to the
    enclosing top-level model function (the extracted `N`/`Pos`/list library modules are left out).

Result: notes/model_coverage.json (per property: points executed / points total, and per model function the points
never executed with the source text that follows them) and notes/model_coverage.md.  This is a MEASUREMENT that
guides the case generators, not a check and not evidence.
"""
import json
import os
import random
import re
import shutil
import subprocess
import sys

ROOT = os.path.dirname(os.path.dirname(os.path.abspath(__file__)))
sys.path.insert(0, os.path.join(ROOT, 'lib'))
sys.path.insert(0, os.path.join(ROOT, 'translate'))
import core  # noqa: E402
import importlib  # noqa: E402

OUT = os.path.join(ROOT, '.cache', 'modelcov')


def build_prof(pid, prop):
    core.build_model(pid, os.path.join(core.COQ, prop.extract_v), os.path.join(ROOT, 'ocaml', prop.driver_ml))
    src = os.path.join(core.CACHE, 'ocaml', pid)
    d = os.path.join(OUT, pid)
    shutil.rmtree(d, ignore_errors=True)
    os.makedirs(d)
    base = [f[:-3] for f in os.listdir(src) if f.endswith('_model.ml')][0]
    for f in (base + '.ml', base + '.mli', 'driver.ml'):
        shutil.copy(os.path.join(src, f), os.path.join(d, f))
    # only the model is instrumented: the driver is compiled plainly
    cmds = [['ocamlfind', 'ocamloptp', '-P', 'a', '-w', '-a', '-c', base + '.mli', base + '.ml'],
            ['ocamlfind', 'ocamlopt', '-w', '-a', '-c', 'driver.ml'],
            ['ocamlfind', 'ocamloptp', '-P', 'a', '-w', '-a', base + '.cmx', 'driver.cmx', '-o', 'h3model_prof']]
    for c in cmds:
        p = subprocess.run(c, cwd=d, stdout=subprocess.PIPE, stderr=subprocess.STDOUT)
        if p.returncode != 0:
            raise RuntimeError('%s: %s\n%s' % (pid, ' '.join(c), p.stdout.decode()[-2000:]))
    return d, base


TOP_RE = re.compile(r'^(?:let rec|let|and)\s+(\(?[A-Za-z_][\w\']*\)?)')


def analyse(d, base):
    p = subprocess.run(['ocamlprof', '-f', 'ocamlprof.dump', base + '.ml'], cwd=d, stdout=subprocess.PIPE, stderr=subprocess.PIPE)
    if p.returncode != 0:
        raise RuntimeError('ocamlprof: ' + p.stderr.decode()[-1000:])
    text = p.stdout.decode('utf-8', 'replace')
    funcs = {}
    cur = None
    depth_module = 0
    order = []
    for line in text.split('\n'):
        s = line.rstrip()
        if re.match(r'^module\s+\w+\s*=\s*$', s) or re.match(r'^module\s+\w+\s*=\s*struct', s):
            depth_module += 1
            cur = None
            continue
        if depth_module and re.match(r'^ ?end\b', s):
            depth_module -= 1
            cur = None
            continue
        if depth_module:
            continue
        m = TOP_RE.match(s)
        if m:
            cur = m.group(1)
            if cur not in funcs:
                funcs[cur] = {'points': 0, 'hit': 0, 'missed': []}
                order.append(cur)
        if cur is None:
            continue
        for mm in re.finditer(r'\(\* (\d+) \*\)', s):
            n = int(mm.group(1))
            funcs[cur]['points'] += 1
            if n > 0:
                funcs[cur]['hit'] += 1
            else:
                ctx = s[mm.end():].strip()
                ctx = re.sub(r'\(\* \d+ \*\)', '', ctx)[:90]
                before = s[:mm.start()].strip()[-60:]
                funcs[cur]['missed'].append((before + ' @ ' + ctx).strip())
    return funcs, order


def main():
    ids = [a.upper() for a in sys.argv[1:]]
    man = json.load(open(os.path.join(ROOT, 'MANIFEST.json')))
    if not ids:
        ids = [c['property_id'] for c in man['checks']]
    os.makedirs(OUT, exist_ok=True)
    respath = os.path.join(ROOT, 'notes', 'model_coverage.json')
    try:
        result = json.load(open(respath))
    except Exception:
        result = {}
    os.chdir(ROOT)
    for pid in ids:
        prop = importlib.import_module('props.' + pid.lower()).PROP
        d, base = build_prof(pid, prop)
        lines = prop.corpus() + list(prop.cases('quick', random.Random(1)))
        seen, ul = set(), []
        for l in lines:
            if l not in seen:
                seen.add(l)
                ul.append(l)
        env = dict(os.environ, OCAMLPROF_DUMP=os.path.join(d, 'ocamlprof.dump'))
        p = subprocess.run([os.path.join(d, 'h3model_prof')], input=('\n'.join(ul) + '\n').encode(), cwd=d, env=env,
                           stdout=subprocess.PIPE, stderr=subprocess.PIPE)
        nout = len([x for x in p.stdout.decode('utf-8', 'replace').split('\n') if x])
        funcs, order = analyse(d, base)
        tot = sum(f['points'] for f in funcs.values())
        hit = sum(f['hit'] for f in funcs.values())
        never = [n for n in order if funcs[n]['points'] and funcs[n]['hit'] == 0]
        partial = {n: funcs[n] for n in order if funcs[n]['missed'] and funcs[n]['hit'] > 0}
        result[pid] = {'cases': len(ul), 'model_outputs': nout, 'points': tot, 'executed': hit,
                       'functions': len([n for n in order if funcs[n]['points']]),
                       'functions_never_entered': never,
                       'functions_with_unexecuted_points': {n: {'executed': v['hit'], 'points': v['points'], 'missed': v['missed'][:12]}
                                                            for n, v in partial.items()}}
        print('%s cases=%d points=%d/%d never-entered=%d partial=%d' % (pid, len(ul), hit, tot, len(never), len(partial)), flush=True)
        json.dump(result, open(respath, 'w'), indent=1, sort_keys=True)
    with open(os.path.join(ROOT, 'notes', 'model_coverage.md'), 'w') as f:
        f.write('# Branches of the extracted model executed by the correspondence runs (quick tier)\n\n')
        f.write('Measured by tools/model_coverage.py (extracted model recompiled with `ocamloptp -P a`, counters read back with\n'
                '`ocamlprof`).  A point is a function body, match arm, if branch or try of the extracted OCaml; the extracted\n'
                'number/list library modules are left out.  A model branch no case reaches is covered by the theorems but not by\n'
                'the tie to the code; the lists below are the work list for the case generators.  Functions "never entered" are\n'
                'mostly definitions the extraction pulls in for the specification column or for other properties.\n\n')
        f.write('| property | cases | points executed | points | % | functions | never entered | partly executed |\n|---|---|---|---|---|---|---|---|\n')
        for pid in sorted(result):
            r = result[pid]
            f.write('| %s | %d | %d | %d | %.1f | %d | %d | %d |\n' % (pid, r['cases'], r['executed'], r['points'],
                    100.0 * r['executed'] / max(1, r['points']), r['functions'], len(r['functions_never_entered']),
                    len(r['functions_with_unexecuted_points'])))
        for pid in sorted(result):
            r = result[pid]
            f.write('\n## %s\n\nnever entered: %s\n\n' % (pid, ', '.join('`%s`' % n for n in r['functions_never_entered']) or '-'))
            for n, v in r['functions_with_unexecuted_points'].items():
                f.write('- `%s` %d/%d; not executed: %s\n' % (n, v['executed'], v['points'], ' ;; '.join('`%s`' % m.replace('`', "'") for m in v['missed'][:6])))


if __name__ == '__main__':
    main()
