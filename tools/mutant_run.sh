#!/bin/sh
# usage: tools/mutant_run.sh <patch.diff> <Cxx> [more ids...]
# Runs ./check for the given properties against a PRIVATE copy of /repo with the patch applied,
# using a private copy of /verif (so the shared trees are never touched).  Prints the check output.
set -e
patch="$(readlink -f "$1")"; shift
work=$(mktemp -d /tmp/mut.XXXXXX)
trap 'rm -rf "$work"' EXIT
mkdir -p "$work/repo"
(cd /repo && tar --exclude=./target --exclude=./.git -cf - .) | (cd "$work/repo" && tar xf -)
(cd "$work/repo" && git init -q . && git apply "$patch") || { echo "MUTANT-RUN: patch does not apply"; exit 3; }
mkdir -p "$work/verif"
(cd /verif && tar --ignore-failed-read --warning=no-file-changed --exclude=./.git --exclude=./replay --exclude=./.cache/ocaml --exclude='./.cache/*.lock' -cf - .) | (cd "$work/verif" && tar xf -)
for f in "$work"/verif/harness*/Cargo.toml; do sed -i "s#/repo/#$work/repo/#g" "$f"; done
cd "$work/verif"
rc=0
for id in "$@"; do
  VERIF_REPO="$work/repo" ./check "$id" || rc=$?
  for f in replay/*.json; do [ -f "$f" ] && { echo "--- $f"; head -c 1500 "$f"; echo; }; done
  rm -rf replay
done
exit $rc
