#!/bin/sh
# usage: tools/confirm_seeded.sh <worktree> <outdir>
# Confirms a red-team change independently in a scratch worktree of /repo:
#   1. patch.diff applies and the existing test suite still passes with it (flaky tests of BASELINE.json ignored)
#   2. the demonstration (demo.diff + meta.json demo_command) FAILS with the change
#   3. the demonstration PASSES without it
# Prints one line per step and a final CONFIRMED / NOT-CONFIRMED; leaves the worktree clean (and cargo-cleaned).
wt="$1"; out="$2"
cd "$wt" || exit 2
export CARGO_NET_OFFLINE=true
clean() { git checkout -q -- . ; git clean -fdq -e target -e Cargo.lock ; }
clean
demo_cmd=$(python3 -c "import json,sys;print(json.load(open('$out/meta.json'))['demo_command'])")
# strip a leading 'cd ... && git apply ...demo.diff &&' if present: we apply the diffs ourselves
demo_run=$(printf '%s' "$demo_cmd" | sed -e 's/^cd [^&]*&& *//' -e 's/git apply [^&]*&& *//g')
git apply "$out/patch.diff" || { echo "STEP1 patch does not apply"; echo NOT-CONFIRMED; exit 1; }
cargo test --workspace --no-fail-fast --offline > /tmp/confirm.$$.log 2>&1
fails=$(grep -E '^test .* FAILED$' /tmp/confirm.$$.log | grep -v -e request_invalid_frame_after_trailers -e request_invalid_frame_first | sort -u)
if [ -n "$fails" ]; then
  # timing-based tests fail under load: re-run the failed ones alone once
  still=""
  for t in $(echo "$fails" | awk '{print $2}'); do
    cargo test --workspace --offline "$t" > /tmp/confirm.$$.re.log 2>&1 || still="$still $t"
  done
  if [ -n "$still" ]; then echo "STEP1 existing tests FAIL with the change:$still"; s1=bad; else echo "STEP1 existing tests pass with the change (after re-running load-sensitive ones alone)"; s1=ok; fi
else
  if grep -q 'test result: ok' /tmp/confirm.$$.log; then echo "STEP1 existing tests pass with the change"; s1=ok; else echo "STEP1 build failed"; tail -20 /tmp/confirm.$$.log; s1=bad; fi
fi
if [ -f "$out/demo.diff" ]; then git apply "$out/demo.diff" || { echo "STEP2 demo.diff does not apply on top of the patch"; s2=bad; }; fi
if [ "$s2" != bad ]; then
  if sh -c "$demo_run" > /tmp/confirm.$$.d1.log 2>&1; then echo "STEP2 demo PASSES with the change (expected failure)"; s2=bad; else
    if grep -qE 'error(\[E[0-9]+\])?:.*(could not compile|aborting)' /tmp/confirm.$$.d1.log; then echo "STEP2 demo does not compile"; s2=bad; else echo "STEP2 demo fails with the change"; s2=ok; fi; fi
fi
clean
if [ -f "$out/demo.diff" ]; then git apply "$out/demo.diff"; fi
if sh -c "$demo_run" > /tmp/confirm.$$.d2.log 2>&1; then echo "STEP3 demo passes without the change"; s3=ok; else echo "STEP3 demo FAILS without the change"; tail -5 /tmp/confirm.$$.d2.log; s3=bad; fi
clean
cargo clean > /dev/null 2>&1
rm -f /tmp/confirm.$$.*
if [ "$s1" = ok ] && [ "$s2" = ok ] && [ "$s3" = ok ]; then echo CONFIRMED; exit 0; else echo NOT-CONFIRMED; exit 1; fi
