#!/usr/bin/env python3
"""Regenerates MANIFEST.json from lib/props/*.py metadata and tools/manifest_meta.json."""
import json, os, sys
ROOT = os.path.dirname(os.path.dirname(os.path.abspath(__file__)))
sys.path.insert(0, os.path.join(ROOT, 'lib'))
sys.path.insert(0, os.path.join(ROOT, 'translate'))
import importlib
meta = json.load(open(os.path.join(ROOT, 'tools', 'manifest_meta.json')))
props = [json.loads(l) for l in open(os.path.join(ROOT, 'properties.jsonl'))]
built = sorted(f[:-3].upper() for f in os.listdir(os.path.join(ROOT, 'lib', 'props')) if f.startswith('c') and f.endswith('.py'))
checks, na = [], []
for p in props:
    pid = p['id']
    m = meta['checks'].get(pid)
    if pid in built and m:
        checks.append({
            'property_id': pid,
            'quick_cmd': './check %s --tier quick' % pid,
            'thorough_cmd': './check %s --tier thorough' % pid,
            'evidence_file': '/verif/evidence/%s.json' % pid,
            'replay_cmd_template': './check %s --replay {path}' % pid,
            'engine': 'coq-proofs+correspondence',
            'level_claimed': {'category': 'proof', 'text': m['text'], 'design_ref': m.get('design_ref', 'DESIGN.md section 7-' + pid)},
            'level_note': m['note'],
            'technique': m['technique'],
        })
    else:
        na.append({'property_id': pid, 'reason': meta['not_yet'].get(pid, 'check not built yet in this session (planned, DESIGN.md section 10); not claimed until its theorem and correspondence run exist')})
man = {
    'version': 1,
    'setup_cmd': './check --setup',
    'hooks': meta['hooks'],
    'engines': meta['engines'],
    'checks': checks,
    'notes': meta['notes'],
    'not_applicable': na,
}
json.dump(man, open(os.path.join(ROOT, 'MANIFEST.json'), 'w'), indent=1)
print('MANIFEST.json: %d checks, %d not claimed' % (len(checks), len(na)))
