#!/usr/bin/env python3
"""Measure which parts of /repo's library source the correspondence runs actually execute.

    tools/coverage.py [C01 C02 ...]        (default: every claimed property, quick tier)

It re-runs `./check Cxx --tier quick` with VERIF_COVERAGE set: lib/core.py then builds the harness binaries with
`cargo +nightly ... -C instrument-coverage` into .cache/target-cov and every harness process writes a .profraw file.
The profiles are merged with the nightly toolchain's llvm-profdata / llvm-cov and reduced to
    notes/coverage.json   per file: lines executed / lines instrumented; per function: executed or not
    notes/coverage.md     the table, and the list of library functions no correspondence run reaches
This is a MEASUREMENT of the tie between model and code (DESIGN.md section 4b), not a check and not evidence: the
evidence files are restored afterwards so that they keep describing the uninstrumented runs.
"""
import glob
import json
import os
import shutil
import subprocess
import sys

ROOT = os.path.dirname(os.path.dirname(os.path.abspath(__file__)))
COV = os.path.join(ROOT, '.cache', 'cov')
TOOLS = glob.glob(os.path.expanduser('~/.rustup/toolchains/nightly-x86_64-unknown-linux-gnu/lib/rustlib/*/bin'))[0]
REPO = os.environ.get('VERIF_REPO', '/repo')


def main():
    ids = [a.upper() for a in sys.argv[1:]]
    if not ids:
        man = json.load(open(os.path.join(ROOT, 'MANIFEST.json')))
        ids = [c['property_id'] for c in man['checks']]
    shutil.rmtree(COV, ignore_errors=True)
    os.makedirs(COV)
    keep = os.path.join(COV, 'evidence.keep')
    shutil.copytree(os.path.join(ROOT, 'evidence'), keep)
    env = dict(os.environ, VERIF_COVERAGE=COV)
    verdicts = {}
    try:
        for pid in ids:
            p = subprocess.run(['./check', pid, '--tier', 'quick'], cwd=ROOT, env=env, stdout=subprocess.PIPE, stderr=subprocess.DEVNULL)
            last = [l for l in p.stdout.decode().split('\n') if l.strip()][-1:] or ['']
            verdicts[pid] = last[0][:200]
            print(pid, last[0][:160], flush=True)
    finally:
        for f in glob.glob(os.path.join(keep, '*')):
            shutil.copy(f, os.path.join(ROOT, 'evidence', os.path.basename(f)))
    raws = glob.glob(os.path.join(COV, '*.profraw'))
    prof = os.path.join(COV, 'merged.profdata')
    lst = os.path.join(COV, 'raws.txt')
    open(lst, 'w').write('\n'.join(raws) + '\n')
    subprocess.check_call([os.path.join(TOOLS, 'llvm-profdata'), 'merge', '-sparse', '-f', lst, '-o', prof])
    bins = sorted({os.path.basename(r).rsplit('-', 2)[0] for r in raws})
    objs = []
    for b in bins:
        objs += ['-object', os.path.join(ROOT, '.cache', 'target-cov', 'release', b)]
    # llvm-cov wants the first binary positionally and the others as -object
    cmd = [os.path.join(TOOLS, 'llvm-cov'), 'export', '-instr-profile', prof, '-format=text',
           '-ignore-filename-regex', r'(\.cargo|/rustc/|/verif/)', objs[1]] + objs[2:]
    data = json.loads(subprocess.check_output(cmd, stderr=subprocess.DEVNULL))['data'][0]
    files = {}
    for f in data['files']:
        name = f['filename']
        if not name.startswith(REPO + '/'):
            continue
        # segments: [line, col, count, hasCount, isRegionEntry, isGap]; fold to per-line max count
        lines = {}
        segs = f['segments']
        for i, s in enumerate(segs):
            if not s[3] or s[5]:
                continue
            end = segs[i + 1][0] if i + 1 < len(segs) else s[0]
            for ln in range(s[0], max(s[0], end - (1 if i + 1 < len(segs) and segs[i + 1][1] == 1 else 0)) + 1):
                lines[ln] = max(lines.get(ln, 0), s[2])
        files[name[len(REPO) + 1:]] = {'instrumented': len(lines), 'executed': sum(1 for v in lines.values() if v > 0),
                                       'unexecuted_lines': sorted(k for k, v in lines.items() if v == 0)}
    funcs = {}
    for fn in data['functions']:
        fname = fn['filenames'][0]
        if not fname.startswith(REPO + '/'):
            continue
        r = fn['regions'][0]
        key = (fname[len(REPO) + 1:], r[0])
        nm = fn['name']
        cur = funcs.get(key, {'count': 0, 'name': nm})
        cur['count'] = max(cur['count'], fn['count'])
        funcs[key] = cur
    res = {'verdicts': verdicts, 'files': files,
           'functions': [{'file': k[0], 'line': k[1], 'name': v['name'], 'count': v['count']} for k, v in sorted(funcs.items())]}
    os.makedirs(os.path.join(ROOT, 'notes'), exist_ok=True)
    json.dump(res, open(os.path.join(ROOT, 'notes', 'coverage.json'), 'w'), indent=1)
    tot_i = sum(f['instrumented'] for f in files.values())
    tot_e = sum(f['executed'] for f in files.values())
    md = ['# Library source executed by the correspondence runs (quick tier, all claimed properties)', '',
          'Measured by tools/coverage.py (instrumented harness build, llvm-cov).  Lines = instrumented source lines',
          '(test modules excluded by cfg).  %d of %d lines executed (%.1f%%).' % (tot_e, tot_i, 100.0 * tot_e / max(1, tot_i)), '',
          '| file | executed | instrumented | % |', '|---|---|---|---|']
    for n, f in sorted(files.items()):
        md.append('| %s | %d | %d | %.0f |' % (n, f['executed'], f['instrumented'], 100.0 * f['executed'] / max(1, f['instrumented'])))
    md += ['', '## Functions no correspondence run reaches', '']
    for x in res['functions']:
        if x['count'] == 0:
            md.append('- %s:%d' % (x['file'], x['line']))
    open(os.path.join(ROOT, 'notes', 'coverage.md'), 'w').write('\n'.join(md) + '\n')
    print('lines executed %d / %d' % (tot_e, tot_i))


if __name__ == '__main__':
    main()
