#!/usr/bin/env python3
"""Regenerates the three tables of DESIGN.md section 12 from seeded/*/meta.json (rows grouped rt1 / rt2 / audits)."""
import json, os, re
ROOT = os.path.dirname(os.path.dirname(os.path.abspath(__file__)))
rows = {'rt1': [], 'rt2': [], 'rt3': [], 'rt4': [], 'au': []}
def cell(s, n):
    s = re.sub(r'\s+', ' ', str(s)).replace('|', '\\|').strip()
    return s if len(s) <= n else s[:n - 1].rstrip() + '…'
for d in sorted(os.listdir(os.path.join(ROOT, 'seeded'))):
    mp = os.path.join(ROOT, 'seeded', d, 'meta.json')
    if not os.path.exists(mp):
        continue
    m = json.load(open(mp))
    kind = 'rt1' if d.endswith('-rt1') else 'rt2' if d.endswith('-rt2') else 'rt3' if d.endswith('-rt3') else 'rt4' if d.endswith('-rt4') else 'au'
    rows[kind].append('| `%s` | %s | %s | %s |' % (d, m.get('property', d[:3]), cell(m.get('summary', ''), 260), cell(m.get('verdict', 'not run'), 420)))
HEAD = '| seeded change | property | what it changes | verdict of the check |\n|---|---|---|---|\n'
def table(k):
    return HEAD + '\n'.join(rows[k]) + '\n'
p = os.path.join(ROOT, 'DESIGN.md')
s = open(p).read()
def put(s, start, nxt, body):
    i = s.index(start) + len(start)
    j = s.index(nxt, i)
    # keep any prose that follows the table inside the block
    block = s[i:j]
    prose = '\n'.join(l for l in block.split('\n') if not l.startswith('|')).strip('\n')
    return s[:i] + '\n\n' + body + ('\n' + prose + '\n' if prose else '') + '\n' + s[j:]
s = put(s, '### Round 1 (black box)', '### Round 2 (black box', table('rt1'))
s = put(s, '### Round 2 (black box, different kind of change)', '### Round 3 (black box', table('rt2'))
s = put(s, '### Round 3 (black box, third kind of change)', '### Round 4 (black box', table('rt3'))
s = put(s, '### Round 4 (black box, six properties)', '### White-box audits', table('rt4'))
s = put(s, '### White-box audits', 'In addition every builder ran', table('au'))
open(p, 'w').write(s)
print('section 12: %d + %d + %d + %d + %d rows' % (len(rows['rt1']), len(rows['rt2']), len(rows['rt3']), len(rows['rt4']), len(rows['au'])))
