#!/usr/bin/env python3
"""tools/seed_add.py <Cxx-rtN> <dir with patch.diff demo.diff meta.json> <breaks Cxx> <verdict text> [<what I ran>]
Copies a confirmed red-team change into seeded/<id>/ and records the verdict of the check(s)."""
import json, os, shutil, sys
ROOT = os.path.dirname(os.path.dirname(os.path.abspath(__file__)))
sid, src, prop, verdict = sys.argv[1:5]
ran = sys.argv[5] if len(sys.argv) > 5 else ''
d = os.path.join(ROOT, 'seeded', sid)
os.makedirs(d, exist_ok=True)
for f in ('patch.diff', 'demo.diff'):
    shutil.copy(os.path.join(src, f), os.path.join(d, f))
m = json.load(open(os.path.join(src, 'meta.json')))
m['property'] = prop
m['breaks'] = prop
m['verdict'] = verdict
m['confirmed_by'] = ('tools/confirm_seeded.sh in a scratch worktree of /repo (existing suite passes with the change, load-sensitive timing '
                     'tests re-run alone; demonstration fails with the change and passes without it)')
m['what_i_ran'] = ran or ('tools/mutant_run.sh seeded/%s/patch.diff %s (private copies of /repo and /verif; /repo itself untouched)' % (sid, prop))
json.dump(m, open(os.path.join(d, 'meta.json'), 'w'), indent=1)
print('seeded/%s written' % sid)
