#!/bin/sh
# usage: coqgoal.sh File.v LINE  -- compiles the file truncated after LINE with "Show." appended, prints goals
f="$1"; n="$2"
tmp=$(mktemp /tmp/goalXXXXXX.v)
head -n "$n" "$f" > "$tmp"
echo "Show. " >> "$tmp"
cd /verif/coq && timeout 120 coqc -Q . H3V -w -notation-overridden "$tmp" 2>&1 | head -${3:-60}
rm -f "$tmp" /tmp/$(basename "$tmp" .v).vo /tmp/$(basename "$tmp" .v).glob /tmp/.$(basename "$tmp" .v).aux 2>/dev/null
