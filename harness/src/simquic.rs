//! SimQuic: an in-memory, fully scriptable implementation of the `h3::quic` traits, plus a
//! deterministic single-threaded executor.  It lets a harness drive the REAL h3
//! `server::Connection` / `client::Connection` / `FrameStream` code with any peer behaviour,
//! chunking, back-pressure and task interleaving, and observe everything h3 does to the
//! transport.
//!
//! # Model
//! One `World` (behind `Arc<Mutex<..>>`) is one endpoint's view of a QUIC connection.
//! * **Inbound** (what the peer does) is injected by the harness with [`World`] methods or the
//!   event mini-language of [`apply_event`]:
//!   `U<id>` new peer uni stream, `B<id>` new peer bidi stream (announced to accept in that order),
//!   `<id>:c:<hex>` a chunk arrives on stream `<id>` (never empty), `<id>:F` FIN, `<id>:R<code>` RESET_STREAM,
//!   `<id>:S<code>` peer STOP_SENDING for OUR send half of `<id>` (the next write fails with StreamTerminated),
//!   `X<code>` peer closes the connection with an application code, `T` idle timeout, `I` transport internal error,
//!   `XU` transport error of a kind h3 does not know (ConnectionErrorIncoming::Undefined), `<id>:K` the receive half of
//!   `<id>` fails with StreamErrorIncoming::Unknown,
//!   `G<n>` grant `n` more credits for opening uni streams, `H<n>` same for bidi streams,
//!   `D:<hex>` a QUIC datagram with that payload arrives,
//!   `<id>:Z<n>` the next n poll_finish calls on our send half of `<id>` return Pending; `ZS` / `ZU` make poll_finish report a
//!   peer STOP_SENDING as StreamTerminated / as Unknown (default: poll_finish ignores it); `SEG<n>` hands every delivered
//!   chunk to h3 as a non-contiguous `Buf` cut into n-byte segments (`RecvStream::Buf` is [`SegBuf`]),
//!   `W<id>:<k>` let stream `<id>` accept `k` more bytes of writes (only meaningful when the world was created with a
//!   finite default write budget), `W*:<k>` sets the default budget of streams opened later.
//!   Terminal events (F, R, connection loss) are sticky.
//! * **Outbound** (what h3 does) is recorded: per-stream accepted bytes (`tx`), and an ordered
//!   `log` of `open_uni <id>`, `open_bidi <id>`, `fin <id>`, `reset <id> <code>`, `stop <id> <code>`,
//!   `close <code> <reason-hex>`.
//! * Writes: `send_data(buf)` stores the `WriteBuf`; `poll_ready` drains it through
//!   `chunk()`/`advance()` exactly as a transport would, at most `budget` bytes (Pending when the
//!   budget is 0, waking when the harness grants more); a second `send_data` while one is in flight
//!   is refused like the Quinn adapter does.
//! * Stream ids: locally opened streams get the next id of the right kind for `side`.
//!
//! # Executor
//! [`Exec`] owns boxed futures ("tasks") that return a `String`.  `poll(i)` polls task `i` once;
//! `run()` polls every task whose waker flag is set until none is (quiescence) and returns `false`
//! if it had to give up (livelock guard).  A task whose future completed has `result(i) = Some(..)`;
//! "still pending at quiescence" is how a hang is observed.
//!
//! Contract upheld towards h3 (the Coq models assume it): no empty chunks, sticky terminal
//! events, `send_data` only after the previous buffer was fully written.
use bytes::{Buf, Bytes};
use h3::quic::{self, ConnectionErrorIncoming, StreamErrorIncoming, StreamId, WriteBuf};
use std::collections::{BTreeMap, VecDeque};
use std::convert::TryFrom;
use std::future::Future;
use std::pin::Pin;
use std::sync::atomic::{AtomicBool, Ordering};
use std::sync::{Arc, Mutex};
use std::task::{Context, Poll, Wake, Waker};

#[derive(Clone, Copy, PartialEq, Eq, Debug)]
pub enum Side {
    Client,
    Server,
}

#[derive(Clone, Debug)]
pub enum ConnLoss {
    AppClose(u64),
    Timeout,
    Internal,
    /// `XU`: the transport fails with an error h3 knows nothing about (ConnectionErrorIncoming::Undefined)
    Undefined,
}

impl ConnLoss {
    fn to_incoming(&self) -> ConnectionErrorIncoming {
        match self {
            ConnLoss::AppClose(c) => ConnectionErrorIncoming::ApplicationClose { error_code: *c },
            ConnLoss::Timeout => ConnectionErrorIncoming::Timeout,
            ConnLoss::Internal => ConnectionErrorIncoming::InternalError("sim".into()),
            ConnLoss::Undefined => ConnectionErrorIncoming::Undefined(std::sync::Arc::new(std::io::Error::new(
                std::io::ErrorKind::Other,
                "sim undefined",
            ))),
        }
    }
}

#[derive(Clone, Debug)]
pub enum Ev {
    Chunk(Bytes),
    Fin,
    Reset(u64),
    /// `<id>:K`: the receive side fails with StreamErrorIncoming::Unknown (sticky, like a reset)
    Unknown,
}

#[derive(Default)]
pub struct StreamState {
    pub rx: VecDeque<Ev>,
    pub rx_waker: Option<Waker>,
    pub tx: Vec<u8>,
    pub tx_budget: Option<u64>,
    pub tx_waker: Option<Waker>,
    pub peer_stop: Option<u64>,
    pub finished: bool,
    pub reset: Option<u64>,
    pub stopped: Option<u64>,
    pub local: bool,
    /// bytes of `tx` already moved to a linked peer
    pub pumped: usize,
    pub fin_pumped: bool,
    /// `<id>:Z<n>`: the next n poll_finish calls on this stream return Pending (self-waking)
    pub finish_pending: u64,
}

pub struct World {
    pub side: Side,
    pub streams: BTreeMap<u64, StreamState>,
    pub incoming_uni: VecDeque<u64>,
    pub incoming_bidi: VecDeque<u64>,
    pub accept_uni_waker: Option<Waker>,
    pub accept_bidi_waker: Option<Waker>,
    pub open_waker: Vec<Waker>,
    pub uni_credit: u64,
    pub bidi_credit: u64,
    pub next_uni: u64,
    pub next_bidi: u64,
    pub conn_lost: Option<ConnLoss>,
    pub closed: Option<(u64, Vec<u8>)>,
    pub log: Vec<String>,
    pub default_budget: Option<u64>,
    /// datagrams received from the peer, not yet read by h3
    pub dgram_rx: VecDeque<Bytes>,
    pub dgram_waker: Option<Waker>,
    /// datagrams h3 sent (flattened bytes)
    pub dgram_tx: Vec<Vec<u8>>,
    /// None: datagrams accepted; Some(limit): larger ones are TooLarge; Some(0) means NotAvailable
    pub dgram_limit: Option<usize>,
    /// `ZS`: poll_finish reports the peer's STOP_SENDING as StreamTerminated (default: ignores it)
    pub finish_honours_stop: bool,
    /// `ZU`: ... and reports it as StreamErrorIncoming::Unknown, as h3-quinn does for any finish() error
    pub finish_stop_unknown: bool,
    /// `SEG<n>`: every delivered chunk is handed to h3 as a NON-contiguous Buf cut into segments of n bytes (0 = one segment)
    pub seg: usize,
}

pub type Shared = Arc<Mutex<World>>;

impl World {
    pub fn new(side: Side, uni_credit: u64, bidi_credit: u64, default_budget: Option<u64>) -> Shared {
        let (next_uni, next_bidi) = match side {
            Side::Client => (2, 0),
            Side::Server => (3, 1),
        };
        Arc::new(Mutex::new(World {
            side,
            streams: BTreeMap::new(),
            incoming_uni: VecDeque::new(),
            incoming_bidi: VecDeque::new(),
            accept_uni_waker: None,
            accept_bidi_waker: None,
            open_waker: Vec::new(),
            uni_credit,
            bidi_credit,
            next_uni,
            next_bidi,
            conn_lost: None,
            closed: None,
            log: Vec::new(),
            default_budget,
            dgram_rx: VecDeque::new(),
            dgram_waker: None,
            dgram_tx: Vec::new(),
            dgram_limit: None,
            finish_honours_stop: false,
            finish_stop_unknown: false,
            seg: 0,
        }))
    }

    fn stream(&mut self, id: u64) -> &mut StreamState {
        let b = self.default_budget;
        self.streams.entry(id).or_insert_with(|| StreamState {
            tx_budget: b,
            ..Default::default()
        })
    }

    pub fn new_peer_uni(&mut self, id: u64) {
        self.stream(id);
        self.incoming_uni.push_back(id);
        if let Some(w) = self.accept_uni_waker.take() {
            w.wake();
        }
    }
    pub fn new_peer_bidi(&mut self, id: u64) {
        self.stream(id);
        self.incoming_bidi.push_back(id);
        if let Some(w) = self.accept_bidi_waker.take() {
            w.wake();
        }
    }
    pub fn push(&mut self, id: u64, ev: Ev) {
        if let Ev::Chunk(b) = &ev {
            assert!(!b.is_empty(), "SimQuic never delivers empty chunks");
        }
        let s = self.stream(id);
        // terminal events are sticky: nothing is queued after them
        if matches!(s.rx.back(), Some(Ev::Fin) | Some(Ev::Reset(_)) | Some(Ev::Unknown)) {
            return;
        }
        s.rx.push_back(ev);
        if let Some(w) = s.rx_waker.take() {
            w.wake();
        }
    }
    pub fn peer_stop(&mut self, id: u64, code: u64) {
        let s = self.stream(id);
        s.peer_stop = Some(code);
        if let Some(w) = s.tx_waker.take() {
            w.wake();
        }
    }
    pub fn grant_write(&mut self, id: u64, k: u64) {
        let s = self.stream(id);
        s.tx_budget = Some(s.tx_budget.unwrap_or(0).saturating_add(k));
        if let Some(w) = s.tx_waker.take() {
            w.wake();
        }
    }
    pub fn grant_uni(&mut self, n: u64) {
        self.uni_credit += n;
        for w in self.open_waker.drain(..) {
            w.wake();
        }
    }
    pub fn grant_bidi(&mut self, n: u64) {
        self.bidi_credit += n;
        for w in self.open_waker.drain(..) {
            w.wake();
        }
    }
    pub fn lose(&mut self, l: ConnLoss) {
        if self.conn_lost.is_some() {
            return;
        }
        self.conn_lost = Some(l);
        if let Some(w) = self.accept_uni_waker.take() {
            w.wake();
        }
        if let Some(w) = self.accept_bidi_waker.take() {
            w.wake();
        }
        if let Some(w) = self.dgram_waker.take() {
            w.wake();
        }
        for w in self.open_waker.drain(..) {
            w.wake();
        }
        for s in self.streams.values_mut() {
            if let Some(w) = s.rx_waker.take() {
                w.wake();
            }
            if let Some(w) = s.tx_waker.take() {
                w.wake();
            }
        }
    }
    pub fn push_datagram(&mut self, b: Bytes) {
        self.dgram_rx.push_back(b);
        if let Some(w) = self.dgram_waker.take() {
            w.wake();
        }
    }
    /// all bytes h3 wrote on stream `id`
    pub fn tx_of(&self, id: u64) -> Vec<u8> {
        self.streams.get(&id).map(|s| s.tx.clone()).unwrap_or_default()
    }
    /// ids of locally opened streams in opening order
    pub fn local_streams(&self) -> Vec<u64> {
        let mut v: Vec<u64> = Vec::new();
        for l in &self.log {
            if let Some(r) = l.strip_prefix("open_uni ").or_else(|| l.strip_prefix("open_bidi ")) {
                v.push(r.parse().unwrap());
            }
        }
        v
    }
}

/// Applies one event of the mini-language (see module docs).  Returns false if unparsable.
pub fn apply_event(w: &Shared, ev: &str) -> bool {
    let mut g = w.lock().unwrap();
    let num = |s: &str| s.parse::<u64>().ok();
    if let Some(r) = ev.strip_prefix('U') {
        return num(r).map(|id| g.new_peer_uni(id)).is_some();
    }
    if let Some(r) = ev.strip_prefix('B') {
        return num(r).map(|id| g.new_peer_bidi(id)).is_some();
    }
    if ev != "XU" {
        if let Some(r) = ev.strip_prefix('X') {
            return num(r).map(|c| g.lose(ConnLoss::AppClose(c))).is_some();
        }
    }
    if ev == "T" {
        g.lose(ConnLoss::Timeout);
        return true;
    }
    if ev == "XU" {
        g.lose(ConnLoss::Undefined);
        return true;
    }
    if ev == "ZS" {
        g.finish_honours_stop = true;
        return true;
    }
    if ev == "ZU" {
        g.finish_honours_stop = true;
        g.finish_stop_unknown = true;
        return true;
    }
    if let Some(r) = ev.strip_prefix("SEG") {
        return num(r).map(|n| g.seg = n as usize).is_some();
    }
    if ev == "I" {
        g.lose(ConnLoss::Internal);
        return true;
    }
    if let Some(r) = ev.strip_prefix('G') {
        return num(r).map(|n| g.grant_uni(n)).is_some();
    }
    if let Some(r) = ev.strip_prefix('H') {
        return num(r).map(|n| g.grant_bidi(n)).is_some();
    }
    if let Some(r) = ev.strip_prefix("D:") {
        // D:<hex> an HTTP datagram arrives (raw QUIC datagram payload)
        g.push_datagram(Bytes::from(crate::unhex(r)));
        return true;
    }
    if let Some(r) = ev.strip_prefix("W*:") {
        return num(r).map(|n| g.default_budget = Some(n)).is_some();
    }
    if let Some(r) = ev.strip_prefix('W') {
        let mut it = r.splitn(2, ':');
        if let (Some(a), Some(b)) = (it.next().and_then(num), it.next().and_then(num)) {
            g.grant_write(a, b);
            return true;
        }
        return false;
    }
    let mut it = ev.splitn(3, ':');
    let id = match it.next().and_then(num) {
        Some(i) => i,
        None => return false,
    };
    match it.next() {
        Some("c") => {
            let h = it.next().unwrap_or("");
            let b = crate::unhex(h);
            if b.is_empty() {
                return false;
            }
            g.push(id, Ev::Chunk(Bytes::from(b)));
            true
        }
        Some("F") => {
            g.push(id, Ev::Fin);
            true
        }
        Some("K") => {
            g.push(id, Ev::Unknown);
            true
        }
        Some(x) if x.starts_with('R') => num(&x[1..]).map(|c| g.push(id, Ev::Reset(c))).is_some(),
        Some(x) if x.starts_with('S') => num(&x[1..]).map(|c| g.peer_stop(id, c)).is_some(),
        Some(x) if x.starts_with('Z') => num(&x[1..]).map(|n| g.stream(id).finish_pending += n).is_some(),
        _ => false,
    }
}

// ------------------------------------------------------------------ transport handles

pub struct SimConn {
    pub world: Shared,
}

#[derive(Clone)]
pub struct SimOpener {
    pub world: Shared,
}

pub struct SimRecv {
    pub id: u64,
    pub world: Shared,
}

pub struct SimSend<B: Buf> {
    pub id: u64,
    pub world: Shared,
    writing: Option<WriteBuf<B>>,
}

pub struct SimBidi<B: Buf> {
    pub send: SimSend<B>,
    pub recv: SimRecv,
}

fn sid(id: u64) -> StreamId {
    StreamId::try_from(id).expect("stream id")
}

fn open_impl<B: Buf>(world: &Shared, cx: &mut Context<'_>, bidi: bool) -> Poll<Result<u64, StreamErrorIncoming>> {
    let mut g = world.lock().unwrap();
    if let Some(l) = &g.conn_lost {
        return Poll::Ready(Err(StreamErrorIncoming::ConnectionErrorIncoming {
            connection_error: l.to_incoming(),
        }));
    }
    let credit = if bidi { &mut g.bidi_credit } else { &mut g.uni_credit };
    if *credit == 0 {
        g.open_waker.push(cx.waker().clone());
        return Poll::Pending;
    }
    *credit -= 1;
    let id = if bidi {
        let i = g.next_bidi;
        g.next_bidi += 4;
        i
    } else {
        let i = g.next_uni;
        g.next_uni += 4;
        i
    };
    g.stream(id).local = true;
    g.log.push(format!("{} {}", if bidi { "open_bidi" } else { "open_uni" }, id));
    Poll::Ready(Ok(id))
}

impl<B: Buf> quic::OpenStreams<B> for SimOpener {
    type BidiStream = SimBidi<B>;
    type SendStream = SimSend<B>;
    fn poll_open_bidi(&mut self, cx: &mut Context<'_>) -> Poll<Result<Self::BidiStream, StreamErrorIncoming>> {
        match open_impl::<B>(&self.world, cx, true) {
            Poll::Ready(Ok(id)) => Poll::Ready(Ok(SimBidi {
                send: SimSend { id, world: self.world.clone(), writing: None },
                recv: SimRecv { id, world: self.world.clone() },
            })),
            Poll::Ready(Err(e)) => Poll::Ready(Err(e)),
            Poll::Pending => Poll::Pending,
        }
    }
    fn poll_open_send(&mut self, cx: &mut Context<'_>) -> Poll<Result<Self::SendStream, StreamErrorIncoming>> {
        match open_impl::<B>(&self.world, cx, false) {
            Poll::Ready(Ok(id)) => Poll::Ready(Ok(SimSend { id, world: self.world.clone(), writing: None })),
            Poll::Ready(Err(e)) => Poll::Ready(Err(e)),
            Poll::Pending => Poll::Pending,
        }
    }
    fn close(&mut self, code: h3::error::Code, reason: &[u8]) {
        let mut g = self.world.lock().unwrap();
        g.log.push(format!("close {} {}", code.value(), crate::hex(reason)));
        if g.closed.is_none() {
            g.closed = Some((code.value(), reason.to_vec()));
        }
    }
}

impl<B: Buf> quic::OpenStreams<B> for SimConn {
    type BidiStream = SimBidi<B>;
    type SendStream = SimSend<B>;
    fn poll_open_bidi(&mut self, cx: &mut Context<'_>) -> Poll<Result<Self::BidiStream, StreamErrorIncoming>> {
        <SimOpener as quic::OpenStreams<B>>::poll_open_bidi(&mut SimOpener { world: self.world.clone() }, cx)
    }
    fn poll_open_send(&mut self, cx: &mut Context<'_>) -> Poll<Result<Self::SendStream, StreamErrorIncoming>> {
        <SimOpener as quic::OpenStreams<B>>::poll_open_send(&mut SimOpener { world: self.world.clone() }, cx)
    }
    fn close(&mut self, code: h3::error::Code, reason: &[u8]) {
        <SimOpener as quic::OpenStreams<B>>::close(&mut SimOpener { world: self.world.clone() }, code, reason)
    }
}

impl<B: Buf> quic::Connection<B> for SimConn {
    type RecvStream = SimRecv;
    type OpenStreams = SimOpener;
    fn poll_accept_recv(&mut self, cx: &mut Context<'_>) -> Poll<Result<Self::RecvStream, ConnectionErrorIncoming>> {
        let mut g = self.world.lock().unwrap();
        if let Some(id) = g.incoming_uni.pop_front() {
            return Poll::Ready(Ok(SimRecv { id, world: self.world.clone() }));
        }
        if let Some(l) = &g.conn_lost {
            return Poll::Ready(Err(l.to_incoming()));
        }
        g.accept_uni_waker = Some(cx.waker().clone());
        Poll::Pending
    }
    fn poll_accept_bidi(&mut self, cx: &mut Context<'_>) -> Poll<Result<Self::BidiStream, ConnectionErrorIncoming>> {
        let mut g = self.world.lock().unwrap();
        if let Some(id) = g.incoming_bidi.pop_front() {
            return Poll::Ready(Ok(SimBidi {
                send: SimSend { id, world: self.world.clone(), writing: None },
                recv: SimRecv { id, world: self.world.clone() },
            }));
        }
        if let Some(l) = &g.conn_lost {
            return Poll::Ready(Err(l.to_incoming()));
        }
        g.accept_bidi_waker = Some(cx.waker().clone());
        Poll::Pending
    }
    fn opener(&self) -> Self::OpenStreams {
        SimOpener { world: self.world.clone() }
    }
}

/// What SimQuic hands to h3 for one delivered chunk: one or several contiguous segments (`SEG<n>`).
#[derive(Debug, Clone)]
pub struct SegBuf {
    segs: VecDeque<Bytes>,
}

impl SegBuf {
    pub fn cut(b: Bytes, seg: usize) -> SegBuf {
        let mut segs = VecDeque::new();
        if seg == 0 || b.len() <= seg {
            segs.push_back(b);
        } else {
            let mut rest = b;
            while rest.len() > seg {
                segs.push_back(rest.split_to(seg));
            }
            segs.push_back(rest);
        }
        SegBuf { segs }
    }
}

impl Buf for SegBuf {
    fn remaining(&self) -> usize {
        self.segs.iter().map(|c| c.len()).sum()
    }
    fn chunk(&self) -> &[u8] {
        self.segs.front().map(|c| &c[..]).unwrap_or(&[])
    }
    fn advance(&mut self, mut cnt: usize) {
        while cnt > 0 {
            let front = self.segs.front_mut().expect("advance past the end of SegBuf");
            if cnt < front.len() {
                Buf::advance(front, cnt);
                return;
            }
            cnt -= front.len();
            self.segs.pop_front();
        }
    }
}

impl quic::RecvStream for SimRecv {
    type Buf = SegBuf;
    fn poll_data(&mut self, cx: &mut Context<'_>) -> Poll<Result<Option<SegBuf>, StreamErrorIncoming>> {
        let mut g = self.world.lock().unwrap();
        let lost = g.conn_lost.clone();
        let seg = g.seg;
        let s = g.stream(self.id);
        match s.rx.front().cloned() {
            Some(Ev::Chunk(b)) => {
                s.rx.pop_front();
                Poll::Ready(Ok(Some(SegBuf::cut(b, seg))))
            }
            Some(Ev::Fin) => Poll::Ready(Ok(None)),
            Some(Ev::Reset(c)) => Poll::Ready(Err(StreamErrorIncoming::StreamTerminated { error_code: c })),
            Some(Ev::Unknown) => Poll::Ready(Err(StreamErrorIncoming::Unknown("sim unknown stream error".into()))),
            None => {
                if let Some(l) = lost {
                    return Poll::Ready(Err(StreamErrorIncoming::ConnectionErrorIncoming {
                        connection_error: l.to_incoming(),
                    }));
                }
                s.rx_waker = Some(cx.waker().clone());
                Poll::Pending
            }
        }
    }
    fn stop_sending(&mut self, error_code: u64) {
        let mut g = self.world.lock().unwrap();
        g.log.push(format!("stop {} {}", self.id, error_code));
        let s = g.stream(self.id);
        if s.stopped.is_none() {
            s.stopped = Some(error_code);
        }
    }
    fn recv_id(&self) -> StreamId {
        sid(self.id)
    }
}

fn write_some<D: Buf>(world: &Shared, id: u64, cx: &mut Context<'_>, buf: &mut D) -> Poll<Result<usize, StreamErrorIncoming>> {
    let mut g = world.lock().unwrap();
    let lost = g.conn_lost.clone();
    let s = g.stream(id);
    if let Some(c) = s.peer_stop {
        return Poll::Ready(Err(StreamErrorIncoming::StreamTerminated { error_code: c }));
    }
    if let Some(l) = lost {
        return Poll::Ready(Err(StreamErrorIncoming::ConnectionErrorIncoming {
            connection_error: l.to_incoming(),
        }));
    }
    let chunk = buf.chunk();
    if chunk.is_empty() {
        return Poll::Ready(Ok(0));
    }
    let n = match s.tx_budget {
        None => chunk.len(),
        Some(0) => {
            s.tx_waker = Some(cx.waker().clone());
            return Poll::Pending;
        }
        Some(k) => (k as usize).min(chunk.len()),
    };
    s.tx.extend_from_slice(&chunk[..n]);
    if let Some(k) = s.tx_budget.as_mut() {
        *k -= n as u64;
    }
    buf.advance(n);
    Poll::Ready(Ok(n))
}

impl<B: Buf> quic::SendStream<B> for SimSend<B> {
    fn poll_ready(&mut self, cx: &mut Context<'_>) -> Poll<Result<(), StreamErrorIncoming>> {
        if let Some(mut data) = self.writing.take() {
            while data.has_remaining() {
                match write_some(&self.world, self.id, cx, &mut data) {
                    Poll::Ready(Ok(0)) => {
                        // a Buf that claims remaining bytes but shows an empty chunk: contract violation by h3
                        panic!("WriteBuf has remaining() > 0 but an empty chunk()");
                    }
                    Poll::Ready(Ok(_)) => {}
                    Poll::Ready(Err(e)) => return Poll::Ready(Err(e)),
                    Poll::Pending => {
                        self.writing = Some(data);
                        return Poll::Pending;
                    }
                }
            }
        }
        Poll::Ready(Ok(()))
    }
    fn send_data<T: Into<WriteBuf<B>>>(&mut self, data: T) -> Result<(), StreamErrorIncoming> {
        if self.writing.is_some() {
            return Err(StreamErrorIncoming::Unknown("send_data called while not ready".into()));
        }
        self.writing = Some(data.into());
        Ok(())
    }
    fn poll_finish(&mut self, cx: &mut Context<'_>) -> Poll<Result<(), StreamErrorIncoming>> {
        let mut g = self.world.lock().unwrap();
        let lost = g.conn_lost.clone();
        if let Some(l) = lost {
            return Poll::Ready(Err(StreamErrorIncoming::ConnectionErrorIncoming {
                connection_error: l.to_incoming(),
            }));
        }
        let (honour, unknown) = (g.finish_honours_stop, g.finish_stop_unknown);
        let s = g.stream(self.id);
        if s.finish_pending > 0 {
            s.finish_pending -= 1;
            cx.waker().wake_by_ref();
            return Poll::Pending;
        }
        if honour {
            if let Some(c) = s.peer_stop {
                return Poll::Ready(Err(if unknown {
                    StreamErrorIncoming::Unknown("finish: stream stopped by peer".into())
                } else {
                    StreamErrorIncoming::StreamTerminated { error_code: c }
                }));
            }
        }
        if !s.finished {
            s.finished = true;
            g.log.push(format!("fin {}", self.id));
        }
        Poll::Ready(Ok(()))
    }
    fn reset(&mut self, reset_code: u64) {
        let mut g = self.world.lock().unwrap();
        g.log.push(format!("reset {} {}", self.id, reset_code));
        let s = g.stream(self.id);
        if s.reset.is_none() {
            s.reset = Some(reset_code);
        }
    }
    fn send_id(&self) -> StreamId {
        sid(self.id)
    }
}

impl<B: Buf> quic::SendStreamUnframed<B> for SimSend<B> {
    fn poll_send<D: Buf>(&mut self, cx: &mut Context<'_>, buf: &mut D) -> Poll<Result<usize, StreamErrorIncoming>> {
        if self.writing.is_some() {
            panic!("poll_send called while a framed write is in flight");
        }
        write_some(&self.world, self.id, cx, buf)
    }
}

impl<B: Buf> quic::SendStream<B> for SimBidi<B> {
    fn poll_ready(&mut self, cx: &mut Context<'_>) -> Poll<Result<(), StreamErrorIncoming>> {
        self.send.poll_ready(cx)
    }
    fn send_data<T: Into<WriteBuf<B>>>(&mut self, data: T) -> Result<(), StreamErrorIncoming> {
        self.send.send_data(data)
    }
    fn poll_finish(&mut self, cx: &mut Context<'_>) -> Poll<Result<(), StreamErrorIncoming>> {
        self.send.poll_finish(cx)
    }
    fn reset(&mut self, reset_code: u64) {
        self.send.reset(reset_code)
    }
    fn send_id(&self) -> StreamId {
        sid(self.send.id)
    }
}

impl<B: Buf> quic::SendStreamUnframed<B> for SimBidi<B> {
    fn poll_send<D: Buf>(&mut self, cx: &mut Context<'_>, buf: &mut D) -> Poll<Result<usize, StreamErrorIncoming>> {
        self.send.poll_send(cx, buf)
    }
}

impl<B: Buf> quic::RecvStream for SimBidi<B> {
    type Buf = SegBuf;
    fn poll_data(&mut self, cx: &mut Context<'_>) -> Poll<Result<Option<SegBuf>, StreamErrorIncoming>> {
        self.recv.poll_data(cx)
    }
    fn stop_sending(&mut self, error_code: u64) {
        self.recv.stop_sending(error_code)
    }
    fn recv_id(&self) -> StreamId {
        sid(self.recv.id)
    }
}

impl<B: Buf> quic::BidiStream<B> for SimBidi<B> {
    type SendStream = SimSend<B>;
    type RecvStream = SimRecv;
    fn split(self) -> (Self::SendStream, Self::RecvStream) {
        (self.send, self.recv)
    }
}

// ------------------------------------------------------------------ datagram extension

pub struct SimDgramSend {
    pub world: Shared,
}
pub struct SimDgramRecv {
    pub world: Shared,
}

impl<B: Buf> h3_datagram::quic_traits::DatagramConnectionExt<B> for SimConn {
    type SendDatagramHandler = SimDgramSend;
    type RecvDatagramHandler = SimDgramRecv;
    fn send_datagram_handler(&self) -> SimDgramSend {
        SimDgramSend { world: self.world.clone() }
    }
    fn recv_datagram_handler(&self) -> SimDgramRecv {
        SimDgramRecv { world: self.world.clone() }
    }
}

impl<B: Buf> h3_datagram::quic_traits::SendDatagram<B> for SimDgramSend {
    fn send_datagram<T: Into<h3_datagram::datagram::EncodedDatagram<B>>>(
        &mut self,
        data: T,
    ) -> Result<(), h3_datagram::quic_traits::SendDatagramErrorIncoming> {
        use h3_datagram::quic_traits::SendDatagramErrorIncoming as E;
        let mut d: h3_datagram::datagram::EncodedDatagram<B> = data.into();
        let mut g = self.world.lock().unwrap();
        if let Some(l) = &g.conn_lost {
            return Err(E::ConnectionError(l.to_incoming()));
        }
        match g.dgram_limit {
            Some(0) => return Err(E::NotAvailable),
            Some(k) if d.remaining() > k => return Err(E::TooLarge),
            _ => {}
        }
        let mut v = Vec::with_capacity(d.remaining());
        while d.has_remaining() {
            let c = d.chunk();
            let n = c.len();
            assert!(n > 0, "EncodedDatagram has remaining() > 0 but an empty chunk()");
            v.extend_from_slice(c);
            d.advance(n);
        }
        g.dgram_tx.push(v);
        Ok(())
    }
}

impl h3_datagram::quic_traits::RecvDatagram for SimDgramRecv {
    type Buffer = Bytes;
    fn poll_incoming_datagram(&mut self, cx: &mut Context<'_>) -> Poll<Result<Bytes, ConnectionErrorIncoming>> {
        let mut g = self.world.lock().unwrap();
        if let Some(b) = g.dgram_rx.pop_front() {
            return Poll::Ready(Ok(b));
        }
        if let Some(l) = &g.conn_lost {
            return Poll::Ready(Err(l.to_incoming()));
        }
        g.dgram_waker = Some(cx.waker().clone());
        Poll::Pending
    }
}

// ------------------------------------------------------------------ linking two worlds

/// Moves up to `max` not-yet-delivered bytes that `from` wrote on stream `id` to `to`'s receive
/// side as ONE chunk (announcing the stream to `to` first if it is new there); also forwards
/// FIN / RESET / STOP_SENDING once all bytes are delivered.  Returns the number of bytes moved.
pub fn pump(from: &Shared, to: &Shared, id: u64, max: usize) -> usize {
    let (bytes, fin, reset, stop) = {
        let mut f = from.lock().unwrap();
        let s = match f.streams.get_mut(&id) {
            Some(s) => s,
            None => return 0,
        };
        let avail = s.tx.len() - s.pumped;
        let n = avail.min(max);
        let b = s.tx[s.pumped..s.pumped + n].to_vec();
        s.pumped += n;
        let all = s.pumped == s.tx.len();
        let fin = all && s.finished && !s.fin_pumped;
        let reset = if !s.fin_pumped { s.reset } else { None };
        if fin || reset.is_some() {
            s.fin_pumped = true;
        }
        (b, fin, reset, s.stopped.take())
    };
    let mut t = to.lock().unwrap();
    let known = t.streams.contains_key(&id);
    if !known && (!bytes.is_empty() || fin || reset.is_some()) {
        if id & 2 == 0 {
            t.new_peer_bidi(id)
        } else {
            t.new_peer_uni(id)
        }
    }
    let n = bytes.len();
    if n > 0 {
        t.push(id, Ev::Chunk(Bytes::from(bytes)));
    }
    if let Some(c) = reset {
        t.push(id, Ev::Reset(c));
    } else if fin {
        t.push(id, Ev::Fin);
    }
    if let Some(c) = stop {
        t.peer_stop(id, c);
    }
    n
}

// ------------------------------------------------------------------ executor

struct Flag(AtomicBool);
impl Wake for Flag {
    fn wake(self: Arc<Self>) {
        self.0.store(true, Ordering::SeqCst);
    }
    fn wake_by_ref(self: &Arc<Self>) {
        self.0.store(true, Ordering::SeqCst);
    }
}

/// One waker per poll (all of a task's wakers set the task's flag): a registration anywhere - SimQuic, a tokio
/// channel, h3's AtomicWaker - has to CLONE the waker it was polled with, because it cannot be the one stored before.
struct PollWaker(Arc<Flag>);
impl Wake for PollWaker {
    fn wake(self: Arc<Self>) {
        self.0 .0.store(true, Ordering::SeqCst);
    }
    fn wake_by_ref(self: &Arc<Self>) {
        self.0 .0.store(true, Ordering::SeqCst);
    }
}

thread_local! {
    static LOST_WAKEUPS: std::cell::Cell<u32> = std::cell::Cell::new(0);
    static HARNESS_YIELD: std::cell::Cell<bool> = std::cell::Cell::new(false);
}
/// a gate of the harness itself (not h3) is about to answer Pending without arranging a wake-up
pub fn harness_yield() {
    HARNESS_YIELD.with(|h| h.set(true));
}
/// number of task polls since the last call that answered Pending although the waker they were polled with was neither
/// cloned (registered somewhere) nor woken: under a wake-driven executor such a task is never polled again
pub fn take_lost_wakeups() -> u32 {
    LOST_WAKEUPS.with(|l| l.replace(0))
}
fn lostwake_enabled() -> bool {
    thread_local! { static ON: bool = std::env::var("H3V_LOSTWAKE").map(|v| v == "1").unwrap_or(false); }
    ON.with(|o| *o)
}

pub type Task = Pin<Box<dyn Future<Output = String>>>;

pub struct Exec {
    tasks: Vec<Option<Task>>,
    flags: Vec<Arc<Flag>>,
    results: Vec<Option<String>>,
    pub polls: u64,
}

impl Default for Exec {
    fn default() -> Self {
        Self::new()
    }
}

impl Exec {
    pub fn new() -> Self {
        Exec { tasks: Vec::new(), flags: Vec::new(), results: Vec::new(), polls: 0 }
    }
    /// adds a task (initially flagged as woken) and returns its index
    pub fn spawn<F: Future<Output = String> + 'static>(&mut self, f: F) -> usize {
        self.tasks.push(Some(Box::pin(f)));
        self.flags.push(Arc::new(Flag(AtomicBool::new(true))));
        self.results.push(None);
        self.tasks.len() - 1
    }
    /// polls task `i` once (whether or not it was woken); returns true if it completed now
    pub fn poll(&mut self, i: usize) -> bool {
        let fut = match self.tasks[i].as_mut() {
            Some(f) => f,
            None => return false,
        };
        self.flags[i].0.store(false, Ordering::SeqCst);
        let pw = Arc::new(PollWaker(self.flags[i].clone()));
        // without H3V_LOSTWAKE=1 the task keeps one waker for all its polls, exactly as before
        let waker = if lostwake_enabled() { Waker::from(pw.clone()) } else { Waker::from(self.flags[i].clone()) };
        let mut cx = Context::from_waker(&waker);
        self.polls += 1;
        HARNESS_YIELD.with(|h| h.set(false));
        match fut.as_mut().poll(&mut cx) {
            Poll::Ready(s) => {
                self.results[i] = Some(s);
                self.tasks[i] = None;
                true
            }
            Poll::Pending => {
                if lostwake_enabled() {
                    // `pw` and `waker` hold one reference each; any registration holds a third
                    let registered = Arc::strong_count(&pw) > 2;
                    let woken = self.flags[i].0.load(Ordering::SeqCst);
                    let gate = HARNESS_YIELD.with(|h| h.get());
                    if !registered && !woken && !gate {
                        LOST_WAKEUPS.with(|l| l.set(l.get() + 1));
                    }
                }
                false
            }
        }
    }
    pub fn is_woken(&self, i: usize) -> bool {
        self.tasks[i].is_some() && self.flags[i].0.load(Ordering::SeqCst)
    }
    /// round-robin until no live task is flagged; false = gave up after `limit` polls (livelock)
    pub fn run(&mut self) -> bool {
        let limit = self.polls + 200_000;
        loop {
            let mut any = false;
            for i in 0..self.tasks.len() {
                if self.is_woken(i) {
                    any = true;
                    self.poll(i);
                }
            }
            if !any {
                return true;
            }
            if self.polls > limit {
                return false;
            }
        }
    }
    pub fn result(&self, i: usize) -> Option<&String> {
        self.results[i].as_ref()
    }
    pub fn done(&self, i: usize) -> bool {
        self.tasks[i].is_none()
    }
    /// drops a task's future (models the application dropping the handles it owns)
    pub fn cancel(&mut self, i: usize) {
        self.tasks[i] = None;
    }
    pub fn len(&self) -> usize {
        self.tasks.len()
    }
    pub fn is_empty(&self) -> bool {
        self.tasks.is_empty()
    }
}

/// Canonical rendering of the errors h3 hands to applications: `<scope>:<code>:<variant>`
/// where scope is `c` (connection) or `s` (stream).
pub fn conn_err(e: &h3::error::ConnectionError) -> String {
    let d = format!("{:?}", e);
    let variant = d.split(|c: char| !c.is_alphanumeric()).next().unwrap_or("?").to_string();
    format!("c:{}:{}", code_in(&d), variant)
}

pub fn stream_err(e: &h3::error::StreamError) -> String {
    let d = format!("{:?}", e);
    let variant = d.split(|c: char| !c.is_alphanumeric()).next().unwrap_or("?").to_string();
    if d.starts_with("ConnectionError") {
        // StreamError::ConnectionError(inner)
        let inner = &d["ConnectionError".len()..];
        let inner = inner.trim_start_matches('(');
        let v2 = inner.split(|c: char| !c.is_alphanumeric()).next().unwrap_or("?");
        return format!("c:{}:{}", code_in(&d), v2);
    }
    format!("s:{}:{}", code_in(&d), variant)
}

fn code_in(d: &str) -> String {
    // Debug renderings carry either `code: NAME`, `ApplicationClose(NAME)` / `ApplicationClose: NAME`,
    // `error_code: N` or no code at all
    for key in ["code: ", "ApplicationClose(", "ApplicationClose: ", "error_code: "] {
        if let Some(i) = d.find(key) {
            let rest = &d[i + key.len()..];
            let end = rest.find(|c: char| !(c.is_alphanumeric() || c == '_')).unwrap_or(rest.len());
            let name = &rest[..end];
            if let Ok(n) = name.parse::<u64>() {
                return n.to_string();
            }
            let v = crate::code_value(&format!("code: {}", name));
            if !v.starts_with('?') {
                return v;
            }
        }
    }
    "-".to_string()
}
