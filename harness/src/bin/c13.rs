//! C13: SETTINGS are sent, parsed and applied exactly.
//! Pure cases (`st.ins`, `st.dec`, `dflt`) call the codec directly; `cfg` and `rx` drive the real
//! client/server builders and connections over SimQuic.
use bytes::{Buf, Bytes};
use h3::error::internal_error::InternalConnectionError;
use h3::frame::FrameProtocolError;
use h3::proto::frame::{Frame, FrameError, PayloadLen, SettingId, Settings};
use h3::stream::{UniStreamHeader, WriteBuf};
use h3::{ConnectionState, SharedState};
use h3v::simquic::*;
use h3v::{code_value, hex, run_lines, unhex, ChunkBuf};
use std::cell::RefCell;
use std::rc::Rc;
use std::sync::Arc;

const GET_IDS: [u64; 8] = [0, 1, 6, 7, 8, 51, 727725890, 727725891];

fn field(d: &str, name: &str) -> String {
    let key = format!("{}: ", name);
    match d.find(&key) {
        Some(i) => {
            let rest = &d[i + key.len()..];
            let end = rest.find(|c: char| c == ',' || c == ' ' || c == '}').unwrap_or(rest.len());
            rest[..end].to_string()
        }
        None => "?".to_string(),
    }
}

fn b01(s: String) -> &'static str {
    match s.as_str() {
        "true" => "1",
        "false" => "0",
        _ => "?",
    }
}

/// the values in force, read from `ConnectionState::settings()`
fn applied<S: ConnectionState>(st: &S) -> String {
    let s = st.settings();
    let d = format!("{:?}", s);
    // the three public accessors must agree with the Debug rendering
    let (wt, ec, dg) = (
        b01(field(&d, "enable_webtransport")),
        b01(field(&d, "enable_extended_connect")),
        b01(field(&d, "enable_datagram")),
    );
    if (wt == "1") != s.enable_webtransport() || (ec == "1") != s.enable_extended_connect() || (dg == "1") != s.enable_datagram() {
        return "accessor-mismatch".to_string();
    }
    format!(
        "mfs={} wt={} ec={} dg={} wtmax={}",
        field(&d, "max_field_section_size"),
        wt,
        ec,
        dg,
        field(&d, "max_webtransport_sessions")
    )
}

fn gets(s: &Settings) -> String {
    GET_IDS
        .iter()
        .map(|id| match s.get(SettingId(*id)) {
            Some(v) => format!("g{}={}", id, v),
            None => format!("g{}=-", id),
        })
        .collect::<Vec<_>>()
        .join(" ")
}

fn varint(form: usize, n: u64) -> Vec<u8> {
    let form = if form == 0 {
        if n < 64 {
            1
        } else if n < 16384 {
            2
        } else if n < (1 << 30) {
            4
        } else {
            8
        }
    } else {
        form
    };
    match form {
        1 => vec![n as u8],
        2 => ((n as u16) | 0x4000).to_be_bytes().to_vec(),
        4 => ((n as u32) | 0x8000_0000).to_be_bytes().to_vec(),
        _ => (n | 0xc000_0000_0000_0000).to_be_bytes().to_vec(),
    }
}

fn settings_frame(form: usize, payload: &[u8]) -> Vec<u8> {
    let mut b = vec![4u8];
    b.extend(varint(form, payload.len() as u64));
    b.extend_from_slice(payload);
    b
}

fn code_of_conn_err(e: &h3::error::ConnectionError) -> String {
    // conn_err renders `c:<code>:<variant>`
    conn_err(e).split(':').nth(1).unwrap_or("?").to_string()
}

fn side_of(role: &str) -> Side {
    if role == "c" {
        Side::Client
    } else {
        Side::Server
    }
}

/// runs until quiescence, granting `q` more bytes of write budget to every local stream between rounds (q = 0: unlimited)
fn drive(ex: &mut Exec, w: &Shared, q: u64, done: &dyn Fn() -> bool) {
    for _ in 0..400 {
        ex.run();
        if q == 0 || done() {
            break;
        }
        let ids = w.lock().unwrap().local_streams();
        for id in ids {
            w.lock().unwrap().grant_write(id, q);
        }
    }
    ex.run();
}

/// `close=<code the peer sees (first close)>x<number of close calls>`
fn closes(g: &World) -> String {
    let n = g.log.iter().filter(|l| l.starts_with("close ")).count();
    match &g.closed {
        Some((c, _)) => format!("close={}x{}", c, n),
        None => "close=-".to_string(),
    }
}

/// NAME=V,... in call order
fn parse_calls(s: &str) -> Vec<(String, u64)> {
    if s == "-" {
        return vec![];
    }
    s.split(',')
        .map(|p| {
            let mut it = p.split('=');
            (it.next().unwrap().to_string(), it.next().unwrap().parse().unwrap())
        })
        .collect()
}

fn client_calls(b: &mut h3::client::Builder, calls: &[(String, u64)]) {
    for (n, v) in calls {
        match n.as_str() {
            "mfs" => b.max_field_section_size(*v),
            "grease" => b.send_grease(*v != 0),
            "ec" => b.enable_extended_connect(*v != 0),
            "dg" => b.enable_datagram(*v != 0),
            other => panic!("client builder has no setter {}", other),
        };
    }
}

fn server_calls(b: &mut h3::server::Builder, calls: &[(String, u64)]) {
    for (n, v) in calls {
        match n.as_str() {
            "mfs" => b.max_field_section_size(*v),
            "grease" => b.send_grease(*v != 0),
            "wt" => b.enable_webtransport(*v != 0),
            "ec" => b.enable_extended_connect(*v != 0),
            "dg" => b.enable_datagram(*v != 0),
            "wtmax" => b.max_webtransport_sessions(*v),
            other => panic!("server builder has no setter {}", other),
        };
    }
}

fn main() {
    run_lines(|ws| match ws {
        ["st.ins", ps] => {
            let mut s = Settings::default();
            if *ps != "-" {
                for p in ps.split(',') {
                    let mut it = p.split(':');
                    let id: u64 = it.next().unwrap().parse().unwrap();
                    let v: u64 = it.next().unwrap().parse().unwrap();
                    if s.insert(SettingId(id), v).is_err() {
                        return "err".into();
                    }
                }
            }
            let g = gets(&s);
            let shared = SharedState::default();
            shared.set_settings((&s).into());
            let a = applied(&shared);
            let mut w = WriteBuf::<Bytes>::from(UniStreamHeader::Control(s));
            let mut out = Vec::new();
            let mut guard = 1000;
            while w.has_remaining() && guard > 0 {
                guard -= 1;
                let n = {
                    let c = w.chunk();
                    out.extend_from_slice(c);
                    c.len()
                };
                if n == 0 {
                    return "empty-chunk".into();
                }
                w.advance(n);
            }
            format!("ok {} {} {}", hex(&out), g, a)
        }
        ["st.dec", form, payload, rest, split] => {
            let p = unhex(payload);
            let r = unhex(rest);
            let mut bytes = settings_frame(form.parse().unwrap(), &p);
            bytes.extend_from_slice(&r);
            // SPLIT = 0 (contiguous) or dot-separated cut positions: the decoder sees a non-contiguous Buf
            let mut cuts: Vec<usize> = split
                .split('.')
                .map(|x| x.parse::<usize>().unwrap())
                .filter(|c| *c > 0 && *c < bytes.len())
                .collect();
            cuts.sort_unstable();
            cuts.dedup();
            let mut chunks = Vec::new();
            let mut prev = 0;
            for c in cuts {
                chunks.push(Bytes::copy_from_slice(&bytes[prev..c]));
                prev = c;
            }
            chunks.push(Bytes::copy_from_slice(&bytes[prev..]));
            let mut buf = ChunkBuf::new(chunks);
            match Frame::<PayloadLen>::decode(&mut buf) {
                Ok(Frame::Settings(s)) => {
                    let shared = SharedState::default();
                    shared.set_settings((&s).into());
                    format!("ok {} {} rest={}", gets(&s), applied(&shared), buf.remaining())
                }
                Ok(_) => "other".into(),
                Err(FrameError::Settings(e)) => {
                    let ice = InternalConnectionError::got_frame_error(FrameProtocolError::Settings(e));
                    format!("err {}", code_value(&format!("{:?}", ice)))
                }
                Err(FrameError::Incomplete(_)) => "incomplete".into(),
                Err(e) => format!("err-frame {:?}", e),
            }
        }
        ["dflt"] => format!("ok {}", applied(&SharedState::default())),
        ["cfg", role, calls, _g, q] => {
            let q: u64 = q.parse().unwrap();
            let calls = parse_calls(calls);
            let w = World::new(side_of(role), 100, 100, if q == 0 { None } else { Some(0) });
            let mut ex = Exec::new();
            let res: Rc<RefCell<Option<String>>> = Rc::new(RefCell::new(None));
            let (w2, res2, client) = (w.clone(), res.clone(), *role == "c");
            ex.spawn(async move {
                if client {
                    let mut b = h3::client::builder();
                    client_calls(&mut b, &calls);
                    match b.build::<_, _, Bytes>(SimConn { world: w2 }).await {
                        Ok(_keep) => {
                            *res2.borrow_mut() = Some("ok".into());
                            std::future::pending::<()>().await;
                        }
                        Err(e) => *res2.borrow_mut() = Some(format!("err {}", code_of_conn_err(&e))),
                    }
                } else {
                    let mut b = h3::server::builder();
                    server_calls(&mut b, &calls);
                    match b.build::<_, Bytes>(SimConn { world: w2 }).await {
                        Ok(_keep) => {
                            *res2.borrow_mut() = Some("ok".into());
                            std::future::pending::<()>().await;
                        }
                        Err(e) => *res2.borrow_mut() = Some(format!("err {}", code_of_conn_err(&e))),
                    }
                }
                String::new()
            });
            let res3 = res.clone();
            drive(&mut ex, &w, q, &move || res3.borrow().is_some());
            let r = res.borrow().clone();
            match r {
                None => "pending".into(),
                Some(s) if s == "ok" => {
                    let g = w.lock().unwrap();
                    if g.closed.is_some() {
                        return format!("ok-but-closed {}", closes(&g));
                    }
                    // the control stream is the locally opened stream whose first byte is the CONTROL stream type
                    let ctl: Vec<Vec<u8>> = g
                        .local_streams()
                        .into_iter()
                        .map(|id| g.tx_of(id))
                        .filter(|b| b.first() == Some(&0u8))
                        .collect();
                    if ctl.len() == 1 {
                        format!("ok {}", hex(&ctl[0]))
                    } else {
                        format!("ok control-streams={}", ctl.len())
                    }
                }
                Some(s) => format!("{} {}", s, closes(&w.lock().unwrap())),
            }
        }
        ["rx", role, calls, form, payload, tail, chunk, pre] => {
            let p = unhex(payload);
            let tail = unhex(tail);
            let chunk: usize = chunk.parse().unwrap();
            let client = *role == "c";
            let calls = parse_calls(calls);
            let w = World::new(side_of(role), 100, 100, None);
            let mut ex = Exec::new();
            let res: Rc<RefCell<Option<String>>> = Rc::new(RefCell::new(None));
            let shared: Rc<RefCell<Option<Arc<SharedState>>>> = Rc::new(RefCell::new(None));
            let (w2, res2, shared2) = (w.clone(), res.clone(), shared.clone());
            ex.spawn(async move {
                if client {
                    let mut b = h3::client::builder();
                    client_calls(&mut b, &calls);
                    match b.build::<_, _, Bytes>(SimConn { world: w2 }).await {
                        Ok((mut conn, _send)) => {
                            *shared2.borrow_mut() = Some(conn.inner.shared.clone());
                            let e = futures_util::future::poll_fn(|cx| conn.poll_close(cx)).await;
                            *res2.borrow_mut() = Some(format!("err {}", code_of_conn_err(&e)));
                            // keep the connection alive: dropping it is not part of the observation
                            std::future::pending::<()>().await;
                        }
                        Err(e) => *res2.borrow_mut() = Some(format!("build-err {}", code_of_conn_err(&e))),
                    }
                } else {
                    let mut b = h3::server::builder();
                    server_calls(&mut b, &calls);
                    match b.build::<_, Bytes>(SimConn { world: w2 }).await {
                        Ok(mut conn) => {
                            *shared2.borrow_mut() = Some(conn.inner.shared.clone());
                            match conn.accept().await {
                                Ok(Some(_)) => *res2.borrow_mut() = Some("request".into()),
                                Ok(None) => *res2.borrow_mut() = Some("accept-none".into()),
                                Err(e) => *res2.borrow_mut() = Some(format!("err {}", code_of_conn_err(&e))),
                            }
                            std::future::pending::<()>().await;
                        }
                        Err(e) => *res2.borrow_mut() = Some(format!("build-err {}", code_of_conn_err(&e))),
                    }
                }
                String::new()
            });
            ex.run();
            let before = match shared.borrow().as_ref() {
                Some(s) => applied(&**s),
                None => "no-conn".to_string(),
            };
            if before != applied(&SharedState::default()) {
                return format!("defaults-not-in-force {}", before);
            }
            // the peer's control stream: type 00, then the SETTINGS frame, then TAIL
            // PRE: other uni streams the peer opens (and partly fills) BEFORE its control stream; comma-separated hex of
            // the bytes delivered on each (`0` = opened, nothing delivered yet, `-` = no such streams).  They stay silent.
            let mut id: u64 = if client { 3 } else { 2 };
            if *pre != "-" {
                for item in pre.split(',') {
                    apply_event(&w, &format!("U{}", id));
                    if item != "0" {
                        apply_event(&w, &format!("{}:c:{}", id, item));
                    }
                    ex.run();
                    id += 4;
                }
            }
            let mut bytes = vec![0u8];
            bytes.extend(settings_frame(form.parse().unwrap(), &p));
            bytes.extend_from_slice(&tail);
            apply_event(&w, &format!("U{}", id));
            ex.run();
            let step = if chunk == 0 { bytes.len() } else { chunk };
            for c in bytes.chunks(step) {
                apply_event(&w, &format!("{}:c:{}", id, hex(c)));
                ex.run();
            }
            let r = res.borrow().clone();
            let g = w.lock().unwrap();
            match r {
                Some(s) => format!("{} {}", s, closes(&g)),
                None => {
                    if g.closed.is_some() {
                        return format!("ok-but-closed {}", closes(&g));
                    }
                    match shared.borrow().as_ref() {
                        Some(s) => format!("ok {}", applied(&**s)),
                        None => "no-conn".into(),
                    }
                }
            }
        }
        _ => "driver-error unknown-case".into(),
    });
}
