//! C13: SETTINGS are sent, parsed and applied exactly.
//! Pure cases (`st.ins`, `st.dec`, `dflt`) call the codec directly; `cfg` and `rx` drive the real
//! client/server builders and connections over SimQuic.
use bytes::{Buf, Bytes};
use h3::error::internal_error::InternalConnectionError;
use h3::frame::FrameProtocolError;
use h3::proto::frame::{Frame, FrameError, PayloadLen, SettingId, Settings};
use h3::stream::{UniStreamHeader, WriteBuf};
use h3::{ConnectionState, SharedState};
use h3v::simquic::*;
use h3v::{code_value, hex, run_lines, unhex, ChunkBuf};
use std::cell::RefCell;
use std::rc::Rc;
use std::sync::Arc;

const GET_IDS: [u64; 8] = [0, 1, 6, 7, 8, 51, 727725890, 727725891];

fn field(d: &str, name: &str) -> String {
    let key = format!("{}: ", name);
    match d.find(&key) {
        Some(i) => {
            let rest = &d[i + key.len()..];
            let end = rest.find(|c: char| c == ',' || c == ' ' || c == '}').unwrap_or(rest.len());
            rest[..end].to_string()
        }
        None => "?".to_string(),
    }
}

fn b01(s: String) -> &'static str {
    match s.as_str() {
        "true" => "1",
        "false" => "0",
        _ => "?",
    }
}

/// the values in force, read from `ConnectionState::settings()`
fn applied<S: ConnectionState>(st: &S) -> String {
    let s = st.settings();
    let d = format!("{:?}", s);
    // the three public accessors must agree with the Debug rendering
    let (wt, ec, dg) = (
        b01(field(&d, "enable_webtransport")),
        b01(field(&d, "enable_extended_connect")),
        b01(field(&d, "enable_datagram")),
    );
    if (wt == "1") != s.enable_webtransport() || (ec == "1") != s.enable_extended_connect() || (dg == "1") != s.enable_datagram() {
        return "accessor-mismatch".to_string();
    }
    format!(
        "mfs={} wt={} ec={} dg={} wtmax={}",
        field(&d, "max_field_section_size"),
        wt,
        ec,
        dg,
        field(&d, "max_webtransport_sessions")
    )
}

fn gets(s: &Settings) -> String {
    GET_IDS
        .iter()
        .map(|id| match s.get(SettingId(*id)) {
            Some(v) => format!("g{}={}", id, v),
            None => format!("g{}=-", id),
        })
        .collect::<Vec<_>>()
        .join(" ")
}

fn varint(form: usize, n: u64) -> Vec<u8> {
    let form = if form == 0 {
        if n < 64 {
            1
        } else if n < 16384 {
            2
        } else if n < (1 << 30) {
            4
        } else {
            8
        }
    } else {
        form
    };
    match form {
        1 => vec![n as u8],
        2 => ((n as u16) | 0x4000).to_be_bytes().to_vec(),
        4 => ((n as u32) | 0x8000_0000).to_be_bytes().to_vec(),
        _ => (n | 0xc000_0000_0000_0000).to_be_bytes().to_vec(),
    }
}

fn settings_frame(form: usize, payload: &[u8]) -> Vec<u8> {
    let mut b = vec![4u8];
    b.extend(varint(form, payload.len() as u64));
    b.extend_from_slice(payload);
    b
}

fn code_of_conn_err(e: &h3::error::ConnectionError) -> String {
    // conn_err renders `c:<code>:<variant>`
    conn_err(e).split(':').nth(1).unwrap_or("?").to_string()
}

fn side_of(role: &str) -> Side {
    if role == "c" {
        Side::Client
    } else {
        Side::Server
    }
}

/// runs until quiescence, granting `q` more bytes of write budget to every local stream between rounds (q = 0: unlimited)
fn drive(ex: &mut Exec, w: &Shared, q: u64, done: &dyn Fn() -> bool) {
    for _ in 0..400 {
        ex.run();
        if q == 0 || done() {
            break;
        }
        let ids = w.lock().unwrap().local_streams();
        for id in ids {
            w.lock().unwrap().grant_write(id, q);
        }
    }
    ex.run();
}

/// Lets the harness decide when a task goes on: `pass()` waits for one ticket, `open()` hands one out and wakes the task.
#[derive(Clone, Default)]
struct Gate {
    tickets: Rc<std::cell::Cell<usize>>,
    waker: Rc<RefCell<Option<std::task::Waker>>>,
}

impl Gate {
    fn open(&self) {
        self.tickets.set(self.tickets.get() + 1);
        if let Some(w) = self.waker.borrow_mut().take() {
            w.wake();
        }
    }
    fn try_pass(&self, cx: &mut std::task::Context<'_>) -> bool {
        if self.tickets.get() > 0 {
            self.tickets.set(self.tickets.get() - 1);
            true
        } else {
            *self.waker.borrow_mut() = Some(cx.waker().clone());
            false
        }
    }
    async fn pass(&self) {
        futures_util::future::poll_fn(|cx| if self.try_pass(cx) { std::task::Poll::Ready(()) } else { std::task::Poll::Pending }).await
    }
}

/// `close=<code the peer sees (first close)>x<number of close calls>`
fn closes(g: &World) -> String {
    let n = g.log.iter().filter(|l| l.starts_with("close ")).count();
    match &g.closed {
        Some((c, _)) => format!("close={}x{}", c, n),
        None => "close=-".to_string(),
    }
}

/// NAME=V,... in call order
fn parse_calls(s: &str) -> Vec<(String, u64)> {
    if s == "-" {
        return vec![];
    }
    s.split(',')
        .map(|p| {
            let mut it = p.split('=');
            (it.next().unwrap().to_string(), it.next().unwrap().parse().unwrap())
        })
        .collect()
}

fn client_calls(b: &mut h3::client::Builder, calls: &[(String, u64)]) {
    for (n, v) in calls {
        match n.as_str() {
            "mfs" => b.max_field_section_size(*v),
            "grease" => b.send_grease(*v != 0),
            "ec" => b.enable_extended_connect(*v != 0),
            "dg" => b.enable_datagram(*v != 0),
            other => panic!("client builder has no setter {}", other),
        };
    }
}

fn server_calls(b: &mut h3::server::Builder, calls: &[(String, u64)]) {
    for (n, v) in calls {
        match n.as_str() {
            "mfs" => b.max_field_section_size(*v),
            "grease" => b.send_grease(*v != 0),
            "wt" => b.enable_webtransport(*v != 0),
            "ec" => b.enable_extended_connect(*v != 0),
            "dg" => b.enable_datagram(*v != 0),
            "wtmax" => b.max_webtransport_sessions(*v),
            other => panic!("server builder has no setter {}", other),
        };
    }
}

fn main() {
    run_lines(|ws| match ws {
        ["st.ins", ps] => {
            let mut s = Settings::default();
            if *ps != "-" {
                for p in ps.split(',') {
                    let mut it = p.split(':');
                    let id: u64 = it.next().unwrap().parse().unwrap();
                    let v: u64 = it.next().unwrap().parse().unwrap();
                    if s.insert(SettingId(id), v).is_err() {
                        return "err".into();
                    }
                }
            }
            let g = gets(&s);
            let shared = SharedState::default();
            shared.set_settings((&s).into());
            let a = applied(&shared);
            let mut w = WriteBuf::<Bytes>::from(UniStreamHeader::Control(s));
            let mut out = Vec::new();
            let mut guard = 1000;
            while w.has_remaining() && guard > 0 {
                guard -= 1;
                let n = {
                    let c = w.chunk();
                    out.extend_from_slice(c);
                    c.len()
                };
                if n == 0 {
                    return "empty-chunk".into();
                }
                w.advance(n);
            }
            format!("ok {} {} {}", hex(&out), g, a)
        }
        ["st.dec", form, payload, rest, split] => {
            let p = unhex(payload);
            let r = unhex(rest);
            let mut bytes = settings_frame(form.parse().unwrap(), &p);
            bytes.extend_from_slice(&r);
            // SPLIT = 0 (contiguous) or dot-separated cut positions: the decoder sees a non-contiguous Buf
            let mut cuts: Vec<usize> = split
                .split('.')
                .map(|x| x.parse::<usize>().unwrap())
                .filter(|c| *c > 0 && *c < bytes.len())
                .collect();
            cuts.sort_unstable();
            cuts.dedup();
            let mut chunks = Vec::new();
            let mut prev = 0;
            for c in cuts {
                chunks.push(Bytes::copy_from_slice(&bytes[prev..c]));
                prev = c;
            }
            chunks.push(Bytes::copy_from_slice(&bytes[prev..]));
            let mut buf = ChunkBuf::new(chunks);
            match Frame::<PayloadLen>::decode(&mut buf) {
                Ok(Frame::Settings(s)) => {
                    let shared = SharedState::default();
                    shared.set_settings((&s).into());
                    format!("ok {} {} rest={}", gets(&s), applied(&shared), buf.remaining())
                }
                Ok(_) => "other".into(),
                Err(FrameError::Settings(e)) => {
                    let ice = InternalConnectionError::got_frame_error(FrameProtocolError::Settings(e));
                    format!("err {}", code_value(&format!("{:?}", ice)))
                }
                Err(FrameError::Incomplete(_)) => "incomplete".into(),
                Err(e) => format!("err-frame {:?}", e),
            }
        }
        ["dflt"] => format!("ok {}", applied(&SharedState::default())),
        ["cfg", role, calls, _g, q] => {
            let q: u64 = q.parse().unwrap();
            let calls = parse_calls(calls);
            let w = World::new(side_of(role), 100, 100, if q == 0 { None } else { Some(0) });
            let mut ex = Exec::new();
            let res: Rc<RefCell<Option<String>>> = Rc::new(RefCell::new(None));
            let (w2, res2, client) = (w.clone(), res.clone(), *role == "c");
            ex.spawn(async move {
                if client {
                    let mut b = h3::client::builder();
                    client_calls(&mut b, &calls);
                    match b.build::<_, _, Bytes>(SimConn { world: w2 }).await {
                        Ok(_keep) => {
                            *res2.borrow_mut() = Some("ok".into());
                            std::future::pending::<()>().await;
                        }
                        Err(e) => *res2.borrow_mut() = Some(format!("err {}", code_of_conn_err(&e))),
                    }
                } else {
                    let mut b = h3::server::builder();
                    server_calls(&mut b, &calls);
                    match b.build::<_, Bytes>(SimConn { world: w2 }).await {
                        Ok(_keep) => {
                            *res2.borrow_mut() = Some("ok".into());
                            std::future::pending::<()>().await;
                        }
                        Err(e) => *res2.borrow_mut() = Some(format!("err {}", code_of_conn_err(&e))),
                    }
                }
                String::new()
            });
            let res3 = res.clone();
            drive(&mut ex, &w, q, &move || res3.borrow().is_some());
            let r = res.borrow().clone();
            match r {
                None => "pending".into(),
                Some(s) if s == "ok" => {
                    let g = w.lock().unwrap();
                    if g.closed.is_some() {
                        return format!("ok-but-closed {}", closes(&g));
                    }
                    // the control stream is the locally opened stream whose first byte is the CONTROL stream type
                    let ctl: Vec<Vec<u8>> = g
                        .local_streams()
                        .into_iter()
                        .map(|id| g.tx_of(id))
                        .filter(|b| b.first() == Some(&0u8))
                        .collect();
                    if ctl.len() == 1 {
                        format!("ok {}", hex(&ctl[0]))
                    } else {
                        format!("ok control-streams={}", ctl.len())
                    }
                }
                Some(s) => format!("{} {}", s, closes(&w.lock().unwrap())),
            }
        }
        ["cfg2", role, calls1, calls2, _g] => {
            // one builder: CALLS1, build(), CALLS2, build() again; both connections' control streams
            let (c1, c2) = (parse_calls(calls1), parse_calls(calls2));
            let (w1, w2) = (World::new(side_of(role), 100, 100, None), World::new(side_of(role), 100, 100, None));
            let mut ex = Exec::new();
            let res: Rc<RefCell<Option<String>>> = Rc::new(RefCell::new(None));
            let (wa, wb, res2, client) = (w1.clone(), w2.clone(), res.clone(), *role == "c");
            ex.spawn(async move {
                let mut errs = Vec::new();
                if client {
                    let mut b = h3::client::builder();
                    client_calls(&mut b, &c1);
                    let k1 = b.build::<_, _, Bytes>(SimConn { world: wa }).await;
                    client_calls(&mut b, &c2);
                    let k2 = b.build::<_, _, Bytes>(SimConn { world: wb }).await;
                    for k in [&k1, &k2] {
                        if let Err(e) = k {
                            errs.push(code_of_conn_err(e));
                        }
                    }
                    *res2.borrow_mut() = Some(if errs.is_empty() { "ok".into() } else { format!("err {}", errs.join(",")) });
                    std::future::pending::<()>().await;
                    drop((k1, k2));
                } else {
                    let mut b = h3::server::builder();
                    server_calls(&mut b, &c1);
                    let k1 = b.build::<_, Bytes>(SimConn { world: wa }).await;
                    server_calls(&mut b, &c2);
                    let k2 = b.build::<_, Bytes>(SimConn { world: wb }).await;
                    for k in [&k1, &k2] {
                        if let Err(e) = k {
                            errs.push(code_of_conn_err(e));
                        }
                    }
                    *res2.borrow_mut() = Some(if errs.is_empty() { "ok".into() } else { format!("err {}", errs.join(",")) });
                    std::future::pending::<()>().await;
                    drop((k1, k2));
                }
                String::new()
            });
            ex.run();
            let r = res.borrow().clone();
            match r {
                Some(s) if s == "ok" => {
                    let mut out = String::from("ok");
                    for w in [&w1, &w2] {
                        let g = w.lock().unwrap();
                        let ctl: Vec<Vec<u8>> =
                            g.local_streams().into_iter().map(|id| g.tx_of(id)).filter(|b| b.first() == Some(&0u8)).collect();
                        if ctl.len() != 1 || g.closed.is_some() {
                            return format!("ok control-streams={} closed={}", ctl.len(), g.closed.is_some());
                        }
                        out.push(' ');
                        out.push_str(&hex(&ctl[0]));
                    }
                    out
                }
                Some(s) => s,
                None => "pending".into(),
            }
        }
        ["rx", role, calls, form, payload, tail, chunk, pre, act] => {
            let p = unhex(payload);
            let tail = unhex(tail);
            let chunk: usize = chunk.parse().unwrap();
            let client = *role == "c";
            let calls = parse_calls(calls);
            // ACT: what the application does before the peer's SETTINGS are read: sd = shutdown(), rq = a request is in
            // flight (client: sent; server: accepted); ra = a request after the SETTINGS were delivered
            let (act_sd, act_rq, act_ra) = (act.contains("sd"), act.contains("rq"), act.contains("ra"));
            let w = World::new(side_of(role), 100, 100, None);
            let mut ex = Exec::new();
            let res: Rc<RefCell<Option<String>>> = Rc::new(RefCell::new(None));
            let shared: Rc<RefCell<Option<Arc<SharedState>>>> = Rc::new(RefCell::new(None));
            // every public handle that answers settings(): (name, reader)
            let views: Rc<RefCell<Vec<(String, Box<dyn Fn() -> String>)>>> = Rc::new(RefCell::new(Vec::new()));
            // (epoch at which it was read, values): the Connection handle is inside the task and can only be read when it runs
            let conn_view: Rc<RefCell<Option<(usize, String)>>> = Rc::new(RefCell::new(None));
            let epoch: Rc<std::cell::Cell<usize>> = Rc::new(std::cell::Cell::new(0));
            let gate = Gate::default();
            let (w2, res2, shared2, views2, cv2, gate2, ep2) =
                (w.clone(), res.clone(), shared.clone(), views.clone(), conn_view.clone(), gate.clone(), epoch.clone());
            ex.spawn(async move {
                let get = || http::Request::builder().method("GET").uri("https://a/").body(()).unwrap();
                if client {
                    let mut b = h3::client::builder();
                    client_calls(&mut b, &calls);
                    match b.build::<_, _, Bytes>(SimConn { world: w2 }).await {
                        Ok((mut conn, send)) => {
                            *shared2.borrow_mut() = Some(conn.inner.shared.clone());
                            let s1 = send.clone();
                            views2.borrow_mut().push(("SendRequest".into(), Box::new(move || applied(&s1))));
                            let mut send = send;
                            if act_rq {
                                if let Ok(st) = send.send_request(get()).await {
                                    views2.borrow_mut().push(("client::RequestStream(before)".into(), Box::new(move || applied(&st))));
                                }
                            }
                            if act_sd {
                                let _ = conn.shutdown(0).await;
                            }
                            // the driver; when the harness opens the gate (after the SETTINGS were delivered) a request is sent
                            let mut late = act_ra;
                            loop {
                                let step = futures_util::future::poll_fn(|cx| {
                                    let r = conn.poll_close(cx);
                                    *cv2.borrow_mut() = Some((ep2.get(), applied(&conn)));
                                    if let std::task::Poll::Ready(e) = r {
                                        return std::task::Poll::Ready(Some(e));
                                    }
                                    if late && gate2.try_pass(cx) {
                                        return std::task::Poll::Ready(None);
                                    }
                                    std::task::Poll::Pending
                                })
                                .await;
                                match step {
                                    Some(e) => {
                                        *res2.borrow_mut() = Some(format!("err {}", code_of_conn_err(&e)));
                                        break;
                                    }
                                    None => {
                                        late = false;
                                        if let Ok(st) = send.send_request(get()).await {
                                            views2.borrow_mut().push(("client::RequestStream(after)".into(), Box::new(move || applied(&st))));
                                        }
                                    }
                                }
                            }
                            // keep the connection alive: dropping it is not part of the observation
                            std::future::pending::<()>().await;
                        }
                        Err(e) => *res2.borrow_mut() = Some(format!("build-err {}", code_of_conn_err(&e))),
                    }
                } else {
                    let mut b = h3::server::builder();
                    server_calls(&mut b, &calls);
                    match b.build::<_, Bytes>(SimConn { world: w2 }).await {
                        Ok(mut conn) => {
                            *shared2.borrow_mut() = Some(conn.inner.shared.clone());
                            if act_sd {
                                let _ = conn.shutdown(2).await;
                            }
                            loop {
                                let r = conn.accept().await;
                                *cv2.borrow_mut() = Some((ep2.get(), applied(&conn)));
                                match r {
                                    Ok(Some(resolver)) => {
                                        let rv = applied(&resolver);
                                        views2.borrow_mut().push(("RequestResolver(at accept)".into(), Box::new(move || rv.clone())));
                                        if let Ok((_req, st)) = resolver.resolve_request().await {
                                            views2.borrow_mut().push(("server::RequestStream".into(), Box::new(move || applied(&st))));
                                        }
                                    }
                                    // accept() has nothing more to hand out: call it again when the harness delivered something
                                    Ok(None) => gate2.pass().await,
                                    Err(e) => {
                                        *res2.borrow_mut() = Some(format!("err {}", code_of_conn_err(&e)));
                                        break;
                                    }
                                }
                            }
                            std::future::pending::<()>().await;
                        }
                        Err(e) => *res2.borrow_mut() = Some(format!("build-err {}", code_of_conn_err(&e))),
                    }
                }
                String::new()
            });
            ex.run();
            let before = match shared.borrow().as_ref() {
                Some(s) => applied(&**s),
                None => "no-conn".to_string(),
            };
            if before != applied(&SharedState::default()) {
                return format!("defaults-not-in-force {}", before);
            }
            // a request of the peer (server role): HEADERS of GET https://a/ on bidi stream 0
            let peer_request = |w: &Shared, ex: &mut Exec| {
                apply_event(w, "B0");
                apply_event(w, "0:c:01080000d1d7500161c1");
                ex.run();
            };
            if act_rq && !client {
                peer_request(&w, &mut ex);
            }
            // PRE: other uni streams the peer opens (and partly fills) BEFORE its control stream; comma-separated hex of
            // the bytes delivered on each (`0` = opened, nothing delivered yet, `-` = no such streams).  They stay silent.
            let mut id: u64 = if client { 3 } else { 2 };
            if *pre != "-" {
                for item in pre.split(',') {
                    apply_event(&w, &format!("U{}", id));
                    if item != "0" {
                        apply_event(&w, &format!("{}:c:{}", id, item));
                    }
                    if !client {
                        gate.open();
                    }
                    ex.run();
                    id += 4;
                }
            }
            let mut bytes = vec![0u8];
            bytes.extend(settings_frame(form.parse().unwrap(), &p));
            bytes.extend_from_slice(&tail);
            apply_event(&w, &format!("U{}", id));
            if !client {
                gate.open();
            }
            ex.run();
            let step = if chunk == 0 { bytes.len() } else { chunk };
            for c in bytes.chunks(step) {
                epoch.set(epoch.get() + 1);
                apply_event(&w, &format!("{}:c:{}", id, hex(c)));
                if !client {
                    gate.open();
                }
                ex.run();
            }
            if act_ra && res.borrow().is_none() {
                if client {
                    gate.open();
                    ex.run();
                } else {
                    peer_request(&w, &mut ex);
                }
                gate.open();
                ex.run();
            }
            let r = res.borrow().clone();
            let g = w.lock().unwrap();
            match r {
                Some(s) => format!("{} {}", s, closes(&g)),
                None => {
                    if g.closed.is_some() {
                        return format!("ok-but-closed {}", closes(&g));
                    }
                    let main = match shared.borrow().as_ref() {
                        Some(s) => applied(&**s),
                        None => return "no-conn".into(),
                    };
                    // every handle must show the same values in force
                    if let Some((e, cv)) = conn_view.borrow().as_ref() {
                        if *e == epoch.get() && *cv != main {
                            return format!("handle-mismatch Connection {}", cv);
                        }
                    }
                    for (name, f) in views.borrow().iter() {
                        let v = f();
                        if v != main && !name.contains("at accept") {
                            return format!("handle-mismatch {} {}", name, v);
                        }
                    }
                    format!("ok {}", main)
                }
            }
        }
        _ => "driver-error unknown-case".into(),
    });
}
