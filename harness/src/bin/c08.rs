//! C08: GOAWAY identifiers and the accept/reject line, on the REAL h3 server::Connection and
//! client::Connection over SimQuic (scripted peer).
//!
//! goaway  A<id>,S<n>,P,C<id>,G<pid>,...   server: Arrive (new peer bidi stream + HEADERS + FIN), shutdown(n),
//!                                         one poll of accept(), drop the resolver of request id, peer GOAWAY
//! cgoaway g<id>,D,R,...                   client: GOAWAY(id) arrives, one poll of the driver, send_request
//!
//! Output: `ok <group> <group> ...`, one group per op (outputs joined by ',', `.` = none):
//!   w<g> GOAWAY(g) written on our control stream; +<id> accept() returned request id;
//!   -<id>:<stop>:<reset> stream taken and dropped with these codes (`-` = call not made);
//!   none / pend / err:<code> other answers of accept();  idle / err:<code> driver; closing / open:<sid> send_request.
use bytes::Bytes;
use h3v::simquic::*;
use h3v::run_lines;
use std::collections::HashMap;
use std::future::Future;
use std::pin::Pin;
use std::sync::Arc;
use std::task::{Context, Poll, Wake, Waker};

struct Noop;
impl Wake for Noop {
    fn wake(self: Arc<Self>) {}
}

fn poll_once<F: Future>(f: F) -> Poll<F::Output> {
    let waker = Waker::from(Arc::new(Noop));
    let mut cx = Context::from_waker(&waker);
    let mut f = Box::pin(f);
    Pin::as_mut(&mut f).poll(&mut cx)
}

fn varint_dec(b: &[u8], pos: &mut usize) -> Option<u64> {
    let first = *b.get(*pos)?;
    let n = 1usize << (first >> 6);
    if *pos + n > b.len() {
        return None;
    }
    let mut v = (first & 0x3f) as u64;
    for i in 1..n {
        v = (v << 8) | b[*pos + i] as u64;
    }
    *pos += n;
    Some(v)
}

fn varint_enc(v: u64) -> Vec<u8> {
    if v < 1 << 6 {
        vec![v as u8]
    } else if v < 1 << 14 {
        ((v as u16) | 0x4000).to_be_bytes().to_vec()
    } else if v < 1 << 30 {
        ((v as u32) | 0x8000_0000).to_be_bytes().to_vec()
    } else {
        (v | 0xc000_0000_0000_0000).to_be_bytes().to_vec()
    }
}

/// identifiers of the GOAWAY frames in the bytes h3 wrote on its control stream
fn goaways(tx: &[u8]) -> Vec<u64> {
    let mut pos = 0;
    let mut out = Vec::new();
    if varint_dec(tx, &mut pos).is_none() {
        return out;
    }
    loop {
        let ty = match varint_dec(tx, &mut pos) {
            Some(t) => t,
            None => return out,
        };
        let len = match varint_dec(tx, &mut pos) {
            Some(l) => l as usize,
            None => return out,
        };
        if pos + len > tx.len() {
            return out;
        }
        if ty == 0x7 {
            let mut p = pos;
            if let Some(id) = varint_dec(tx, &mut p) {
                out.push(id);
            }
        }
        pos += len;
    }
}

fn goaway_frame(id: u64) -> String {
    let v = varint_enc(id);
    let mut f = vec![0x07u8, v.len() as u8];
    f.extend_from_slice(&v);
    h3v::hex(&f)
}

fn code_of(canon: &str) -> String {
    canon.split(':').nth(1).unwrap_or("?").to_string()
}

const HEADERS_GET: &str = "01080000d1d7500161c1";

fn server_case(ops: &str) -> String {
    let w = World::new(Side::Server, 100, 100, None);
    let mut b = h3::server::builder();
    b.send_grease(false);
    let mut conn: h3::server::Connection<SimConn, Bytes> = match poll_once(b.build(SimConn { world: w.clone() })) {
        Poll::Ready(Ok(c)) => c,
        Poll::Ready(Err(e)) => return format!("build-err {}", conn_err(&e)),
        Poll::Pending => return "build-pending".into(),
    };
    assert!(apply_event(&w, "U2"));
    assert!(apply_event(&w, "2:c:000400"));
    let ctl = w.lock().unwrap().local_streams()[0];
    let mut held: HashMap<u64, h3::server::RequestResolver<SimConn, Bytes>> = HashMap::new();
    let mut groups: Vec<String> = Vec::new();
    let mut dead = false;
    for op in ops.split(',') {
        if dead {
            groups.push(".".into());
            continue;
        }
        let (wires0, log0, q0): (usize, usize, Vec<u64>) = {
            let g = w.lock().unwrap();
            (goaways(&g.tx_of(ctl)).len(), g.log.len(), g.incoming_bidi.iter().cloned().collect())
        };
        let mut outs: Vec<String> = Vec::new();
        let mut answer: Option<String> = None;
        let mut shown: Option<u64> = None;
        let arg = &op[1..];
        match op.as_bytes()[0] {
            b'A' => {
                let id: u64 = arg.parse().unwrap();
                assert!(apply_event(&w, &format!("B{}", id)));
                assert!(apply_event(&w, &format!("{}:c:{}", id, HEADERS_GET)));
                assert!(apply_event(&w, &format!("{}:F", id)));
            }
            b'S' => {
                let n: usize = arg.parse().unwrap();
                match poll_once(conn.shutdown(n)) {
                    Poll::Ready(Ok(())) => {}
                    Poll::Ready(Err(e)) => answer = Some(format!("shutdown-err:{}", code_of(&conn_err(&e)))),
                    Poll::Pending => answer = Some("shutdown-pending".into()),
                }
            }
            b'P' => match poll_once(conn.accept()) {
                Poll::Ready(Ok(Some(r))) => {
                    let id = h3::quic::SendStream::<Bytes>::send_id(&r.frame_stream).into_inner();
                    shown = Some(id);
                    held.insert(id, r);
                }
                Poll::Ready(Ok(None)) => answer = Some("none".into()),
                Poll::Ready(Err(e)) => {
                    answer = Some(format!("err:{}", code_of(&conn_err(&e))));
                    dead = true;
                }
                Poll::Pending => answer = Some("pend".into()),
            },
            b'C' => {
                let id: u64 = arg.parse().unwrap();
                held.remove(&id);
            }
            b'G' => {
                let id: u64 = arg.parse().unwrap();
                assert!(apply_event(&w, &format!("2:c:{}", goaway_frame(id))));
            }
            _ => return "driver-error bad-op".into(),
        }
        let g = w.lock().unwrap();
        // streams taken from the transport during this op, in order
        let taken = q0.len() - g.incoming_bidi.len().min(q0.len());
        for id in q0.iter().take(taken) {
            if Some(*id) == shown {
                continue;
            }
            let mut stop = "-".to_string();
            let mut reset = "-".to_string();
            for l in &g.log[log0..] {
                let ws: Vec<&str> = l.split(' ').collect();
                if ws.len() == 3 && ws[1] == id.to_string() {
                    if ws[0] == "stop" && stop == "-" {
                        stop = ws[2].to_string();
                    }
                    if ws[0] == "reset" && reset == "-" {
                        reset = ws[2].to_string();
                    }
                }
            }
            outs.push(format!("-{}:{}:{}", id, stop, reset));
        }
        for gid in goaways(&g.tx_of(ctl)).iter().skip(wires0) {
            outs.push(format!("w{}", gid));
        }
        if let Some(id) = shown {
            outs.push(format!("+{}", id));
        }
        if let Some(a) = answer {
            outs.push(a);
        }
        groups.push(if outs.is_empty() { ".".into() } else { outs.join(",") });
    }
    drop(held);
    format!("ok {}", groups.join(" "))
}

fn client_case(ops: &str) -> String {
    let w = World::new(Side::Client, 100, 100, None);
    let mut b = h3::client::builder();
    b.send_grease(false);
    let (mut conn, mut sender): (h3::client::Connection<SimConn, Bytes>, h3::client::SendRequest<SimOpener, Bytes>) =
        match poll_once(b.build(SimConn { world: w.clone() })) {
            Poll::Ready(Ok(c)) => c,
            Poll::Ready(Err(e)) => return format!("build-err {}", conn_err(&e)),
            Poll::Pending => return "build-pending".into(),
        };
    assert!(apply_event(&w, "U3"));
    assert!(apply_event(&w, "3:c:000400"));
    let mut streams = Vec::new();
    let mut groups: Vec<String> = Vec::new();
    let mut dead = false;
    for op in ops.split(',') {
        if dead {
            groups.push(".".into());
            continue;
        }
        let arg = &op[1..];
        match op.as_bytes()[0] {
            b'g' => {
                let id: u64 = arg.parse().unwrap();
                assert!(apply_event(&w, &format!("3:c:{}", goaway_frame(id))));
                groups.push(".".into());
            }
            b'D' => {
                let waker = Waker::from(Arc::new(Noop));
                let mut cx = Context::from_waker(&waker);
                match conn.poll_close(&mut cx) {
                    Poll::Pending => groups.push("idle".into()),
                    Poll::Ready(e) => {
                        groups.push(format!("err:{}", code_of(&conn_err(&e))));
                        dead = true;
                    }
                }
            }
            b'R' => {
                let opened0 = w.lock().unwrap().log.iter().filter(|l| l.starts_with("open_bidi")).count();
                let req = http::Request::builder().method("GET").uri("https://a/").body(()).unwrap();
                let r = poll_once(sender.send_request(req));
                let opened: Vec<String> = w
                    .lock()
                    .unwrap()
                    .log
                    .iter()
                    .filter(|l| l.starts_with("open_bidi"))
                    .skip(opened0)
                    .map(|l| l["open_bidi ".len()..].to_string())
                    .collect();
                let mut s = match r {
                    Poll::Ready(Ok(st)) => {
                        streams.push(st);
                        "open".to_string()
                    }
                    Poll::Ready(Err(h3::error::StreamError::RemoteClosing)) => "closing".to_string(),
                    Poll::Ready(Err(e)) => format!("reqerr:{}", stream_err(&e)),
                    Poll::Pending => "reqpending".to_string(),
                };
                for o in opened {
                    s.push_str(&format!(":{}", o));
                }
                groups.push(s);
            }
            _ => return "driver-error bad-op".into(),
        }
    }
    format!("ok {}", groups.join(" "))
}

fn main() {
    run_lines(|ws| match ws {
        ["goaway", ops] => server_case(ops),
        ["cgoaway", ops] => client_case(ops),
        _ => "driver-error unknown-case".into(),
    });
}
