//! C08: GOAWAY identifiers and the accept/reject line, on the REAL h3 server::Connection and
//! client::Connection over SimQuic (scripted peer).
//!
//! goaway  A<id>,S<n>,P,C<id>,G<pid>,...   server: Arrive (new peer bidi stream + HEADERS + FIN), shutdown(n),
//!                                         one poll of accept(), drop the resolver of request id, peer GOAWAY
//! cgoaway g<id>,D,R,z,h<n>,...            client: GOAWAY(id) arrives, one poll of the driver, one poll of send_request (a new
//!                                         call or the one parked for stream credit), stream credit := 0, grant n streams
//!   b / W<k>: the control stream's write budget := 0 / += k bytes.  A shutdown()/accept() whose GOAWAY write is
//!   pending (`wpend`) keeps its future; the next S or P polls that same future again.  After accept() has returned
//!   an error only S ops are still executed (`serr:<code>` = shutdown refused with the connection error).
//!
//! Output: `ok <group> <group> ...`, one group per op (outputs joined by ',', `.` = none):
//!   w<g> GOAWAY(g) written on our control stream; +<id> accept() returned request id;
//!   -<id>:<stop>:<reset> stream taken and dropped with these codes (`-` = call not made);
//!   none / pend / err:<code> other answers of accept();  idle / err:<code> driver; closing / open:<sid> send_request.
use bytes::Bytes;
use h3v::simquic::*;
use h3v::run_lines;
use std::collections::HashMap;
use std::future::Future;
use std::pin::Pin;
use std::sync::Arc;
use std::task::{Context, Poll, Wake, Waker};

struct Noop;
impl Wake for Noop {
    fn wake(self: Arc<Self>) {}
}

fn poll_once<F: Future>(f: F) -> Poll<F::Output> {
    let waker = Waker::from(Arc::new(Noop));
    let mut cx = Context::from_waker(&waker);
    let mut f = Box::pin(f);
    Pin::as_mut(&mut f).poll(&mut cx)
}

fn varint_dec(b: &[u8], pos: &mut usize) -> Option<u64> {
    let first = *b.get(*pos)?;
    let n = 1usize << (first >> 6);
    if *pos + n > b.len() {
        return None;
    }
    let mut v = (first & 0x3f) as u64;
    for i in 1..n {
        v = (v << 8) | b[*pos + i] as u64;
    }
    *pos += n;
    Some(v)
}

fn varint_enc(v: u64) -> Vec<u8> {
    if v < 1 << 6 {
        vec![v as u8]
    } else if v < 1 << 14 {
        ((v as u16) | 0x4000).to_be_bytes().to_vec()
    } else if v < 1 << 30 {
        ((v as u32) | 0x8000_0000).to_be_bytes().to_vec()
    } else {
        (v | 0xc000_0000_0000_0000).to_be_bytes().to_vec()
    }
}

/// identifiers of the GOAWAY frames in the bytes h3 wrote on its control stream
fn goaways(tx: &[u8]) -> Vec<u64> {
    let mut pos = 0;
    let mut out = Vec::new();
    if varint_dec(tx, &mut pos).is_none() {
        return out;
    }
    loop {
        let ty = match varint_dec(tx, &mut pos) {
            Some(t) => t,
            None => return out,
        };
        let len = match varint_dec(tx, &mut pos) {
            Some(l) => l as usize,
            None => return out,
        };
        if pos + len > tx.len() {
            return out;
        }
        if ty == 0x7 {
            let mut p = pos;
            if let Some(id) = varint_dec(tx, &mut p) {
                out.push(id);
            }
        }
        pos += len;
    }
}

fn goaway_frame(id: u64) -> String {
    let v = varint_enc(id);
    let mut f = vec![0x07u8, v.len() as u8];
    f.extend_from_slice(&v);
    h3v::hex(&f)
}

fn code_of(canon: &str) -> String {
    canon.split(':').nth(1).unwrap_or("?").to_string()
}

const HEADERS_GET: &str = "01080000d1d7500161c1";

/// Environment variants selected by the family suffix (`goaway.g3`, `cgoaway.ul`, ...); the model is the same for all.
///   g  builder default configuration (grease ON)          3  the peer lets us open only 3 uni streams
///   u  the peer first opens a uni stream whose type byte has not arrived
///   q  the peer's QPACK encoder/decoder streams arrive before its control stream
///   t  the control stream's type byte, frame header and payload arrive in separate chunks
///   l  the peer's control stream arrives late: just before its first GOAWAY
///   p  (server) requests are taken through poll_accept_request_stream + create_resolver, with shutdown(0) after None
#[derive(Clone, Copy, Default)]
struct Env {
    grease: bool,
    uni3: bool,
    unknown_first: bool,
    qpack_first: bool,
    split_type: bool,
    late_ctl: bool,
    twin: bool,
}
fn parse_env(fam: &str) -> Env {
    let mut e = Env::default();
    if let Some(i) = fam.find('.') {
        for c in fam[i + 1..].chars() {
            match c {
                'g' => e.grease = true,
                '3' => e.uni3 = true,
                'u' => e.unknown_first = true,
                'q' => e.qpack_first = true,
                't' => e.split_type = true,
                'l' => e.late_ctl = true,
                'p' => e.twin = true,
                _ => panic!("unknown environment letter"),
            }
        }
    }
    e
}
/// streams of the peer other than its control stream (base = 2 for a client peer, 3 for a server peer)
fn peer_other_streams(w: &Shared, base: u64, e: &Env) {
    if e.unknown_first {
        assert!(apply_event(w, &format!("U{}", base + 4)));
    }
    if e.qpack_first {
        assert!(apply_event(w, &format!("U{}", base + 8)));
        assert!(apply_event(w, &format!("{}:c:02", base + 8)));
        assert!(apply_event(w, &format!("U{}", base + 12)));
        assert!(apply_event(w, &format!("{}:c:03", base + 12)));
    }
}
fn peer_control_stream(w: &Shared, base: u64, e: &Env) {
    assert!(apply_event(w, &format!("U{}", base)));
    if e.split_type {
        for c in ["00", "04", "00"] {
            assert!(apply_event(w, &format!("{}:c:{}", base, c)));
        }
    } else {
        assert!(apply_event(w, &format!("{}:c:000400", base)));
    }
}
/// `err:<code><variant letter>/close:<code passed to the transport's close() during this op, or ->`
fn err_text(canon: &str, w: &Shared, log0: usize) -> String {
    let mut it = canon.split(':');
    let _ = it.next();
    let code = it.next().unwrap_or("?");
    let variant = it.next().and_then(|v| v.chars().next()).unwrap_or('?');
    let g = w.lock().unwrap();
    let close = g.log[log0.min(g.log.len())..]
        .iter()
        .find_map(|l| l.strip_prefix("close ").map(|r| r.split(' ').next().unwrap_or("?").to_string()))
        .unwrap_or_else(|| "-".into());
    format!("err:{}{}/close:{}", code, variant, close)
}

fn server_case(fam: &str, ops: &str) -> String {
    let env = parse_env(fam);
    let w = World::new(Side::Server, if env.uni3 { 3 } else { 100 }, 100, None);
    let mut b = h3::server::builder();
    if !env.grease {
        b.send_grease(false);
    }
    let mut conn: h3::server::Connection<SimConn, Bytes> = match poll_once(b.build(SimConn { world: w.clone() })) {
        Poll::Ready(Ok(c)) => c,
        Poll::Ready(Err(e)) => return format!("build-err {}", conn_err(&e)),
        Poll::Pending => return "build-pending".into(),
    };
    peer_other_streams(&w, 2, &env);
    let mut ctl_delivered = false;
    if !env.late_ctl {
        peer_control_stream(&w, 2, &env);
        ctl_delivered = true;
    }
    let ctl = w.lock().unwrap().local_streams()[0];
    enum Held {
        Res(h3::server::RequestResolver<SimConn, Bytes>),
        Str(h3::server::RequestStream<SimBidi<Bytes>, Bytes>),
    }
    let mut held: HashMap<u64, Held> = HashMap::new();
    let mut groups: Vec<String> = Vec::new();
    let mut dead = false;
    // A call whose GOAWAY write is pending keeps its future (and with it the exclusive borrow of the connection)
    // until it completes; every other pending call is dropped after its single poll.
    enum Out {
        Shut(Result<(), h3::error::ConnectionError>),
        Acc(Result<Option<h3::server::RequestResolver<SimConn, Bytes>>, h3::error::ConnectionError>),
    }
    let mut conn = Box::new(conn);
    let conn_ptr: *mut h3::server::Connection<SimConn, Bytes> = &mut *conn;
    let mut parked: Option<Pin<Box<dyn Future<Output = Out>>>> = None;
    let waker = Waker::from(Arc::new(Noop));
    for op in ops.split(',') {
        let kind = op.as_bytes()[0];
        if dead && kind != b'S' {
            groups.push(".".into());
            continue;
        }
        let (wires0, log0, q0): (usize, usize, Vec<u64>) = {
            let g = w.lock().unwrap();
            (goaways(&g.tx_of(ctl)).len(), g.log.len(), g.incoming_bidi.iter().cloned().collect())
        };
        let mut outs: Vec<String> = Vec::new();
        let mut answer: Option<String> = None;
        let mut shown: Option<u64> = None;
        let arg = &op[1..];
        match kind {
            b'A' => {
                let id: u64 = arg.parse().unwrap();
                assert!(apply_event(&w, &format!("B{}", id)));
                assert!(apply_event(&w, &format!("{}:c:{}", id, HEADERS_GET)));
                assert!(apply_event(&w, &format!("{}:F", id)));
            }
            b'S' | b'P' => {
                let mut fut: Pin<Box<dyn Future<Output = Out>>> = match parked.take() {
                    Some(f) => f,
                    None => {
                        // SAFETY: `conn` is boxed and outlives every future; it is touched only through the one
                        // future that exists at a time (a kept future is polled or dropped before anything else uses it)
                        let c: &'static mut h3::server::Connection<SimConn, Bytes> = unsafe { &mut *conn_ptr };
                        if kind == b'S' {
                            let n: usize = arg.parse().unwrap();
                            Box::pin(async move { Out::Shut(c.shutdown(n).await) })
                        } else if env.twin {
                            Box::pin(async move {
                                let r = match std::future::poll_fn(|cx| c.poll_accept_request_stream(cx)).await {
                                    Ok(Some(st)) => Ok(Some(c.create_resolver(h3::frame::FrameStream::new(
                                        h3::stream::BufRecvStream::new(st),
                                    )))),
                                    Ok(None) => c.shutdown(0).await.map(|_| None),
                                    Err(e) => Err(e),
                                };
                                Out::Acc(r)
                            })
                        } else {
                            Box::pin(async move { Out::Acc(c.accept().await) })
                        }
                    }
                };
                let mut cx = Context::from_waker(&waker);
                match fut.as_mut().poll(&mut cx) {
                    Poll::Ready(Out::Shut(Ok(()))) => {}
                    Poll::Ready(Out::Shut(Err(e))) => {
                        answer = Some(format!("serr:{}", code_of(&conn_err(&e))));
                        dead = true;
                    }
                    Poll::Ready(Out::Acc(Ok(Some(r)))) => {
                        let id = h3::quic::SendStream::<Bytes>::send_id(&r.frame_stream).into_inner();
                        shown = Some(id);
                        held.insert(id, Held::Res(r));
                    }
                    Poll::Ready(Out::Acc(Ok(None))) => answer = Some("none".into()),
                    Poll::Ready(Out::Acc(Err(e))) => {
                        answer = Some(err_text(&conn_err(&e), &w, log0));
                        dead = true;
                    }
                    Poll::Pending => {
                        let write_pending =
                            w.lock().unwrap().streams.get(&ctl).map(|s| s.tx_waker.is_some()).unwrap_or(false);
                        if write_pending {
                            parked = Some(fut);
                            answer = Some("wpend".into());
                        } else {
                            drop(fut);
                            answer = Some(if kind == b'S' { "spend" } else { "pend" }.into());
                        }
                    }
                }
            }
            b'C' => {
                let id: u64 = arg.parse().unwrap();
                held.remove(&id);
            }
            b'V' => {
                // the application resolves the request it was shown: it must get the request
                let id: u64 = arg.parse().unwrap();
                match held.remove(&id) {
                    Some(Held::Res(r)) => match poll_once(r.resolve_request()) {
                        Poll::Ready(Ok((_req, st))) => {
                            held.insert(id, Held::Str(st));
                        }
                        Poll::Ready(Err(_)) => answer = Some(format!("?{}", id)),
                        Poll::Pending => answer = Some(format!("?{}", id)),
                    },
                    Some(o) => {
                        held.insert(id, o);
                    }
                    None => {}
                }
            }
            b'b' => {
                // flow control closes on our control stream: writes stay pending
                w.lock().unwrap().streams.get_mut(&ctl).unwrap().tx_budget = Some(0);
            }
            b'W' => {
                let k: u64 = arg.parse().unwrap();
                let limited = w.lock().unwrap().streams.get(&ctl).unwrap().tx_budget.is_some();
                if limited {
                    w.lock().unwrap().grant_write(ctl, k);
                }
            }
            b'G' => {
                let id: u64 = arg.parse().unwrap();
                if !ctl_delivered {
                    peer_control_stream(&w, 2, &env);
                    ctl_delivered = true;
                }
                assert!(apply_event(&w, &format!("2:c:{}", goaway_frame(id))));
            }
            _ => return "driver-error bad-op".into(),
        }
        let g = w.lock().unwrap();
        // streams taken from the transport during this op, in order
        let taken = q0.len() - g.incoming_bidi.len().min(q0.len());
        for id in q0.iter().take(taken) {
            if Some(*id) == shown {
                continue;
            }
            let mut stop = "-".to_string();
            let mut reset = "-".to_string();
            for l in &g.log[log0..] {
                let ws: Vec<&str> = l.split(' ').collect();
                if ws.len() == 3 && ws[1] == id.to_string() {
                    if ws[0] == "stop" && stop == "-" {
                        stop = ws[2].to_string();
                    }
                    if ws[0] == "reset" && reset == "-" {
                        reset = ws[2].to_string();
                    }
                }
            }
            outs.push(format!("-{}:{}:{}", id, stop, reset));
        }
        for gid in goaways(&g.tx_of(ctl)).iter().skip(wires0) {
            outs.push(format!("w{}", gid));
        }
        if let Some(id) = shown {
            outs.push(format!("+{}", id));
        }
        // a stream that was shown must not be refused afterwards: STOP_SENDING / RESET on it is reported
        for l in &g.log[log0..] {
            let ws: Vec<&str> = l.split(' ').collect();
            if ws.len() == 3 && (ws[0] == "stop" || ws[0] == "reset") {
                if let Ok(id) = ws[1].parse::<u64>() {
                    let t = format!("?{}", id);
                    if (held.contains_key(&id) || shown == Some(id)) && !outs.contains(&t) && answer.as_deref() != Some(&t) {
                        outs.push(t);
                    }
                }
            }
        }
        if let Some(a) = answer {
            outs.push(a);
        }
        groups.push(if outs.is_empty() { ".".into() } else { outs.join(",") });
    }
    drop(parked);
    drop(held);
    drop(conn);
    format!("ok {}", groups.join(" "))
}

type Sender = h3::client::SendRequest<SimOpener, Bytes>;
type ReqOut = (Sender, Result<h3::client::RequestStream<SimBidi<Bytes>, Bytes>, h3::error::StreamError>);

fn client_case(fam: &str, ops: &str) -> String {
    let env = parse_env(fam);
    let w = World::new(Side::Client, if env.uni3 { 3 } else { 100 }, 100, None);
    let mut b = h3::client::builder();
    if !env.grease {
        b.send_grease(false);
    }
    let (mut conn, sender): (h3::client::Connection<SimConn, Bytes>, Sender) =
        match poll_once(b.build(SimConn { world: w.clone() })) {
            Poll::Ready(Ok(c)) => c,
            Poll::Ready(Err(e)) => return format!("build-err {}", conn_err(&e)),
            Poll::Pending => return "build-pending".into(),
        };
    peer_other_streams(&w, 3, &env);
    let mut ctl_delivered = false;
    if !env.late_ctl {
        peer_control_stream(&w, 3, &env);
        ctl_delivered = true;
    }
    let mut sender: Option<Sender> = Some(sender);
    // a send_request call waiting for a stream: it owns the SendRequest until it completes
    let mut parked: Option<Pin<Box<dyn Future<Output = ReqOut>>>> = None;
    let mut streams = Vec::new();
    let mut groups: Vec<String> = Vec::new();
    let mut dead = false;
    let waker = Waker::from(Arc::new(Noop));
    for op in ops.split(',') {
        if dead {
            groups.push(".".into());
            continue;
        }
        let arg = &op[1..];
        let log0 = w.lock().unwrap().log.len();
        match op.as_bytes()[0] {
            b'g' => {
                let id: u64 = arg.parse().unwrap();
                if !ctl_delivered {
                    peer_control_stream(&w, 3, &env);
                    ctl_delivered = true;
                }
                assert!(apply_event(&w, &format!("3:c:{}", goaway_frame(id))));
                groups.push(".".into());
            }
            b'z' => {
                w.lock().unwrap().bidi_credit = 0;
                groups.push(".".into());
            }
            b'h' => {
                let n: u64 = arg.parse().unwrap();
                w.lock().unwrap().grant_bidi(n);
                groups.push(".".into());
            }
            b'D' => {
                let mut cx = Context::from_waker(&waker);
                match conn.poll_close(&mut cx) {
                    Poll::Pending => groups.push("idle".into()),
                    Poll::Ready(e) => {
                        groups.push(err_text(&conn_err(&e), &w, log0));
                        dead = true;
                    }
                }
            }
            b'R' => {
                let mut fut = match parked.take() {
                    Some(f) => f,
                    None => {
                        let mut sd = sender.take().expect("sender");
                        let req = http::Request::builder().method("GET").uri("https://a/").body(()).unwrap();
                        Box::pin(async move {
                            let r = sd.send_request(req).await;
                            (sd, r)
                        })
                    }
                };
                let mut cx = Context::from_waker(&waker);
                let r = fut.as_mut().poll(&mut cx);
                let (opened, reset): (Vec<u64>, Option<String>) = {
                    let g = w.lock().unwrap();
                    let opened: Vec<u64> = g.log[log0..]
                        .iter()
                        .filter_map(|l| l.strip_prefix("open_bidi ").map(|r| r.parse().unwrap()))
                        .collect();
                    let reset = g.log[log0..].iter().find_map(|l| {
                        let ws: Vec<&str> = l.split(' ').collect();
                        if ws.len() == 3 && ws[0] == "reset" && opened.contains(&ws[1].parse().unwrap_or(u64::MAX)) {
                            Some(ws[2].to_string())
                        } else {
                            None
                        }
                    });
                    (opened, reset)
                };
                let written: usize = { let g = w.lock().unwrap(); opened.iter().map(|id| g.tx_of(*id).len()).sum() };
                let text = match r {
                    Poll::Pending => {
                        parked = Some(fut);
                        if opened.is_empty() { "parked".to_string() } else { format!("parked-after-open:{}", opened[0]) }
                    }
                    Poll::Ready((sd, res)) => {
                        sender = Some(sd);
                        match res {
                            Ok(st) => {
                                streams.push(st);
                                if opened.len() == 1 && written > 0 && reset.is_none() {
                                    format!("open:{}", opened[0])
                                } else {
                                    format!("open?:{:?}:{}:{:?}", opened, written, reset)
                                }
                            }
                            Err(h3::error::StreamError::RemoteClosing) => {
                                if opened.is_empty() {
                                    "closing".to_string()
                                } else if written == 0 {
                                    format!("cancelled:{}:{}", opened[0], reset.unwrap_or_else(|| "-".into()))
                                } else {
                                    format!("closing-after-write:{}:{}", opened[0], written)
                                }
                            }
                            Err(e) => format!("reqerr:{}", stream_err(&e)),
                        }
                    }
                };
                groups.push(text);
            }
            _ => return "driver-error bad-op".into(),
        }
    }
    drop(parked);
    format!("ok {}", groups.join(" "))
}

fn main() {
    run_lines(|ws| match ws {
        [fam, ops] if fam.starts_with("goaway") => server_case(fam, ops),
        [fam, ops] if fam.starts_with("cgoaway") => client_case(fam, ops),
        _ => "driver-error unknown-case".into(),
    });
}
