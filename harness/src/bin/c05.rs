//! C05: one connection error, seen everywhere, never lost between tasks -- on the REAL h3 code.
//!
//! A case builds a real `server::Connection` or `client::Connection` over SimQuic, obtains 1..3
//! request streams and makes every stream handle raise a connection error (the scripted peer
//! violates the protocol on that stream, or the transport reports connection loss) while the
//! driver is polled -- each on its OWN OS THREAD.  The pre-emption callback installed with
//! `h3::verif::install_preempt` blocks on a baton (Mutex + Condvar): exactly one thread runs
//! between two pre-emption points and the order is the schedule of the case line.
//!
//! case line:  err side=<srv|cli> drv=<pce|full> derr=<-|ccs|c2s> loss=<-|x<code>|t|i> k=<n>
//!                 serr=<e1,..,ek> sched=<D|S1|S2|S3>,...
//!   drv=pce : the driver poll is ConnectionInner::poll_connection_error alone
//!   drv=full: server poll_accept_request_stream / client poll_close (three poll_connection_error calls,
//!             transport polling in between; with derr/loss the driver detects an error of its own
//!             after the second one)
//!   serr    : fu = CANCEL_PUSH on a request stream (H3_FRAME_UNEXPECTED), fe = GOAWAY with an over-long
//!             payload (H3_FRAME_ERROR), se = SETTINGS frame carrying a forbidden identifier
//!             (H3_SETTINGS_ERROR), l = nothing queued, the transport reports the connection loss `loss`
//!   sched   : who runs at each pre-emption point.  A turn runs the thread to its next blocking point
//!             ("stream:after_wake" does not block: only the return follows) or to the end of its call;
//!             turns of finished threads are skipped; afterwards unfinished threads are completed,
//!             streams in index order, then the driver.
//! result:  ok d1=<r> woken=<0|1> s1=<r,..> d2=<r> s2=<r,..> s3=<r,..> d3=<r> close=<codes|->
//!   d1 = the scheduled driver poll, woken = the driver's waker flag after phase 1, s1 = the scheduled
//!   stream calls; then sequentially: d2 = driver polled again, s2 = every stream reads again after the
//!   transport was lost (code 999 unless the case already lost it), s3 = every stream then writes (send_data),
//!   d3 = driver polled a third time,
//!   close = codes of all OpenStreams::close calls.  `err harness-timeout` if a schedule does not finish.
//! Which harness: threads + baton (not the single-threaded fallback).
use bytes::Bytes;
use h3v::run_lines;
use h3v::simquic::*;
use std::cell::Cell;
use std::future::Future;
use std::sync::atomic::{AtomicBool, Ordering};
use std::sync::mpsc;
use std::sync::{Arc, Condvar, Mutex};
use std::task::{Context, Poll, Wake, Waker};
use std::time::{Duration, Instant};

struct Flag(AtomicBool);
impl Wake for Flag {
    fn wake(self: Arc<Self>) {
        self.0.store(true, Ordering::SeqCst);
    }
    fn wake_by_ref(self: &Arc<Self>) {
        self.0.store(true, Ordering::SeqCst);
    }
}

// ------------------------------------------------------------------ the baton
/// The schedule lives in shared state; whoever yields (at a pre-emption point, or by finishing) advances it
/// and hands the baton to the next task named -- or simply keeps running when that is itself.
struct Sched {
    epoch: u64,
    sched: Vec<usize>,
    pos: usize,
    current: Option<usize>, // who holds the baton
    done: Vec<bool>,
    free: bool, // no scheduling (before/after a case, or after a timeout)
}
static SCHED: Mutex<Sched> =
    Mutex::new(Sched { epoch: 0, sched: Vec::new(), pos: 0, current: None, done: Vec::new(), free: true });
/// one condition variable per task (0 = driver, 1..3 = streams) and one for the controller
static CVS: [Condvar; 5] = [Condvar::new(), Condvar::new(), Condvar::new(), Condvar::new(), Condvar::new()];
const MAIN: usize = 4;
/// schedules that did not finish in this process; after three the remaining cases are not run any more
static TIMEOUTS: std::sync::atomic::AtomicUsize = std::sync::atomic::AtomicUsize::new(0);
/// self-test knob (C05_TEST_HANG=1): a stream task never returns from "stream:after_store"
static TEST_HANG: AtomicBool = AtomicBool::new(false);
thread_local! { static ME: Cell<Option<(u64, usize)>> = const { Cell::new(None) }; }

impl Sched {
    /// next holder: the next schedule entry naming an unfinished task; after the schedule, unfinished
    /// tasks in the order streams 1..k, driver
    fn advance(&mut self) {
        while self.pos < self.sched.len() {
            let t = self.sched[self.pos];
            self.pos += 1;
            if !self.done[t] {
                self.current = Some(t);
                CVS[t].notify_all();
                return;
            }
        }
        let n = self.done.len();
        for t in (1..n).chain(std::iter::once(0)) {
            if !self.done[t] {
                self.current = Some(t);
                CVS[t].notify_all();
                return;
            }
        }
        self.current = None;
        CVS[MAIN].notify_all();
    }
}

/// blocks the calling task thread until it holds the baton
fn wait_turn(epoch: u64, id: usize) {
    let mut g = SCHED.lock().unwrap();
    loop {
        if g.epoch != epoch || g.free || g.current == Some(id) {
            return;
        }
        g = CVS[id].wait(g).unwrap();
    }
}

/// the pre-emption callback called from inside h3
fn hook(point: &'static str) {
    let (epoch, id) = match ME.with(|m| m.get()) {
        Some(x) => x,
        None => return, // set-up and phase 2 run unscheduled
    };
    if point == "stream:after_wake" {
        return;
    }
    if TEST_HANG.load(Ordering::SeqCst) && point == "stream:after_store" {
        loop {
            std::thread::sleep(Duration::from_secs(3600));
        }
    }
    {
        let mut g = SCHED.lock().unwrap();
        if g.epoch != epoch || g.free {
            return;
        }
        g.advance(); // this turn is over
        if g.current == Some(id) {
            return;
        }
    }
    wait_turn(epoch, id);
}

/// marks the task finished when dropped (also when the task's call panicked)
struct Finish(u64, usize);
impl Drop for Finish {
    fn drop(&mut self) {
        ME.with(|m| m.set(None));
        let mut g = SCHED.lock().unwrap();
        if g.epoch == self.0 && !g.free {
            g.done[self.1] = true;
            g.advance();
        }
    }
}

/// starts the schedule and waits until every task has finished
fn run_schedule(epoch: u64, deadline: Instant) -> Result<(), ()> {
    let mut g = SCHED.lock().unwrap();
    g.advance();
    loop {
        if g.epoch != epoch {
            return Err(());
        }
        if g.done.iter().all(|d| *d) {
            g.free = true;
            return Ok(());
        }
        let now = Instant::now();
        if now >= deadline {
            g.free = true;
            for cv in CVS.iter() {
                cv.notify_all();
            }
            return Err(());
        }
        let (g2, _) = CVS[MAIN].wait_timeout(g, deadline - now).unwrap();
        g = g2;
    }
}

// ------------------------------------------------------------------ persistent task threads
type Job = Box<dyn FnOnce() + Send>;
struct Pool {
    txs: Vec<mpsc::Sender<Job>>,
}
impl Pool {
    fn new() -> Pool {
        let mut txs = Vec::new();
        for _ in 0..4 {
            let (tx, rx) = mpsc::channel::<Job>();
            std::thread::spawn(move || {
                for job in rx {
                    let _ = std::panic::catch_unwind(std::panic::AssertUnwindSafe(job));
                }
            });
            txs.push(tx);
        }
        Pool { txs }
    }
}

// ------------------------------------------------------------------ handles
type SrvConn = h3::server::Connection<SimConn, Bytes>;
type SrvStream = h3::server::RequestStream<SimBidi<Bytes>, Bytes>;
type CliConn = h3::client::Connection<SimConn, Bytes>;
type CliSend = h3::client::SendRequest<SimOpener, Bytes>;
type CliStream = h3::client::RequestStream<SimBidi<Bytes>, Bytes>;

enum Driver {
    Srv(SrvConn),
    Cli(CliConn, CliSend),
}
enum Stream {
    Srv(SrvStream),
    Cli(CliStream),
}

fn noop_cx_waker() -> Waker {
    Waker::from(Arc::new(Flag(AtomicBool::new(false))))
}

/// polls a future with a throw-away waker until it is ready (set-up only: everything it waits for is queued)
fn settle<F: Future>(f: F) -> F::Output {
    let w = noop_cx_waker();
    let mut cx = Context::from_waker(&w);
    let mut f = std::pin::pin!(f);
    for _ in 0..1000 {
        if let Poll::Ready(x) = f.as_mut().poll(&mut cx) {
            return x;
        }
    }
    panic!("set-up future never became ready");
}

fn poll_once<F: Future>(f: F, cx: &mut Context<'_>) -> Poll<F::Output> {
    let mut f = std::pin::pin!(f);
    f.as_mut().poll(cx)
}

fn poll_driver(d: &mut Driver, full: bool, cx: &mut Context<'_>) -> String {
    match (d, full) {
        (Driver::Srv(c), false) => match c.inner.poll_connection_error(cx) {
            Poll::Pending => "pending".into(),
            Poll::Ready(Ok(())) => "ok".into(),
            Poll::Ready(Err(e)) => conn_err(&e),
        },
        (Driver::Cli(c, _), false) => match c.inner.poll_connection_error(cx) {
            Poll::Pending => "pending".into(),
            Poll::Ready(Ok(())) => "ok".into(),
            Poll::Ready(Err(e)) => conn_err(&e),
        },
        (Driver::Srv(c), true) => match c.poll_accept_request_stream(cx) {
            Poll::Pending => "pending".into(),
            Poll::Ready(Ok(_)) => "ok".into(),
            Poll::Ready(Err(e)) => conn_err(&e),
        },
        (Driver::Cli(c, _), true) => match c.poll_close(cx) {
            Poll::Pending => "pending".into(),
            Poll::Ready(e) => conn_err(&e),
        },
    }
}

fn show_data<B>(p: Poll<Result<Option<B>, h3::error::StreamError>>) -> String {
    match p {
        Poll::Pending => "pending".into(),
        Poll::Ready(Ok(Some(_))) => "data".into(),
        Poll::Ready(Ok(None)) => "none".into(),
        Poll::Ready(Err(e)) => stream_err(&e),
    }
}

/// the scheduled stream call: server reads the request body, client waits for the response
fn stream_first(s: &mut Stream, cx: &mut Context<'_>) -> String {
    match s {
        Stream::Srv(s) => show_data(s.poll_recv_data(cx)),
        Stream::Cli(s) => match poll_once(s.recv_response(), cx) {
            Poll::Pending => "pending".into(),
            Poll::Ready(Ok(_)) => "response".into(),
            Poll::Ready(Err(e)) => stream_err(&e),
        },
    }
}

fn stream_again(s: &mut Stream, cx: &mut Context<'_>) -> String {
    match s {
        Stream::Srv(s) => show_data(s.poll_recv_data(cx)),
        Stream::Cli(s) => show_data(s.poll_recv_data(cx)),
    }
}

/// a write after the transport was lost (handle_quic_stream_error on the send path)
fn stream_send(s: &mut Stream, cx: &mut Context<'_>) -> String {
    let r = match s {
        Stream::Srv(s) => poll_once(s.send_data(Bytes::from_static(b"x")), cx),
        Stream::Cli(s) => poll_once(s.send_data(Bytes::from_static(b"x")), cx),
    };
    match r {
        Poll::Pending => "pending".into(),
        Poll::Ready(Ok(())) => "sent".into(),
        Poll::Ready(Err(e)) => stream_err(&e),
    }
}

const HEADERS_GET: [&str; 2] = ["0108", "0000d1d7500161c1"];

fn violation(kind: &str) -> Option<&'static str> {
    match kind {
        "fu" => Some("030100"),     // CANCEL_PUSH(0) on a request stream
        "fe" => Some("07020000"),   // GOAWAY whose payload is longer than its one field
        "se" => Some("04020200"),   // SETTINGS with the HTTP/2-reserved identifier 0x2
        "l" => None,
        _ => panic!("driver: unknown stream error kind {}", kind),
    }
}

struct Case {
    server: bool,
    full: bool,
    derr: String,
    loss: String,
    k: usize,
    serr: Vec<String>,
    sched: Vec<usize>,
}

fn parse(ws: &[&str]) -> Case {
    let mut c = Case { server: true, full: false, derr: "-".into(), loss: "-".into(), k: 0, serr: vec![], sched: vec![] };
    for w in &ws[1..] {
        let (key, v) = w.split_once('=').expect("key=value");
        match key {
            "side" => c.server = v == "srv",
            "drv" => c.full = v == "full",
            "derr" => c.derr = v.into(),
            "loss" => c.loss = v.into(),
            "k" => c.k = v.parse().unwrap(),
            "serr" => c.serr = v.split(',').map(|s| s.to_string()).collect(),
            "sched" => {
                c.sched = if v == "-" {
                    vec![]
                } else {
                    v.split(',')
                        .map(|t| if t == "D" { 0 } else { t[1..].parse::<usize>().unwrap() })
                        .collect()
                }
            }
            _ => panic!("driver: unknown key {}", key),
        }
    }
    assert!(c.k >= 1 && c.k <= 3 && c.serr.len() == c.k, "driver: k/serr");
    c
}

fn ev(w: &Shared, e: &str) {
    assert!(apply_event(w, e), "bad event {}", e);
}

fn build(c: &Case, dflag: &Arc<Flag>) -> (Shared, Driver, Vec<Stream>) {
    let dwaker = Waker::from(dflag.clone());
    let mut dcx = Context::from_waker(&dwaker);
    if c.server {
        let w = World::new(Side::Server, 100, 100, None);
        let mut conn: SrvConn = settle(h3::server::builder().build(SimConn { world: w.clone() })).expect("server build");
        ev(&w, "U2");
        ev(&w, "2:c:000400");
        let mut streams = Vec::new();
        for i in 0..c.k {
            let id = 4 * i as u64;
            ev(&w, &format!("B{}", id));
            for h in HEADERS_GET {
                ev(&w, &format!("{}:c:{}", id, h));
            }
            // the driver accepts with ITS waker (so the AtomicWaker holds it, as in a running server)
            let resolver = {
                let mut got = None;
                for _ in 0..10 {
                    if let Poll::Ready(r) = poll_once(conn.accept(), &mut dcx) {
                        got = Some(r);
                        break;
                    }
                }
                got.expect("accept ready").expect("accept ok").expect("a request")
            };
            let (_req, s) = settle(resolver.resolve_request()).expect("resolve_request");
            streams.push(Stream::Srv(s));
        }
        (w, Driver::Srv(conn), streams)
    } else {
        let w = World::new(Side::Client, 100, 100, None);
        let (mut conn, mut send): (CliConn, CliSend) =
            settle(h3::client::builder().build::<_, _, Bytes>(SimConn { world: w.clone() })).expect("client build");
        ev(&w, "U3");
        ev(&w, "3:c:000400");
        if c.full {
            // steady state: the driver has been polled and is parked
            match conn.poll_close(&mut dcx) {
                Poll::Pending => {}
                Poll::Ready(e) => panic!("client set-up poll_close: {:?}", e),
            }
        }
        let mut streams = Vec::new();
        for _ in 0..c.k {
            let req = http::Request::builder().method("GET").uri("https://a/").body(()).unwrap();
            let s = settle(send.send_request(req)).expect("send_request");
            streams.push(Stream::Cli(s));
        }
        (w, Driver::Cli(conn, send), streams)
    }
}

fn run_case(c: &Case, pool: &mut Pool) -> String {
    if TIMEOUTS.load(Ordering::SeqCst) >= 3 {
        return "err harness-timeout".into();
    }
    let dflag = Arc::new(Flag(AtomicBool::new(false)));
    let (w, driver, streams) = build(c, &dflag);
    let ctl: u64 = if c.server { 2 } else { 3 };
    // what the peer / the transport does, all of it before the scheduled calls
    for (i, kind) in c.serr.iter().enumerate() {
        if let Some(h) = violation(kind) {
            ev(&w, &format!("{}:c:{}", 4 * i, h));
        } else {
            assert!(c.loss != "-", "driver: serr=l needs loss");
        }
    }
    match c.derr.as_str() {
        "-" => {}
        "ccs" => ev(&w, &format!("{}:F", ctl)),
        "c2s" => ev(&w, &format!("{}:c:0400", ctl)),
        x => panic!("driver: unknown derr {}", x),
    }
    match c.loss.as_str() {
        "-" => {}
        "t" => ev(&w, "T"),
        "i" => ev(&w, "I"),
        x => ev(&w, &format!("X{}", &x[1..])),
    }
    dflag.0.store(false, Ordering::SeqCst);

    // ---- phase 1: scheduled, one OS thread per task
    let n = c.k + 1;
    let epoch = {
        let mut g = SCHED.lock().unwrap();
        g.epoch += 1;
        g.sched = c.sched.clone();
        g.pos = 0;
        g.current = None;
        g.done = vec![false; n];
        g.free = false;
        g.epoch
    };
    for &t in &c.sched {
        assert!(t < n, "driver: schedule names task {}", t);
    }
    let (dtx, drx) = mpsc::channel::<(String, Driver)>();
    let full = c.full;
    let dflag2 = dflag.clone();
    let mut driver = driver;
    let job: Job = Box::new(move || {
        ME.with(|m| m.set(Some((epoch, 0))));
        let _fin = Finish(epoch, 0);
        wait_turn(epoch, 0);
        let waker = Waker::from(dflag2.clone());
        // the executor clears the task's flag before it polls
        dflag2.0.store(false, Ordering::SeqCst);
        let mut cx = Context::from_waker(&waker);
        let r = poll_driver(&mut driver, full, &mut cx);
        ME.with(|m| m.set(None));
        let _ = dtx.send((r, driver));
    });
    pool.txs[0].send(job).expect("pool");
    let mut srx = Vec::new();
    for (i, s) in streams.into_iter().enumerate() {
        let (tx, rx) = mpsc::channel::<(String, Stream)>();
        srx.push(rx);
        let mut s = s;
        let job: Job = Box::new(move || {
            ME.with(|m| m.set(Some((epoch, i + 1))));
            let _fin = Finish(epoch, i + 1);
            wait_turn(epoch, i + 1);
            let waker = noop_cx_waker();
            let mut cx = Context::from_waker(&waker);
            let r = stream_first(&mut s, &mut cx);
            ME.with(|m| m.set(None));
            let _ = tx.send((r, s));
        });
        pool.txs[i + 1].send(job).expect("pool");
    }
    let deadline = Instant::now() + Duration::from_secs(if TIMEOUTS.load(Ordering::SeqCst) == 0 { 20 } else { 3 });
    if run_schedule(epoch, deadline).is_err() {
        TIMEOUTS.fetch_add(1, Ordering::SeqCst);
        // the stuck threads are abandoned with their pool
        *pool = Pool::new();
        return "err harness-timeout".into();
    }
    let tmo = Duration::from_secs(5);
    let (d1, mut driver) = match drx.recv_timeout(tmo) {
        Ok(x) => x,
        Err(mpsc::RecvTimeoutError::Disconnected) => return "panic driver task died".into(),
        Err(_) => return "err harness-timeout".into(),
    };
    let mut s1 = Vec::new();
    let mut streams = Vec::new();
    for rx in srx {
        match rx.recv_timeout(tmo) {
            Ok((r, s)) => {
                s1.push(r);
                streams.push(s);
            }
            Err(mpsc::RecvTimeoutError::Disconnected) => return "panic stream task died".into(),
            Err(_) => return "err harness-timeout".into(),
        }
    }

    // ---- phase 2: later calls on every handle, sequential
    let woken = dflag.0.load(Ordering::SeqCst);
    let dwaker = Waker::from(dflag.clone());
    let mut dcx = Context::from_waker(&dwaker);
    dflag.0.store(false, Ordering::SeqCst);
    let d2 = poll_driver(&mut driver, c.full, &mut dcx);
    if c.loss == "-" {
        ev(&w, "X999");
    }
    let mut s2 = Vec::new();
    let mut s3 = Vec::new();
    {
        let nw = noop_cx_waker();
        let mut cx = Context::from_waker(&nw);
        for s in streams.iter_mut() {
            s2.push(stream_again(s, &mut cx));
        }
        for s in streams.iter_mut() {
            s3.push(stream_send(s, &mut cx));
        }
    }
    dflag.0.store(false, Ordering::SeqCst);
    let d3 = poll_driver(&mut driver, c.full, &mut dcx);
    let closes: Vec<String> = {
        let g = w.lock().unwrap();
        g.log
            .iter()
            .filter_map(|l| l.strip_prefix("close ").map(|r| r.split(' ').next().unwrap().to_string()))
            .collect()
    };
    let out = format!(
        "ok d1={} woken={} s1={} d2={} s2={} s3={} d3={} close={}",
        d1,
        woken as u8,
        s1.join(","),
        d2,
        s2.join(","),
        s3.join(","),
        d3,
        if closes.is_empty() { "-".to_string() } else { closes.join(",") }
    );
    // dropping the handles closes the connection (H3_NO_ERROR): after the observation was taken
    drop(streams);
    drop(driver);
    out
}

fn main() {
    h3::verif::install_preempt(hook);
    if std::env::var("C05_TEST_HANG").is_ok() {
        TEST_HANG.store(true, Ordering::SeqCst);
    }
    let mut pool = Pool::new();
    run_lines(|ws| match ws {
        ["err", ..] => run_case(&parse(ws), &mut pool),
        _ => "driver-error unknown-case".into(),
    });
}
