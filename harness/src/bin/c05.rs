//! C05: one connection error, seen everywhere, never lost between tasks -- on the REAL h3 code.
//!
//! A case builds a real `server::Connection` or `client::Connection` over SimQuic, obtains 1..3
//! request streams and makes every stream handle raise a connection error (the scripted peer
//! violates the protocol on that stream, or the transport reports connection loss) while the
//! driver is polled -- each on its OWN OS THREAD.  The pre-emption callback installed with
//! `h3::verif::install_preempt` blocks on a baton (Mutex + Condvar): exactly one thread runs
//! between two pre-emption points and the order is the schedule of the case line.
//!
//! case line:  err side=<srv|cli> drv=<pce|full> np=<1|2> derr=<-|ccs|c2s|cms|cid> loss=<-|x<code>|t|i>
//!                 closing=<-|goaway|shutdown> k=<n> serr=<kind1,..,kindk> sched=<D|S1|S2|S3>,...
//!   drv=pce : the driver poll is ConnectionInner::poll_connection_error alone
//!   drv=full: server poll_accept_request_stream / client poll_close (three poll_connection_error calls,
//!             transport polling in between; with derr/loss the driver detects an error of its own: after the
//!             second call for ccs (control stream closed), c2s (second SETTINGS), cms (first control frame is
//!             not SETTINGS), a lost transport; after the fourth for cid (GOAWAY with a larger id))
//!             (2cs second control stream, cfe malformed control frame, client cpp MAX_PUSH_ID: like ccs; client cbi a
//!             server-initiated bidi stream: after the third call)
//!   np      : number of scheduled driver polls (the second only if the first returned Pending); EVERY driver
//!             poll of a case (set-up, scheduled, later) gets a waker of its own
//!   closing : before the scheduled phase the connection is already shutting down (peer GOAWAY processed by the
//!             driver / own shutdown(1) called): is_closing() is true
//!   serr    : which handle raises, through which API, what the peer did.  On a RequestStream read (server
//!             poll_recv_data / client recv_response): fu CANCEL_PUSH (H3_FRAME_UNEXPECTED), fe GOAWAY with an
//!             over-long payload (H3_FRAME_ERROR), se SETTINGS with a forbidden id (H3_SETTINGS_ERROR), ue a
//!             truncated frame then FIN (the UnexpectedEnd arm, H3_FRAME_ERROR), l lost transport; tfu
//!             poll_recv_trailers meeting CANCEL_PUSH; qp malformed field section (QPACK_DECOMPRESSION_FAILED):
//!             server RequestResolver::resolve_request / client recv_response.  On a write with the transport
//!             lost: wd send_data, wt send_trailers, wf finish, wr server send_response.  On the halves of
//!             split(): xfu / xl the recv half reads CANCEL_PUSH / the loss, xw the send half writes.  Client
//!             SendRequest: rq send_request on the lost transport, dr the last SendRequest is dropped
//!             (H3_NO_ERROR, nothing is returned).
//!   sched   : who runs at each pre-emption point.  A turn runs the thread to its next blocking point
//!             ("stream:after_wake" does not block: only the return follows) or to the end of its call;
//!             turns of finished threads are skipped; afterwards unfinished threads are completed,
//!             streams in index order, then the driver.
//! result:  ok keys=<0|1,..> d1=<r> woken=<0|1> s1=<r,..> d2=<r> d2s=<r> s2=<r,..> s3=<r,..> d4=<r> d3=<r> close=<codes|->
//!   keys = per task: every handle it owns (both halves after split) has the DRIVER's SharedState;
//!   d1 = the last scheduled driver poll, woken = the flag of the waker passed to THAT poll, s1 = the scheduled
//!   stream calls (- = the call returns nothing); then sequentially: d2 = driver polled again, d2s = the driver calls
//!   shutdown(1) (the transport still takes writes unless the case lost it), the transport is
//!   lost (code 999 unless the case already lost it), s2 = every stream handle that still exists reads (SendRequest:
//!   send_request again), s3 = ... writes (send_data), d4 = the driver calls shutdown(0) (the GOAWAY write fails),
//!   d3 = driver polled a last time (drv=full: through server accept() / client wait_idle()), close = codes of all OpenStreams::close calls before the handles are dropped.
//!   `err harness-timeout` if a schedule does not finish.
//! Which harness: threads + baton (not the single-threaded fallback).
use bytes::Bytes;
use h3v::run_lines;
use h3::ConnectionState;
use h3v::simquic::*;
use std::cell::Cell;
use std::future::Future;
use std::sync::atomic::{AtomicBool, Ordering};
use std::sync::mpsc;
use std::sync::{Arc, Condvar, Mutex};
use std::task::{Context, Poll, Wake, Waker};
use std::time::{Duration, Instant};

struct Flag(AtomicBool);
impl Wake for Flag {
    fn wake(self: Arc<Self>) {
        self.0.store(true, Ordering::SeqCst);
    }
    fn wake_by_ref(self: &Arc<Self>) {
        self.0.store(true, Ordering::SeqCst);
    }
}

// ------------------------------------------------------------------ the baton
/// The schedule lives in shared state; whoever yields (at a pre-emption point, or by finishing) advances it
/// and hands the baton to the next task named -- or simply keeps running when that is itself.
struct Sched {
    epoch: u64,
    sched: Vec<usize>,
    pos: usize,
    current: Option<usize>, // who holds the baton
    done: Vec<bool>,
    free: bool, // no scheduling (before/after a case, or after a timeout)
}
static SCHED: Mutex<Sched> =
    Mutex::new(Sched { epoch: 0, sched: Vec::new(), pos: 0, current: None, done: Vec::new(), free: true });
/// one condition variable per task (0 = driver, 1..3 = streams) and one for the controller
static CVS: [Condvar; 5] = [Condvar::new(), Condvar::new(), Condvar::new(), Condvar::new(), Condvar::new()];
const MAIN: usize = 4;
/// schedules that did not finish in this process; after three the remaining cases are not run any more
static TIMEOUTS: std::sync::atomic::AtomicUsize = std::sync::atomic::AtomicUsize::new(0);
/// self-test knob (C05_TEST_HANG=1): a stream task never returns from "stream:after_store"
static TEST_HANG: AtomicBool = AtomicBool::new(false);
thread_local! { static ME: Cell<Option<(u64, usize)>> = const { Cell::new(None) }; }

impl Sched {
    /// next holder: the next schedule entry naming an unfinished task; after the schedule, unfinished
    /// tasks in the order streams 1..k, driver
    fn advance(&mut self) {
        while self.pos < self.sched.len() {
            let t = self.sched[self.pos];
            self.pos += 1;
            if !self.done[t] {
                self.current = Some(t);
                CVS[t].notify_all();
                return;
            }
        }
        let n = self.done.len();
        for t in (1..n).chain(std::iter::once(0)) {
            if !self.done[t] {
                self.current = Some(t);
                CVS[t].notify_all();
                return;
            }
        }
        self.current = None;
        CVS[MAIN].notify_all();
    }
}

/// blocks the calling task thread until it holds the baton
fn wait_turn(epoch: u64, id: usize) {
    let mut g = SCHED.lock().unwrap();
    loop {
        if g.epoch != epoch || g.free || g.current == Some(id) {
            return;
        }
        g = CVS[id].wait(g).unwrap();
    }
}

/// the pre-emption callback called from inside h3
fn hook(point: &'static str) {
    let (epoch, id) = match ME.with(|m| m.get()) {
        Some(x) => x,
        None => return, // set-up and phase 2 run unscheduled
    };
    if point == "stream:after_wake" {
        return;
    }
    if TEST_HANG.load(Ordering::SeqCst) && point == "stream:after_store" {
        loop {
            std::thread::sleep(Duration::from_secs(3600));
        }
    }
    {
        let mut g = SCHED.lock().unwrap();
        if g.epoch != epoch || g.free {
            return;
        }
        g.advance(); // this turn is over
        if g.current == Some(id) {
            return;
        }
    }
    wait_turn(epoch, id);
}

/// marks the task finished when dropped (also when the task's call panicked)
struct Finish(u64, usize);
impl Drop for Finish {
    fn drop(&mut self) {
        ME.with(|m| m.set(None));
        let mut g = SCHED.lock().unwrap();
        if g.epoch == self.0 && !g.free {
            g.done[self.1] = true;
            g.advance();
        }
    }
}

/// starts the schedule and waits until every task has finished
fn run_schedule(epoch: u64, deadline: Instant) -> Result<(), ()> {
    let mut g = SCHED.lock().unwrap();
    g.advance();
    loop {
        if g.epoch != epoch {
            return Err(());
        }
        if g.done.iter().all(|d| *d) {
            g.free = true;
            return Ok(());
        }
        let now = Instant::now();
        if now >= deadline {
            g.free = true;
            for cv in CVS.iter() {
                cv.notify_all();
            }
            return Err(());
        }
        let (g2, _) = CVS[MAIN].wait_timeout(g, deadline - now).unwrap();
        g = g2;
    }
}

// ------------------------------------------------------------------ persistent task threads
type Job = Box<dyn FnOnce() + Send>;
struct Pool {
    txs: Vec<mpsc::Sender<Job>>,
}
impl Pool {
    fn new() -> Pool {
        let mut txs = Vec::new();
        for _ in 0..4 {
            let (tx, rx) = mpsc::channel::<Job>();
            std::thread::spawn(move || {
                for job in rx {
                    let _ = std::panic::catch_unwind(std::panic::AssertUnwindSafe(job));
                }
            });
            txs.push(tx);
        }
        Pool { txs }
    }
}

// ------------------------------------------------------------------ handles
type SrvConn = h3::server::Connection<SimConn, Bytes>;
type SrvStream = h3::server::RequestStream<SimBidi<Bytes>, Bytes>;
type SrvSendHalf = h3::server::RequestStream<SimSend<Bytes>, Bytes>;
type SrvRecvHalf = h3::server::RequestStream<SimRecv, Bytes>;
type SrvResolver = h3::server::RequestResolver<SimConn, Bytes>;
type CliConn = h3::client::Connection<SimConn, Bytes>;
type CliSend = h3::client::SendRequest<SimOpener, Bytes>;
type CliStream = h3::client::RequestStream<SimBidi<Bytes>, Bytes>;
type CliSendHalf = h3::client::RequestStream<SimSend<Bytes>, Bytes>;
type CliRecvHalf = h3::client::RequestStream<SimRecv, Bytes>;

enum Driver {
    Srv(SrvConn),
    Cli(CliConn, Option<CliSend>),
}
/// what a stream task owns
enum Handle {
    Srv(SrvStream),
    Cli(CliStream),
    SrvSplit(SrvSendHalf, SrvRecvHalf),
    CliSplit(CliSendHalf, CliRecvHalf),
    Resolver(Option<SrvResolver>),
    SendReq(Option<CliSend>),
}

fn key_of<T: ConnectionState>(x: &T) -> usize {
    x.shared_state() as *const h3::SharedState as usize
}

impl Driver {
    fn key(&self) -> usize {
        match self {
            Driver::Srv(c) => key_of(c),
            Driver::Cli(c, _) => key_of(c),
        }
    }
}
impl Handle {
    fn same_state(&self, k: usize) -> bool {
        match self {
            Handle::Srv(s) => key_of(s) == k,
            Handle::Cli(s) => key_of(s) == k,
            Handle::SrvSplit(a, b) => key_of(a) == k && key_of(b) == k,
            Handle::CliSplit(a, b) => key_of(a) == k && key_of(b) == k,
            Handle::Resolver(r) => r.as_ref().map(|r| key_of(r) == k).unwrap_or(true),
            Handle::SendReq(r) => r.as_ref().map(|r| key_of(r) == k).unwrap_or(true),
        }
    }
}

fn new_flag() -> Arc<Flag> {
    Arc::new(Flag(AtomicBool::new(false)))
}
fn noop_cx_waker() -> Waker {
    Waker::from(new_flag())
}

/// polls a future with a throw-away waker until it is ready (set-up only: everything it waits for is queued)
fn settle<F: Future>(f: F) -> F::Output {
    let w = noop_cx_waker();
    let mut cx = Context::from_waker(&w);
    let mut f = std::pin::pin!(f);
    for _ in 0..1000 {
        if let Poll::Ready(x) = f.as_mut().poll(&mut cx) {
            return x;
        }
    }
    panic!("set-up future never became ready");
}

fn poll_once<F: Future>(f: F, cx: &mut Context<'_>) -> Poll<F::Output> {
    let mut f = std::pin::pin!(f);
    f.as_mut().poll(cx)
}

fn show_pce(p: Poll<Result<(), h3::error::ConnectionError>>) -> String {
    match p {
        Poll::Pending => "pending".into(),
        Poll::Ready(Ok(())) => "ok".into(),
        Poll::Ready(Err(e)) => conn_err(&e),
    }
}

/// one driver poll, with a waker of its own; returns the result and that waker's flag
fn poll_driver(d: &mut Driver, full: bool) -> (String, Arc<Flag>) {
    let flag = new_flag();
    let waker = Waker::from(flag.clone());
    let mut cx = Context::from_waker(&waker);
    let r = match (d, full) {
        (Driver::Srv(c), false) => show_pce(c.inner.poll_connection_error(&mut cx)),
        (Driver::Cli(c, _), false) => show_pce(c.inner.poll_connection_error(&mut cx)),
        (Driver::Srv(c), true) => match c.poll_accept_request_stream(&mut cx) {
            Poll::Pending => "pending".into(),
            Poll::Ready(Ok(_)) => "ok".into(),
            Poll::Ready(Err(e)) => conn_err(&e),
        },
        (Driver::Cli(c, _), true) => match c.poll_close(&mut cx) {
            Poll::Pending => "pending".into(),
            Poll::Ready(e) => conn_err(&e),
        },
    };
    (r, flag)
}

/// the last driver poll goes through the documented API: server accept() / client wait_idle()
fn poll_driver_api(d: &mut Driver, full: bool) -> String {
    if !full {
        return poll_driver(d, full).0;
    }
    let flag = new_flag();
    let waker = Waker::from(flag);
    let mut cx = Context::from_waker(&waker);
    match d {
        Driver::Srv(c) => match poll_once(c.accept(), &mut cx) {
            Poll::Pending => "pending".into(),
            Poll::Ready(Ok(Some(_))) => "ok".into(),
            Poll::Ready(Ok(None)) => "none".into(),
            Poll::Ready(Err(e)) => conn_err(&e),
        },
        Driver::Cli(c, _) => match poll_once(c.wait_idle(), &mut cx) {
            Poll::Pending => "pending".into(),
            Poll::Ready(e) => conn_err(&e),
        },
    }
}

fn driver_shutdown(d: &mut Driver, n: usize) -> String {
    let flag = new_flag();
    let waker = Waker::from(flag);
    let mut cx = Context::from_waker(&waker);
    let r = match d {
        Driver::Srv(c) => poll_once(c.shutdown(n), &mut cx),
        Driver::Cli(c, _) => poll_once(c.shutdown(n), &mut cx),
    };
    match r {
        Poll::Pending => "pending".into(),
        Poll::Ready(Ok(())) => "ok".into(),
        Poll::Ready(Err(e)) => conn_err(&e),
    }
}

fn show_data<B>(p: Poll<Result<Option<B>, h3::error::StreamError>>) -> String {
    match p {
        Poll::Pending => "pending".into(),
        Poll::Ready(Ok(Some(_))) => "data".into(),
        Poll::Ready(Ok(None)) => "none".into(),
        Poll::Ready(Err(e)) => stream_err(&e),
    }
}
fn show_unit(p: Poll<Result<(), h3::error::StreamError>>) -> String {
    match p {
        Poll::Pending => "pending".into(),
        Poll::Ready(Ok(())) => "done".into(),
        Poll::Ready(Err(e)) => stream_err(&e),
    }
}
fn show_trailers(p: Poll<Result<Option<http::HeaderMap>, h3::error::StreamError>>) -> String {
    match p {
        Poll::Pending => "pending".into(),
        Poll::Ready(Ok(Some(_))) => "trailers".into(),
        Poll::Ready(Ok(None)) => "none".into(),
        Poll::Ready(Err(e)) => stream_err(&e),
    }
}

fn a_request() -> http::Request<()> {
    http::Request::builder().method("GET").uri("https://a/").body(()).unwrap()
}
fn some_trailers() -> http::HeaderMap {
    let mut m = http::HeaderMap::new();
    m.insert("x-t", http::HeaderValue::from_static("1"));
    m
}

/// the scheduled call of a stream task
fn stream_first(kind: &str, h: &mut Handle, cx: &mut Context<'_>) -> String {
    let x = || Bytes::from_static(b"x");
    match (kind, h) {
        ("fu" | "fe" | "se" | "ue" | "l", Handle::Srv(s)) => show_data(s.poll_recv_data(cx)),
        ("fu" | "fe" | "se" | "ue" | "l" | "qp", Handle::Cli(s)) => match poll_once(s.recv_response(), cx) {
            Poll::Pending => "pending".into(),
            Poll::Ready(Ok(_)) => "response".into(),
            Poll::Ready(Err(e)) => stream_err(&e),
        },
        ("tfu", Handle::Srv(s)) => show_trailers(s.poll_recv_trailers(cx)),
        ("tfu", Handle::Cli(s)) => show_trailers(s.poll_recv_trailers(cx)),
        ("wd", Handle::Srv(s)) => show_unit(poll_once(s.send_data(x()), cx)),
        ("wd", Handle::Cli(s)) => show_unit(poll_once(s.send_data(x()), cx)),
        ("wt", Handle::Srv(s)) => show_unit(poll_once(s.send_trailers(some_trailers()), cx)),
        ("wt", Handle::Cli(s)) => show_unit(poll_once(s.send_trailers(some_trailers()), cx)),
        ("wf", Handle::Srv(s)) => show_unit(poll_once(s.finish(), cx)),
        ("wf", Handle::Cli(s)) => show_unit(poll_once(s.finish(), cx)),
        ("wr", Handle::Srv(s)) => {
            let resp = http::Response::builder().status(200).body(()).unwrap();
            show_unit(poll_once(s.send_response(resp), cx))
        }
        ("xfu" | "xl", Handle::SrvSplit(_, r)) => show_data(r.poll_recv_data(cx)),
        ("xfu" | "xl", Handle::CliSplit(_, r)) => show_data(r.poll_recv_data(cx)),
        ("xw", Handle::SrvSplit(w, _)) => show_unit(poll_once(w.send_data(x()), cx)),
        ("xw", Handle::CliSplit(w, _)) => show_unit(poll_once(w.send_data(x()), cx)),
        ("qp", Handle::Resolver(r)) => {
            let resolver = r.take().expect("resolver");
            match poll_once(resolver.resolve_request(), cx) {
                Poll::Pending => "pending".into(),
                Poll::Ready(Ok(_)) => "request".into(),
                Poll::Ready(Err(e)) => stream_err(&e),
            }
        }
        ("rq", Handle::SendReq(Some(r))) => match poll_once(r.send_request(a_request()), cx) {
            Poll::Pending => "pending".into(),
            Poll::Ready(Ok(_)) => "stream".into(),
            Poll::Ready(Err(e)) => stream_err(&e),
        },
        ("dr", Handle::SendReq(r)) => {
            drop(r.take());
            "-".into()
        }
        (k, _) => panic!("driver: kind {} does not fit the handle", k),
    }
}

/// later call 1: a read (SendRequest: another send_request); "-" when the handle is gone
fn stream_again(h: &mut Handle, cx: &mut Context<'_>) -> String {
    match h {
        Handle::Srv(s) => show_data(s.poll_recv_data(cx)),
        Handle::Cli(s) => show_data(s.poll_recv_data(cx)),
        Handle::SrvSplit(_, r) => show_data(r.poll_recv_data(cx)),
        Handle::CliSplit(_, r) => show_data(r.poll_recv_data(cx)),
        Handle::Resolver(_) => "-".into(),
        Handle::SendReq(Some(r)) => match poll_once(r.send_request(a_request()), cx) {
            Poll::Pending => "pending".into(),
            Poll::Ready(Ok(_)) => "stream".into(),
            Poll::Ready(Err(e)) => stream_err(&e),
        },
        Handle::SendReq(None) => "-".into(),
    }
}

/// later call 2: a write after the transport was lost (handle_quic_stream_error on the send path)
fn stream_send(h: &mut Handle, cx: &mut Context<'_>) -> String {
    let x = Bytes::from_static(b"x");
    match h {
        Handle::Srv(s) => show_unit(poll_once(s.send_data(x), cx)),
        Handle::Cli(s) => show_unit(poll_once(s.send_data(x), cx)),
        Handle::SrvSplit(w, _) => show_unit(poll_once(w.send_data(x), cx)),
        Handle::CliSplit(w, _) => show_unit(poll_once(w.send_data(x), cx)),
        Handle::Resolver(_) | Handle::SendReq(_) => "-".into(),
    }
}

const HEADERS_GET: [&str; 2] = ["0108", "0000d1d7500161c1"];
/// a HEADERS frame whose field section does not decode (required insert count 1 with an empty dynamic table)
const HEADERS_BAD: &str = "01020100";

/// bytes the peer sends on the task's stream before the scheduled phase (None: nothing)
fn violation(kind: &str) -> Option<&'static [&'static str]> {
    match kind {
        "fu" | "tfu" | "xfu" => Some(&["c:030100"]), // CANCEL_PUSH(0) on a request stream
        "fe" => Some(&["c:07020000"]),               // GOAWAY whose payload is longer than its one field
        "se" => Some(&["c:04020200"]),               // SETTINGS with the HTTP/2-reserved identifier 0x2
        "ue" => Some(&["c:0705", "F"]),              // a GOAWAY frame header announcing 5 bytes, then FIN
        "l" | "wd" | "wt" | "wf" | "wr" | "xl" | "xw" | "rq" | "dr" | "qp" => None,
        _ => panic!("driver: unknown stream error kind {}", kind),
    }
}
fn needs_loss(kind: &str) -> bool {
    matches!(kind, "l" | "wd" | "wt" | "wf" | "wr" | "xl" | "xw" | "rq")
}

struct Case {
    server: bool,
    full: bool,
    np: usize,
    derr: String,
    loss: String,
    closing: String,
    k: usize,
    serr: Vec<String>,
    sched: Vec<usize>,
}

fn parse(ws: &[&str]) -> Case {
    let mut c = Case {
        server: true,
        full: false,
        np: 1,
        derr: "-".into(),
        loss: "-".into(),
        closing: "-".into(),
        k: 0,
        serr: vec![],
        sched: vec![],
    };
    for w in &ws[1..] {
        let (key, v) = w.split_once('=').expect("key=value");
        match key {
            "side" => c.server = v == "srv",
            "drv" => c.full = v == "full",
            "np" => c.np = v.parse().unwrap(),
            "derr" => c.derr = v.into(),
            "loss" => c.loss = v.into(),
            "closing" => c.closing = v.into(),
            "k" => c.k = v.parse().unwrap(),
            "serr" => c.serr = v.split(',').map(|s| s.to_string()).collect(),
            "sched" => {
                c.sched = if v == "-" {
                    vec![]
                } else {
                    v.split(',')
                        .map(|t| if t == "D" { 0 } else { t[1..].parse::<usize>().unwrap() })
                        .collect()
                }
            }
            _ => panic!("driver: unknown key {}", key),
        }
    }
    assert!(c.k >= 1 && c.k <= 3 && c.serr.len() == c.k, "driver: k/serr");
    assert!(c.np == 1 || c.np == 2, "driver: np");
    c
}

fn ev(w: &Shared, e: &str) {
    assert!(apply_event(w, e), "bad event {}", e);
}

/// builds the connection and one handle per stream task; returns also the stream id each task reads from
fn build(c: &Case) -> (Shared, Driver, Vec<Handle>, Vec<Option<u64>>) {
    let with_settings = c.derr != "cms";
    if c.server {
        let w = World::new(Side::Server, 100, 100, None);
        let mut conn: SrvConn = settle(h3::server::builder().build(SimConn { world: w.clone() })).expect("server build");
        if with_settings {
            ev(&w, "U2");
            ev(&w, "2:c:000400");
        }
        let mut handles = Vec::new();
        let mut ids = Vec::new();
        for (i, kind) in c.serr.iter().enumerate() {
            let id = 4 * i as u64;
            ev(&w, &format!("B{}", id));
            if kind == "qp" {
                ev(&w, &format!("{}:c:{}", id, HEADERS_BAD));
            } else {
                for h in HEADERS_GET {
                    ev(&w, &format!("{}:c:{}", id, h));
                }
            }
            // the driver accepts with a waker of the set-up phase (so the AtomicWaker holds one, as in a running server)
            let resolver = {
                let mut got = None;
                for _ in 0..10 {
                    let flag = new_flag();
                    let waker = Waker::from(flag);
                    let mut cx = Context::from_waker(&waker);
                    if let Poll::Ready(r) = poll_once(conn.accept(), &mut cx) {
                        got = Some(r);
                        break;
                    }
                }
                got.expect("accept ready").expect("accept ok").expect("a request")
            };
            ids.push(Some(id));
            if kind == "qp" {
                handles.push(Handle::Resolver(Some(resolver)));
                continue;
            }
            let (_req, s) = settle(resolver.resolve_request()).expect("resolve_request");
            if kind.starts_with('x') {
                let (a, b) = s.split();
                handles.push(Handle::SrvSplit(a, b));
            } else {
                handles.push(Handle::Srv(s));
            }
        }
        (w, Driver::Srv(conn), handles, ids)
    } else {
        let w = World::new(Side::Client, 100, 100, None);
        let (mut conn, mut send): (CliConn, CliSend) =
            settle(h3::client::builder().build::<_, _, Bytes>(SimConn { world: w.clone() })).expect("client build");
        if with_settings {
            ev(&w, "U3");
            ev(&w, "3:c:000400");
        }
        if c.full {
            // steady state: the driver has been polled and is parked
            let (r, _) = poll_driver_cli_setup(&mut conn);
            assert!(r == "pending", "client set-up poll_close: {}", r);
        }
        let mut handles = Vec::new();
        let mut ids = Vec::new();
        let mut next_id = 0u64;
        // rq tasks get clones of the SendRequest; a dr task gets the original and must then be the only holder
        let has_dr = c.serr.iter().any(|k| k == "dr");
        assert!(!(has_dr && c.serr.iter().any(|k| k == "rq")), "driver: dr and rq do not combine");
        assert!(c.serr.iter().filter(|k| *k == "dr").count() <= 1, "driver: one dr task");
        for kind in c.serr.iter() {
            match kind.as_str() {
                "rq" => {
                    handles.push(Handle::SendReq(Some(send.clone())));
                    ids.push(None);
                }
                "dr" => {
                    handles.push(Handle::SendReq(None));
                    ids.push(None);
                }
                _ => {
                    let s = settle(send.send_request(a_request())).expect("send_request");
                    ids.push(Some(next_id));
                    if kind == "qp" {
                        ev(&w, &format!("{}:c:{}", next_id, HEADERS_BAD));
                    }
                    next_id += 4;
                    if kind.starts_with('x') {
                        let (a, b) = s.split();
                        handles.push(Handle::CliSplit(a, b));
                    } else {
                        handles.push(Handle::Cli(s));
                    }
                }
            }
        }
        let mut keep = Some(send);
        for (h, kind) in handles.iter_mut().zip(c.serr.iter()) {
            if kind == "dr" {
                *h = Handle::SendReq(keep.take());
            }
        }
        (w, Driver::Cli(conn, keep), handles, ids)
    }
}

fn poll_driver_cli_setup(conn: &mut CliConn) -> (String, Arc<Flag>) {
    let flag = new_flag();
    let waker = Waker::from(flag.clone());
    let mut cx = Context::from_waker(&waker);
    let r = match conn.poll_close(&mut cx) {
        Poll::Pending => "pending".to_string(),
        Poll::Ready(e) => conn_err(&e),
    };
    (r, flag)
}

fn run_case(c: &Case, pool: &mut Pool) -> String {
    if TIMEOUTS.load(Ordering::SeqCst) >= 3 {
        return "err harness-timeout".into();
    }
    let (w, mut driver, handles, ids) = build(c);
    let ctl: u64 = if c.server { 2 } else { 3 };
    // ---- the connection is already shutting down?
    match c.closing.as_str() {
        "-" => {}
        "goaway" => {
            ev(&w, &format!("{}:c:070100", ctl));
            let (r, _) = poll_driver(&mut driver, true);
            assert!(r == "pending", "closing=goaway set-up poll: {}", r);
        }
        "shutdown" => {
            let r = driver_shutdown(&mut driver, 1);
            assert!(r == "ok", "closing=shutdown: {}", r);
        }
        x => panic!("driver: unknown closing {}", x),
    }
    if c.closing != "-" {
        let closing = match &driver {
            Driver::Srv(c) => c.is_closing(),
            Driver::Cli(c, _) => c.is_closing(),
        };
        assert!(closing, "closing family: is_closing() is false");
    }
    // ---- what the peer / the transport does, all of it before the scheduled calls
    for (i, kind) in c.serr.iter().enumerate() {
        if let Some(evs) = violation(kind) {
            for e in evs {
                ev(&w, &format!("{}:{}", ids[i].expect("stream id"), e));
            }
        }
        if needs_loss(kind) {
            assert!(c.loss != "-", "driver: serr={} needs loss", kind);
        }
    }
    match c.derr.as_str() {
        "-" => {}
        "ccs" => ev(&w, &format!("{}:F", ctl)),
        "c2s" => ev(&w, &format!("{}:c:0400", ctl)),
        "cms" => {
            ev(&w, &format!("U{}", ctl));
            ev(&w, &format!("{}:c:00070100", ctl));
        }
        "cid" => ev(&w, &format!("{}:c:070100070104", ctl)),
        // a second control stream / a malformed frame on the control stream
        "2cs" => {
            ev(&w, &format!("U{}", ctl + 4));
            ev(&w, &format!("{}:c:00", ctl + 4));
        }
        "cfe" => ev(&w, &format!("{}:c:07020000", ctl)),
        // client only: MAX_PUSH_ID on the control stream / a server-initiated bidirectional stream
        "cpp" => {
            assert!(!c.server, "driver: derr=cpp is a client case");
            ev(&w, "3:c:0d0100");
        }
        "cbi" => {
            assert!(!c.server, "driver: derr=cbi is a client case");
            ev(&w, "B1");
        }
        x => panic!("driver: unknown derr {}", x),
    }
    match c.loss.as_str() {
        "-" => {}
        "t" => ev(&w, "T"),
        "i" => ev(&w, "I"),
        x => ev(&w, &format!("X{}", &x[1..])),
    }
    let dkey = driver.key();
    let keys: Vec<String> = handles.iter().map(|h| (h.same_state(dkey) as u8).to_string()).collect();

    // ---- phase 1: scheduled, one OS thread per task
    let n = c.k + 1;
    let epoch = {
        let mut g = SCHED.lock().unwrap();
        g.epoch += 1;
        g.sched = c.sched.clone();
        g.pos = 0;
        g.current = None;
        g.done = vec![false; n];
        g.free = false;
        g.epoch
    };
    for &t in &c.sched {
        assert!(t < n, "driver: schedule names task {}", t);
    }
    let (dtx, drx) = mpsc::channel::<(String, Arc<Flag>, Driver)>();
    let (full, np) = (c.full, c.np);
    let job: Job = Box::new(move || {
        ME.with(|m| m.set(Some((epoch, 0))));
        let _fin = Finish(epoch, 0);
        wait_turn(epoch, 0);
        let (mut r, mut flag) = poll_driver(&mut driver, full);
        if np == 2 && r == "pending" {
            // polled again (woken or not: a spurious poll is allowed), with a new waker
            let (r2, f2) = poll_driver(&mut driver, full);
            r = r2;
            flag = f2;
        }
        ME.with(|m| m.set(None));
        let _ = dtx.send((r, flag, driver));
    });
    pool.txs[0].send(job).expect("pool");
    let mut srx = Vec::new();
    for (i, h) in handles.into_iter().enumerate() {
        let (tx, rx) = mpsc::channel::<(String, Handle)>();
        srx.push(rx);
        let mut h = h;
        let kind = c.serr[i].clone();
        let job: Job = Box::new(move || {
            ME.with(|m| m.set(Some((epoch, i + 1))));
            let _fin = Finish(epoch, i + 1);
            wait_turn(epoch, i + 1);
            let waker = noop_cx_waker();
            let mut cx = Context::from_waker(&waker);
            let r = stream_first(&kind, &mut h, &mut cx);
            ME.with(|m| m.set(None));
            let _ = tx.send((r, h));
        });
        pool.txs[i + 1].send(job).expect("pool");
    }
    let deadline = Instant::now() + Duration::from_secs(if TIMEOUTS.load(Ordering::SeqCst) == 0 { 20 } else { 3 });
    if run_schedule(epoch, deadline).is_err() {
        TIMEOUTS.fetch_add(1, Ordering::SeqCst);
        // the stuck threads are abandoned with their pool
        *pool = Pool::new();
        return "err harness-timeout".into();
    }
    let tmo = Duration::from_secs(5);
    let (d1, dflag, mut driver) = match drx.recv_timeout(tmo) {
        Ok(x) => x,
        Err(mpsc::RecvTimeoutError::Disconnected) => return "panic driver task died".into(),
        Err(_) => return "err harness-timeout".into(),
    };
    let mut s1 = Vec::new();
    let mut handles = Vec::new();
    for rx in srx {
        match rx.recv_timeout(tmo) {
            Ok((r, h)) => {
                s1.push(r);
                handles.push(h);
            }
            Err(mpsc::RecvTimeoutError::Disconnected) => return "panic stream task died".into(),
            Err(_) => return "err harness-timeout".into(),
        }
    }

    // ---- phase 2: later calls on every handle, sequential
    // was the waker of the last scheduled poll woken (read now: every scheduled task has finished)
    let woken = dflag.0.load(Ordering::SeqCst);
    let (d2, _) = poll_driver(&mut driver, c.full);
    // shutdown() while the transport still works (unless the case lost it): a failed connection reports its error
    let d2s = driver_shutdown(&mut driver, 1);
    if c.loss == "-" {
        ev(&w, "X999");
    }
    let mut s2 = Vec::new();
    let mut s3 = Vec::new();
    {
        let nw = noop_cx_waker();
        let mut cx = Context::from_waker(&nw);
        for h in handles.iter_mut() {
            s2.push(stream_again(h, &mut cx));
        }
        for h in handles.iter_mut() {
            s3.push(stream_send(h, &mut cx));
        }
    }
    let d4 = driver_shutdown(&mut driver, 0);
    let d3 = poll_driver_api(&mut driver, c.full);
    let closes: Vec<String> = {
        let g = w.lock().unwrap();
        g.log
            .iter()
            .filter_map(|l| l.strip_prefix("close ").map(|r| r.split(' ').next().unwrap().to_string()))
            .collect()
    };
    let out = format!(
        "ok keys={} d1={} woken={} s1={} d2={} d2s={} s2={} s3={} d4={} d3={} close={}",
        keys.join(","),
        d1,
        woken as u8,
        s1.join(","),
        d2,
        d2s,
        s2.join(","),
        s3.join(","),
        d4,
        d3,
        if closes.is_empty() { "-".to_string() } else { closes.join(",") }
    );
    // dropping the handles closes the connection (H3_NO_ERROR): after the observation was taken
    drop(handles);
    drop(driver);
    out
}

fn main() {
    h3::verif::install_preempt(hook);
    if std::env::var("C05_TEST_HANG").is_ok() {
        TEST_HANG.store(true, Ordering::SeqCst);
    }
    let mut pool = Pool::new();
    run_lines(|ws| match ws {
        ["err", ..] => run_case(&parse(ws), &mut pool),
        _ => "driver-error unknown-case".into(),
    });
}
