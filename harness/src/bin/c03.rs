//! C03: the real h3 server (accept -> resolve_request -> recv_data* -> recv_trailers) and client
//! (send_request -> recv_response -> recv_data* -> recv_trailers) over SimQuic, the scripted peer writing raw bytes on
//! the request stream.  One `p` token = one poll of the API call the application is at.
//! Case lines: see ocaml/C03_driver.ml.
use bytes::{Buf, Bytes};
use h3::error::{ConnectionError, LocalError, StreamError};
use h3::quic::ConnectionErrorIncoming;
use h3v::simquic::*;
use h3v::{hex, run_lines, unhex};
use std::cell::RefCell;
use std::future::Future;
use std::pin::Pin;
use std::rc::Rc;
use std::task::{Context, Poll};

/// returns Pending exactly once without arranging a wake-up: hands control back to the harness
struct YieldOnce(bool);
impl Future for YieldOnce {
    type Output = ();
    fn poll(mut self: Pin<&mut Self>, _cx: &mut Context<'_>) -> Poll<()> {
        if self.0 {
            Poll::Ready(())
        } else {
            self.0 = true;
            h3v::simquic::harness_yield();
            Poll::Pending
        }
    }
}
fn yield_once() -> YieldOnce {
    YieldOnce(false)
}

fn conn_err_str(e: &ConnectionError) -> String {
    match e {
        ConnectionError::Local { error: LocalError::Application { code, .. } } => format!("err:c:{}", code.value()),
        ConnectionError::Local { .. } => "err:c:closing".to_string(),
        ConnectionError::Remote(ConnectionErrorIncoming::ApplicationClose { error_code }) => {
            format!("err:cr:app:{}", error_code)
        }
        ConnectionError::Remote(ConnectionErrorIncoming::Timeout) | ConnectionError::Timeout => "err:cr:timeout".to_string(),
        ConnectionError::Remote(ConnectionErrorIncoming::InternalError(_)) => "err:cr:internal".to_string(),
        ConnectionError::Remote(ConnectionErrorIncoming::Undefined(_)) => "err:cr:undefined".to_string(),
        _ => "err:cr:other".to_string(),
    }
}

fn stream_err_str(e: &StreamError) -> String {
    match e {
        StreamError::StreamError { code, .. } => format!("err:s:{}", code.value()),
        StreamError::RemoteTerminate { code } => format!("err:rt:{}", code.value()),
        StreamError::ConnectionError(c) => conn_err_str(c),
        StreamError::HeaderTooBig { .. } => "err:toobig".to_string(),
        StreamError::RemoteClosing => "err:closing".to_string(),
        StreamError::Undefined(_) => "err:undef".to_string(),
        _ => "err:other".to_string(),
    }
}

fn trailers_str(t: Option<http::HeaderMap>) -> String {
    match t {
        None => "trailers:none".to_string(),
        Some(m) => {
            if m.len() == 1 && m.get("x-t").map(|v| v.as_bytes().iter().all(|b| *b == b'v')).unwrap_or(false) {
                "trailers:T".to_string()
            } else {
                format!("trailers:?{:?}", m).replace(' ', "")
            }
        }
    }
}

type Log = Rc<RefCell<Vec<String>>>;

/// recv_data loop; with `$first_only` it stops (value 1) right after the first piece of data was shown.
/// value 0: the body ended (bodyend logged); the task returns on an error.
macro_rules! body_loop {
    ($stream:expr, $log:expr, $first_only:expr) => {{
        let mut status = 0;
        loop {
            let r = $stream.recv_data().await.map(|o| o.map(|mut d| d.copy_to_bytes(d.remaining())));
            match r {
                Ok(Some(b)) => {
                    $log.borrow_mut().push(format!("d:{}", hex(&b)));
                    yield_once().await;
                    if $first_only {
                        status = 1;
                        break;
                    }
                }
                Ok(None) => {
                    $log.borrow_mut().push("bodyend".to_string());
                    yield_once().await;
                    break;
                }
                Err(e) => {
                    $log.borrow_mut().push(stream_err_str(&e));
                    return "done".to_string();
                }
            }
        }
        status
    }};
}
macro_rules! trailers_part {
    ($stream:expr, $log:expr) => {{
        match $stream.recv_trailers().await {
            Ok(t) => $log.borrow_mut().push(trailers_str(t)),
            Err(e) => $log.borrow_mut().push(stream_err_str(&e)),
        }
        "done".to_string()
    }};
}
/// the body and trailers part, identical for both roles; `$split`: 0 = never, 1 = split() right after the head and go
/// on with the receive half, 2 = split() after the first piece of body data
macro_rules! body_and_trailers {
    ($stream:expr, $log:expr, $split:expr) => {{
        if $split == 1 {
            let (_send, mut recv) = $stream.split();
            body_loop!(recv, $log, false);
            trailers_part!(recv, $log)
        } else if $split == 2 {
            let mut whole = $stream;
            if body_loop!(whole, $log, true) == 1 {
                let (_send, mut recv) = whole.split();
                body_loop!(recv, $log, false);
                trailers_part!(recv, $log)
            } else {
                trailers_part!(whole, $log)
            }
        } else {
            let mut whole = $stream;
            body_loop!(whole, $log, false);
            trailers_part!(whole, $log)
        }
    }};
}

fn run_case(role: &str, acts: &str) -> String {
    let (role, split) = match role.split_once('+') {
        Some((r, "split")) => (r, 1),
        Some((r, "splitm")) => (r, 2),
        Some(_) => return "driver-error bad-flag".into(),
        None => (role, 0),
    };
    let server = role == "s";
    let w = World::new(if server { Side::Server } else { Side::Client }, 100, 100, None);
    let mut ex = Exec::new();
    let log: Log = Rc::new(RefCell::new(Vec::new()));
    let (t_conn, t_req);
    if server {
        type Resolver = h3::server::RequestResolver<SimConn, Bytes>;
        let slot: Rc<RefCell<Option<Resolver>>> = Rc::new(RefCell::new(None));
        let (w2, slot2) = (w.clone(), slot.clone());
        t_conn = ex.spawn(async move {
            let mut conn: h3::server::Connection<SimConn, Bytes> =
                match h3::server::builder().build(SimConn { world: w2 }).await {
                    Ok(c) => c,
                    Err(e) => return format!("build-err {}", conn_err_str(&e)),
                };
            loop {
                match conn.accept().await {
                    Ok(Some(r)) => *slot2.borrow_mut() = Some(r),
                    Ok(None) => return "accept-none".to_string(),
                    Err(e) => return format!("accept-err {}", conn_err_str(&e)),
                }
            }
        });
        let (log2, slot3) = (log.clone(), slot.clone());
        t_req = ex.spawn(async move {
            yield_once().await; // the first poll happens during set-up
            let resolver = match slot3.borrow_mut().take() {
                Some(r) => r,
                None => return "no-resolver".to_string(),
            };
            let stream = match resolver.resolve_request().await {
                Ok((req, stream)) => {
                    let ok = req.method() == http::Method::GET && req.uri().path() == "/";
                    log2.borrow_mut().push(if ok { "head:REQ".to_string() } else { format!("head:?{}", req.uri()) });
                    yield_once().await;
                    stream
                }
                Err(e) => {
                    log2.borrow_mut().push(stream_err_str(&e));
                    return "done".to_string();
                }
            };
            body_and_trailers!(stream, log2, split)
        });
        // set-up: the peer's control stream with an empty SETTINGS frame, then the request stream is opened
        for ev in ["U2", "2:c:000400", "B0"] {
            assert!(apply_event(&w, ev));
        }
        let mut guard = 0;
        while ex.is_woken(t_conn) && guard < 100 {
            ex.poll(t_conn);
            guard += 1;
        }
        ex.poll(t_req); // runs up to the first yield
    } else {
        let (w2, log2) = (w.clone(), log.clone());
        type Sender = h3::client::SendRequest<SimOpener, Bytes>;
        let slot: Rc<RefCell<Option<Sender>>> = Rc::new(RefCell::new(None));
        let slot2 = slot.clone();
        t_conn = ex.spawn(async move {
            let (mut driver, sender) = match h3::client::new(SimConn { world: w2 }).await {
                Ok(x) => x,
                Err(e) => return format!("build-err {}", conn_err_str(&e)),
            };
            *slot2.borrow_mut() = Some(sender);
            let e = std::future::poll_fn(|cx| driver.poll_close(cx)).await;
            format!("closed {}", conn_err_str(&e))
        });
        let slot3 = slot.clone();
        t_req = ex.spawn(async move {
            yield_once().await;
            let mut sender = match slot3.borrow_mut().take() {
                Some(s) => s,
                None => return "no-sender".to_string(),
            };
            let req = http::Request::builder().method("GET").uri("https://a/").body(()).unwrap();
            let mut stream = match sender.send_request(req).await {
                Ok(s) => s,
                Err(e) => return format!("send-err {}", stream_err_str(&e)),
            };
            // keep a sender alive: dropping the last one makes the client close the connection with H3_NO_ERROR
            *slot3.borrow_mut() = Some(sender);
            if let Err(e) = stream.finish().await {
                return format!("finish-err {}", stream_err_str(&e));
            }
            yield_once().await; // set-up ends here
            match stream.recv_response().await {
                Ok(resp) => {
                    log2.borrow_mut().push(if resp.status() == 200 { "head:RESP".to_string() } else { format!("head:?{}", resp.status()) });
                    yield_once().await;
                }
                Err(e) => {
                    log2.borrow_mut().push(stream_err_str(&e));
                    return "done".to_string();
                }
            }
            body_and_trailers!(stream, log2, split)
        });
        for ev in ["U3", "3:c:000400"] {
            assert!(apply_event(&w, ev));
        }
        let mut guard = 0;
        while ex.is_woken(t_conn) && guard < 100 {
            ex.poll(t_conn);
            guard += 1;
        }
        ex.poll(t_req); // takes the sender (first yield)
        ex.poll(t_req); // send_request + finish (second yield)
    }
    if !log.borrow().is_empty() || ex.done(t_req) {
        return format!("driver-error setup {:?} {:?}", log.borrow(), ex.result(t_req));
    }
    let mut out = vec!["ok".to_string()];
    let mut seen = 0usize;
    // once the transport itself has failed the connection driver is not scheduled any more: what it does with that
    // failure, and which of several connection errors every handle then reports (first one wins), is C05's subject;
    // here the request stream is observed on its own
    let mut transport_failed = false;
    for a in acts.split(',').filter(|a| !a.is_empty()) {
        let (k, rest) = a.split_at(1);
        match k {
            "c" => {
                if unhex(rest).is_empty() || !apply_event(&w, &format!("0:c:{}", rest)) {
                    return "driver-error bad-chunk".into();
                }
            }
            "F" => {
                apply_event(&w, "0:F");
            }
            "R" => {
                apply_event(&w, &format!("0:R{}", rest));
            }
            "K" => {
                apply_event(&w, "0:K");
            }
            // the transport fails as a whole; SimQuic shows it on a stream once that stream's queue is drained, i.e. where
            // a terminal event of the queue would be (the generators put nothing after it)
            "X" | "I" | "T" => {
                if !apply_event(&w, a) {
                    return "driver-error bad-connection-event".into();
                }
                transport_failed = true;
            }
            "p" => {
                if !ex.done(t_req) {
                    ex.poll(t_req);
                    let l = log.borrow();
                    if l.len() == seen {
                        if !ex.done(t_req) {
                            out.push("pend".into());
                        }
                    } else {
                        for x in &l[seen..] {
                            out.push(x.clone());
                        }
                        seen = l.len();
                    }
                }
                // let the connection driver react (it closes the connection when a stream raised a connection error)
                let mut guard = 0;
                while !transport_failed && ex.is_woken(t_conn) && guard < 100 {
                    ex.poll(t_conn);
                    guard += 1;
                }
            }
            _ => return "driver-error bad-action".into(),
        }
    }
    let g = w.lock().unwrap();
    let reset = g.streams.get(&0).and_then(|s| s.reset).map(|c| c.to_string()).unwrap_or_else(|| "-".into());
    let close = g.closed.as_ref().map(|(c, _)| c.to_string()).unwrap_or_else(|| "-".into());
    out.push(format!("reset={}", reset));
    out.push(format!("close={}", close));
    let stop = g.streams.get(&0).and_then(|s| s.stopped).map(|c| c.to_string()).unwrap_or_else(|| "-".into());
    out.push(format!("stop={}", stop));
    out.join(" ")
}

fn main() {
    run_lines(|ws| match ws {
        ["rq", role, acts] => run_case(role, acts),
        _ => "driver-error unknown-case".into(),
    });
}
