//! C19: WebTransport sessions and streams of the REAL h3 / h3-webtransport code over SimQuic.
//!
//! A scripted peer sends SETTINGS (extended CONNECT, WebTransport, datagrams enabled), `npre` plain GET
//! requests on streams 0,4,.. and an extended CONNECT (`:protocol webtransport`) on stream S.  The application
//! task serves the plain requests, accepts the CONNECT, calls `WebTransportSession::accept` and then
//!   wt.sess S npre en                                -> ok sess=<session_id()>
//!   wt.open <bi|uni> S npre en wb payload            -> ok sess=.. tx=<every byte h3 and the app wrote on the new stream>
//!   wt.recv <bi|uni> S npre en early mode history    -> ok sess=.. <nostream | nowt | bi|uni sid=<n> data=<piece.piece..> end=<fin|reset:c|pending>> close=<code|-> stop=<code|->
//!   wt.recv2 S en mode history                        -> ok sess=.. A <stream a> stop=.. B <stream b> stop=.. close=..   (two uni streams
//!        6 and 10 open at once; history items a:c<hex> a:F a:R<c> b:... p; every surfaced stream is read concurrently)
//!   wt.multi S en mode history                        -> ok sess=.. #<id> <stream> stop=.. ... close=..   (any number of peer uni / bidi
//!        streams with arbitrary transport ids; items <id>:o (announce only) <id>:c<hex> <id>:F <id>:R<c> p g<n>)
//!   wt.open2 S en wb credit ops                        -> ok sess=.. tx=<stream 1>,<stream 2>,..   ops = bi:<hex>|uni:<hex>,.. opened one after
//!        the other on the same session; credit 1: no open credit beyond start-up, the peer grants one G1 / H1 at a time
//! history item g<n>: from here on the transport hands every delivery to h3 as a non-contiguous Buf of n-byte segments (SimQuic SEG<n>).
//! en: server built with enable_webtransport(en != 0).  wb: bytes the transport accepts per grant on the opened
//! stream (0 = unlimited).  early: the peer's uni stream events are delivered before the CONNECT request.
//! mode: d = quic::RecvStream::poll_data, r<k> = futures AsyncRead with a k-byte buffer, t<k> = tokio AsyncRead with a
//! k-byte ReadBuf; prefix s (bidi only): BidiStream::split() first, read the receive half, keep the send half alive.
//! history: comma separated  c<hex> (chunk arrives) | F | R<code> | p (run the executor to quiescence);
//! a final `p` is always implied.
use bytes::{Buf, Bytes};
use h3::quic::{self, SendStream as _, SendStreamUnframed as _, StreamErrorIncoming};
use h3_webtransport::server::{AcceptedBi, WebTransportSession};
use h3v::simquic::*;
use h3v::{hex, run_lines, unhex};
use std::future::poll_fn;
use std::pin::Pin;
use std::sync::{Arc, Mutex};

#[derive(Default)]
struct Progress {
    sess: Option<String>,
    stream: Option<String>, // "bi sid=8" / "uni sid=8" / "nowt"
    pieces: Vec<Vec<u8>>,
    end: Option<String>,
    opened: bool,
    opened_count: usize,
    fail: Option<String>,
    /// wt.recv2: per transport stream id -> (what was attached, pieces, ending)
    multi: std::collections::BTreeMap<u64, (String, Vec<Vec<u8>>, Option<String>)>,
}

fn push_piece(prog: &Prog, key: Option<u64>, b: Vec<u8>) {
    let mut p = prog.lock().unwrap();
    match key {
        None => p.pieces.push(b),
        Some(k) => p.multi.get_mut(&k).unwrap().1.push(b),
    }
}
fn set_end(prog: &Prog, key: Option<u64>, e: String) {
    let mut p = prog.lock().unwrap();
    match key {
        None => p.end = Some(e),
        Some(k) => p.multi.get_mut(&k).unwrap().2 = Some(e),
    }
}

type Prog = Arc<Mutex<Progress>>;

#[derive(Clone)]
enum Op {
    Sess,
    Open { bidi: bool, payload: Vec<u8> },
    Recv { bidi: bool, mode: Mode, split: bool },
    /// accept every uni stream that is surfaced and read all of them concurrently
    Recv2 { mode: Mode },
    /// the same for uni AND bidi streams (a pool of accept_bi calls runs beside accept_uni)
    Multi { mode: Mode },
    /// open several streams one after the other on the same session: (bidi, payload)
    OpenMany { ops: Vec<(bool, Vec<u8>)> },
}

#[derive(Clone, Copy)]
enum Mode {
    Data,
    Read(usize),
    Tokio(usize),
    /// tokio AsyncRead with ONE k-byte ReadBuf kept across reads until it is full (what `read_exact` does): the
    /// stream is polled with a partly filled buffer, so a chunk longer than the space left has to be kept for later
    TokioKeep(usize),
}

fn num_in_debug(d: &str) -> String {
    let s: String = d.chars().filter(|c| c.is_ascii_digit()).collect();
    if s.is_empty() {
        format!("?{}", d)
    } else {
        s
    }
}

fn io_end(e: &std::io::Error) -> String {
    let d = format!("{:?}", e);
    if let Some(i) = d.find("error_code: ") {
        let rest = &d[i + 12..];
        let end = rest.find(|c: char| !c.is_ascii_digit()).unwrap_or(rest.len());
        return format!("reset:{}", &rest[..end]);
    }
    format!("ioerr:{}", d.replace(' ', "_"))
}

fn quic_end(e: &StreamErrorIncoming) -> String {
    match e {
        StreamErrorIncoming::StreamTerminated { error_code } => format!("reset:{}", error_code),
        StreamErrorIncoming::ConnectionErrorIncoming { .. } => "connlost".into(),
        StreamErrorIncoming::Unknown(_) => "unknown".into(),
    }
}

async fn read_all<S>(mut s: S, mode: Mode, prog: &Prog, key: Option<u64>)
where
    S: quic::RecvStream + futures_util::io::AsyncRead + tokio::io::AsyncRead + Unpin,
{
    if let Mode::TokioKeep(k) = mode {
        'outer: loop {
            let mut raw = vec![0u8; k];
            let mut rb = tokio::io::ReadBuf::new(&mut raw[..]);
            while rb.remaining() > 0 {
                let before = rb.filled().len();
                match poll_fn(|cx| tokio::io::AsyncRead::poll_read(Pin::new(&mut s), cx, &mut rb)).await {
                    Ok(()) if rb.filled().len() == before => {
                        set_end(prog, key, "fin".into());
                        break 'outer;
                    }
                    Ok(()) => push_piece(prog, key, rb.filled()[before..].to_vec()),
                    Err(e) => {
                        set_end(prog, key, io_end(&e));
                        break 'outer;
                    }
                }
            }
        }
        std::future::pending::<()>().await;
    }
    loop {
        match mode {
            Mode::Data => match poll_fn(|cx| s.poll_data(cx)).await {
                Ok(Some(mut d)) => {
                    let b = d.copy_to_bytes(d.remaining());
                    push_piece(prog, key, b.to_vec());
                }
                Ok(None) => {
                    set_end(prog, key, "fin".into());
                    break;
                }
                Err(e) => {
                    set_end(prog, key, quic_end(&e));
                    break;
                }
            },
            Mode::Tokio(k) => {
                let mut raw = vec![0u8; k];
                let mut rb = tokio::io::ReadBuf::new(&mut raw[..]);
                match poll_fn(|cx| tokio::io::AsyncRead::poll_read(Pin::new(&mut s), cx, &mut rb)).await {
                    Ok(()) if rb.filled().is_empty() => {
                        set_end(prog, key, "fin".into());
                        break;
                    }
                    Ok(()) => push_piece(prog, key, rb.filled().to_vec()),
                    Err(e) => {
                        set_end(prog, key, io_end(&e));
                        break;
                    }
                }
            }
            Mode::TokioKeep(_) => unreachable!(),
            Mode::Read(k) => {
                let mut buf = vec![0u8; k];
                match poll_fn(|cx| futures_util::io::AsyncRead::poll_read(Pin::new(&mut s), cx, &mut buf[..])).await {
                    Ok(0) => {
                        set_end(prog, key, "fin".into());
                        break;
                    }
                    Ok(n) => push_piece(prog, key, buf[..n].to_vec()),
                    Err(e) => {
                        set_end(prog, key, io_end(&e));
                        break;
                    }
                }
            }
        }
    }
    // keep the stream alive: dropping it is not part of the scenario
    std::future::pending::<()>().await;
}

async fn app(world: Shared, en: bool, npre: usize, op: Op, prog: Prog) -> String {
    let fail = |p: &Prog, s: String| {
        p.lock().unwrap().fail = Some(s);
    };
    let mut conn: h3::server::Connection<SimConn, Bytes> = match h3::server::builder()
        .enable_webtransport(en)
        .enable_extended_connect(true)
        .enable_datagram(true)
        .max_webtransport_sessions(1)
        .send_grease(false)
        .build(SimConn { world })
        .await
    {
        Ok(c) => c,
        Err(e) => {
            fail(&prog, format!("build-err {}", conn_err(&e)));
            return String::new();
        }
    };
    for _ in 0..npre {
        match conn.accept().await {
            Ok(Some(resolver)) => match resolver.resolve_request().await {
                Ok((_req, mut stream)) => {
                    let resp = http::Response::builder().status(200).body(()).unwrap();
                    let _ = stream.send_response(resp).await;
                    let _ = stream.finish().await;
                }
                Err(e) => {
                    fail(&prog, format!("pre-resolve-err {}", stream_err(&e)));
                    return String::new();
                }
            },
            Ok(None) => {
                fail(&prog, "pre-accept-none".into());
                return String::new();
            }
            Err(e) => {
                fail(&prog, format!("pre-accept-err {}", conn_err(&e)));
                return String::new();
            }
        }
    }
    let (req, stream) = match conn.accept().await {
        Ok(Some(resolver)) => match resolver.resolve_request().await {
            Ok(x) => x,
            Err(e) => {
                fail(&prog, format!("connect-resolve-err {}", stream_err(&e)));
                return String::new();
            }
        },
        Ok(None) => {
            fail(&prog, "connect-accept-none".into());
            return String::new();
        }
        Err(e) => {
            fail(&prog, format!("connect-accept-err {}", conn_err(&e)));
            return String::new();
        }
    };
    let session: WebTransportSession<SimConn, Bytes> = match WebTransportSession::accept(req, stream, conn).await {
        Ok(s) => s,
        Err(e) => {
            fail(&prog, format!("session-accept-err {}", stream_err(&e)));
            return String::new();
        }
    };
    prog.lock().unwrap().sess = Some(num_in_debug(&format!("{:?}", session.session_id())));
    match op {
        Op::Sess => {}
        Op::Open { bidi, payload } => {
            let mut data = Bytes::from(payload);
            if bidi {
                match session.open_bi(session.session_id()).await {
                    Ok(mut s) => {
                        while data.has_remaining() {
                            if poll_fn(|cx| s.poll_send(cx, &mut data)).await.is_err() {
                                fail(&prog, "write-err".into());
                                break;
                            }
                        }
                        let _ = poll_fn(|cx| s.poll_finish(cx)).await;
                        prog.lock().unwrap().opened = true;
                        std::future::pending::<()>().await;
                    }
                    Err(e) => fail(&prog, format!("open-err {}", stream_err(&e))),
                }
            } else {
                match session.open_uni(session.session_id()).await {
                    Ok(mut s) => {
                        while data.has_remaining() {
                            if poll_fn(|cx| s.poll_send(cx, &mut data)).await.is_err() {
                                fail(&prog, "write-err".into());
                                break;
                            }
                        }
                        let _ = poll_fn(|cx| s.poll_finish(cx)).await;
                        prog.lock().unwrap().opened = true;
                        std::future::pending::<()>().await;
                    }
                    Err(e) => fail(&prog, format!("open-err {}", stream_err(&e))),
                }
            }
        }
        Op::Recv { bidi, mode, split } => {
            if bidi {
                match session.accept_bi().await {
                    Ok(Some(AcceptedBi::BidiStream(sid, s))) => {
                        prog.lock().unwrap().stream = Some(format!("bi sid={}", num_in_debug(&format!("{:?}", sid))));
                        if split {
                            let (_send, recv) = quic::BidiStream::split(s);
                            read_all(recv, mode, &prog, None).await;
                        } else {
                            read_all(s, mode, &prog, None).await;
                        }
                    }
                    Ok(Some(AcceptedBi::Request(..))) | Ok(None) | Err(_) => {
                        prog.lock().unwrap().stream = Some("nowt".into());
                    }
                }
            } else {
                match session.accept_uni().await {
                    Ok(Some((sid, s))) => {
                        prog.lock().unwrap().stream = Some(format!("uni sid={}", num_in_debug(&format!("{:?}", sid))));
                        read_all(s, mode, &prog, None).await;
                    }
                    Ok(None) => {
                        prog.lock().unwrap().stream = Some("nowt".into());
                    }
                    Err(_) => {
                        // a connection error: visible as close=<code>
                    }
                }
            }
        }
        Op::Multi { mode } => {
            use std::future::Future;
            type BiFut<'a> = Pin<Box<dyn Future<Output = Result<Option<AcceptedBi<SimConn, Bytes>>, h3::error::StreamError>> + 'a>>;
            let mut readers: Vec<Pin<Box<dyn Future<Output = ()> + '_>>> = Vec::new();
            let prog2 = prog.clone();
            let mut acc = Box::pin(session.accept_uni());
            let mut bis: Vec<BiFut<'_>> = (0..3).map(|_| Box::pin(session.accept_bi()) as BiFut<'_>).collect();
            poll_fn(|cx| {
                loop {
                    match acc.as_mut().poll(cx) {
                        std::task::Poll::Ready(Ok(Some((sid, s)))) => {
                            let id = quic::RecvStream::recv_id(&s).into_inner();
                            prog2.lock().unwrap().multi.insert(
                                id,
                                (format!("uni sid={}", num_in_debug(&format!("{:?}", sid))), vec![], None),
                            );
                            let pr = prog2.clone();
                            readers.push(Box::pin(async move { read_all(s, mode, &pr, Some(id)).await }));
                            acc = Box::pin(session.accept_uni());
                        }
                        std::task::Poll::Ready(_) => {
                            acc = Box::pin(session.accept_uni());
                            break;
                        }
                        std::task::Poll::Pending => break,
                    }
                }
                for k in 0..bis.len() {
                    loop {
                        match bis[k].as_mut().poll(cx) {
                            std::task::Poll::Ready(Ok(Some(AcceptedBi::BidiStream(sid, s)))) => {
                                let id = quic::RecvStream::recv_id(&s).into_inner();
                                prog2.lock().unwrap().multi.insert(
                                    id,
                                    (format!("bi sid={}", num_in_debug(&format!("{:?}", sid))), vec![], None),
                                );
                                let pr = prog2.clone();
                                readers.push(Box::pin(async move { read_all(s, mode, &pr, Some(id)).await }));
                                bis[k] = Box::pin(session.accept_bi());
                            }
                            std::task::Poll::Ready(_) => {
                                prog2.lock().unwrap().fail = Some("multi: accept_bi gave something else than a WebTransport stream".into());
                                bis[k] = Box::pin(std::future::pending());
                                break;
                            }
                            std::task::Poll::Pending => break,
                        }
                    }
                }
                for r in readers.iter_mut() {
                    let _ = r.as_mut().poll(cx);
                }
                std::task::Poll::<()>::Pending
            })
            .await;
        }
        Op::OpenMany { ops } => {
            let mut keep_bi = Vec::new();
            let mut keep_uni = Vec::new();
            for (bidi, payload) in ops {
                let mut data = Bytes::from(payload);
                if bidi {
                    match session.open_bi(session.session_id()).await {
                        Ok(mut s) => {
                            while data.has_remaining() {
                                if poll_fn(|cx| s.poll_send(cx, &mut data)).await.is_err() {
                                    fail(&prog, "write-err".into());
                                    break;
                                }
                            }
                            let _ = poll_fn(|cx| s.poll_finish(cx)).await;
                            keep_bi.push(s);
                        }
                        Err(e) => {
                            fail(&prog, format!("open-err {}", stream_err(&e)));
                            break;
                        }
                    }
                } else {
                    match session.open_uni(session.session_id()).await {
                        Ok(mut s) => {
                            while data.has_remaining() {
                                if poll_fn(|cx| s.poll_send(cx, &mut data)).await.is_err() {
                                    fail(&prog, "write-err".into());
                                    break;
                                }
                            }
                            let _ = poll_fn(|cx| s.poll_finish(cx)).await;
                            keep_uni.push(s);
                        }
                        Err(e) => {
                            fail(&prog, format!("open-err {}", stream_err(&e)));
                            break;
                        }
                    }
                }
                prog.lock().unwrap().opened_count += 1;
            }
            prog.lock().unwrap().opened = true;
            std::future::pending::<()>().await;
        }
        Op::Recv2 { mode } => {
            use std::future::Future;
            let mut readers: Vec<Pin<Box<dyn Future<Output = ()> + '_>>> = Vec::new();
            let prog2 = prog.clone();
            let mut acc = Box::pin(session.accept_uni());
            poll_fn(|cx| {
                loop {
                    match acc.as_mut().poll(cx) {
                        std::task::Poll::Ready(Ok(Some((sid, s)))) => {
                            let id = quic::RecvStream::recv_id(&s).into_inner();
                            prog2.lock().unwrap().multi.insert(
                                id,
                                (format!("uni sid={}", num_in_debug(&format!("{:?}", sid))), vec![], None),
                            );
                            let pr = prog2.clone();
                            readers.push(Box::pin(async move { read_all(s, mode, &pr, Some(id)).await }));
                            acc = Box::pin(session.accept_uni());
                        }
                        std::task::Poll::Ready(_) => {
                            // Ok(None) or a connection error (visible as close=<code>): stop accepting
                            acc = Box::pin(session.accept_uni());
                            break;
                        }
                        std::task::Poll::Pending => break,
                    }
                }
                for r in readers.iter_mut() {
                    let _ = r.as_mut().poll(cx);
                }
                std::task::Poll::<()>::Pending
            })
            .await;
        }
    }
    // never drop the session: its Drop closes the connection, which is not part of the scenario
    std::future::pending::<()>().await;
    String::new()
}

const SETTINGS: &str = "00040e0801ab60374201 3301ab60374301";
const GET: &str = "01080000d1d7500161c1";
/// HEADERS(:method CONNECT, :scheme https, :authority a, :path /, :protocol webtransport)
fn connect_frame() -> String {
    let mut block = unhex("0000cfd7500161c12702");
    block.extend_from_slice(b":protocol");
    block.push(12);
    block.extend_from_slice(b"webtransport");
    let mut f = vec![0x01, block.len() as u8];
    f.extend_from_slice(&block);
    hex(&f)
}

fn ev(w: &Shared, ex: &mut Exec, e: &str) {
    assert!(apply_event(w, e), "bad event {}", e);
    ex.run();
}

struct Setup {
    w: Shared,
    ex: Exec,
    prog: Prog,
    /// locally opened streams that existed before the CONNECT request arrived
    before: Vec<u64>,
}

/// runs the connection up to the accepted session; `early` events are applied (with polls) before the CONNECT
fn establish(s: u64, npre: usize, en: bool, op: Op, early: &[String], wb: u64) -> Result<Setup, String> {
    establish_c(s, npre, en, op, early, wb, (100, 100))
}

/// `credits`: how many uni / bidi streams the endpoint may open before the peer grants more (`G<n>` / `H<n>`)
fn establish_c(s: u64, npre: usize, en: bool, op: Op, early: &[String], wb: u64, credits: (u64, u64)) -> Result<Setup, String> {
    let w = World::new(Side::Server, credits.0, credits.1, None);
    let mut ex = Exec::new();
    let prog: Prog = Arc::new(Mutex::new(Progress::default()));
    ex.spawn(app(w.clone(), en, npre, op, prog.clone()));
    ex.run();
    let first_flight = early.first().map(|e| e == "!").unwrap_or(false);
    if first_flight {
        for e in &early[1..] {
            if e == "p" {
                ex.run();
            } else {
                assert!(apply_event(&w, e), "bad event {}", e);
            }
        }
        ex.run();
    }
    let early: &[String] = if first_flight { &[] } else { early };
    ev(&w, &mut ex, "U2");
    ev(&w, &mut ex, &format!("2:c:{}", SETTINGS.replace(' ', "")));
    for i in 0..npre {
        let id = 4 * i as u64;
        ev(&w, &mut ex, &format!("B{}", id));
        ev(&w, &mut ex, &format!("{}:c:{}", id, GET));
        ev(&w, &mut ex, &format!("{}:F", id));
    }
    for e in early {
        if e == "p" {
            ex.run();
        } else {
            assert!(apply_event(&w, e), "bad event {}", e);
        }
    }
    ex.run();
    let before = w.lock().unwrap().local_streams();
    // stream s exists (unlimited write budget: the CONNECT response goes there) before the budget
    // for streams opened later is installed
    ev(&w, &mut ex, &format!("B{}", s));
    if wb > 0 {
        assert!(apply_event(&w, &format!("W*:{}", wb)));
    }
    ev(&w, &mut ex, &format!("{}:c:{}", s, connect_frame()));
    if let Some(f) = &prog.lock().unwrap().fail {
        return Err(f.clone());
    }
    if prog.lock().unwrap().sess.is_none() {
        let g = w.lock().unwrap();
        return Err(format!("no-session closed={:?}", g.closed.as_ref().map(|c| c.0)));
    }
    Ok(Setup { w, ex, prog, before })
}

fn items(stream: u64, hist: &str) -> Vec<String> {
    if hist == "-" {
        return vec![];
    }
    hist.split(',')
        .map(|t| {
            if t == "p" {
                "p".to_string()
            } else if t == "F" {
                format!("{}:F", stream)
            } else if let Some(c) = t.strip_prefix('R') {
                format!("{}:R{}", stream, c)
            } else if let Some(h) = t.strip_prefix('c') {
                format!("{}:c:{}", stream, h)
            } else if let Some(n) = t.strip_prefix('g') {
                format!("SEG{}", n)
            } else {
                panic!("driver: bad history item {}", t)
            }
        })
        .collect()
}

fn tail(w: &Shared, stream: u64) -> String {
    let g = w.lock().unwrap();
    let close = g.closed.as_ref().map(|c| c.0.to_string()).unwrap_or_else(|| "-".into());
    let stop = g
        .streams
        .get(&stream)
        .and_then(|s| s.stopped)
        .map(|c| c.to_string())
        .unwrap_or_else(|| "-".into());
    format!("close={} stop={}", close, stop)
}

fn main() {
    run_lines(|ws| match ws {
        ["wt.sess", s, npre, en] => {
            let s: u64 = s.parse().unwrap();
            match establish(s, npre.parse().unwrap(), *en != "0", Op::Sess, &[], 0) {
                Ok(su) => {
                    let p = su.prog.lock().unwrap();
                    format!("ok sess={}", p.sess.clone().unwrap())
                }
                Err(e) => format!("err {}", e),
            }
        }
        ["wt.open", kind, s, npre, en, wb, payload] => {
            let s: u64 = s.parse().unwrap();
            let wb: u64 = wb.parse().unwrap();
            let bidi = *kind == "bi";
            let op = Op::Open { bidi, payload: unhex(payload) };
            let mut su = match establish(s, npre.parse().unwrap(), *en != "0", op, &[], wb) {
                Ok(su) => su,
                Err(e) => return format!("err {}", e),
            };
            let mut guard = 0;
            loop {
                su.ex.run();
                {
                    let p = su.prog.lock().unwrap();
                    if p.opened || p.fail.is_some() {
                        break;
                    }
                }
                guard += 1;
                if guard > 10_000 || wb == 0 {
                    break;
                }
                let now = su.w.lock().unwrap().local_streams();
                for id in now.iter().filter(|i| !su.before.contains(i)) {
                    su.w.lock().unwrap().grant_write(*id, wb);
                }
            }
            let p = su.prog.lock().unwrap();
            if let Some(f) = &p.fail {
                return format!("err {}", f);
            }
            if !p.opened {
                return format!("ok sess={} tx=pending", p.sess.clone().unwrap_or_else(|| "?".into()));
            }
            let g = su.w.lock().unwrap();
            let new: Vec<u64> = g.local_streams().into_iter().filter(|i| !su.before.contains(i)).collect();
            if new.len() != 1 {
                return format!("err opened-streams={:?}", new);
            }
            format!("ok sess={} tx={}", p.sess.clone().unwrap(), hex(&g.tx_of(new[0])))
        }
        ["wt.recv", kind, s, npre, en, early, mode, hist] => {
            let s: u64 = s.parse().unwrap();
            let npre: usize = npre.parse().unwrap();
            let bidi = *kind == "bi";
            let (split, mode) = match mode.strip_prefix('s') { Some(m) => (true, m), None => (false, *mode) };
            let mode = if mode == "d" {
                Mode::Data
            } else if mode.starts_with('t') {
                Mode::Tokio(mode[1..].parse().unwrap())
            } else if mode.starts_with('x') {
                Mode::TokioKeep(mode[1..].parse().unwrap())
            } else {
                Mode::Read(mode[1..].parse().unwrap())
            };
            let sid: u64 = if bidi {
                if s + 4 < (1u64 << 62) {
                    s + 4
                } else {
                    4 * npre as u64
                }
            } else {
                6
            };
            let its = items(sid, hist);
            let early_tok = early;
            let early = *early != "0" && !bidi;
            let mut pre: Vec<String> = vec![];
            if early {
                if *early_tok == "2" {
                    // the peer's uni stream arrives (and is polled) BEFORE its control stream and SETTINGS
                    pre.push("!".to_string());
                }
                pre.push(format!("U{}", sid));
                pre.extend(its.iter().cloned());
            }
            let mut su = match establish(s, npre, *en != "0", Op::Recv { bidi, mode, split }, &pre, 0) {
                Ok(su) => su,
                Err(e) => return format!("err {}", e),
            };
            if !early {
                ev(&su.w, &mut su.ex, &format!("{}{}", if bidi { "B" } else { "U" }, sid));
                for e in &its {
                    if e == "p" {
                        su.ex.run();
                    } else {
                        assert!(apply_event(&su.w, e), "bad event {}", e);
                    }
                }
            }
            su.ex.run();
            let p = su.prog.lock().unwrap();
            if let Some(f) = &p.fail {
                return format!("err {}", f);
            }
            let mid = match &p.stream {
                None => "nostream".to_string(),
                Some(x) if x == "nowt" => "nowt".to_string(),
                Some(x) => {
                    let data = if p.pieces.is_empty() {
                        "-".to_string()
                    } else {
                        p.pieces.iter().map(|b| hex(b)).collect::<Vec<_>>().join(".")
                    };
                    format!("{} data={} end={}", x, data, p.end.clone().unwrap_or_else(|| "pending".into()))
                }
            };
            format!("ok sess={} {} {}", p.sess.clone().unwrap(), mid, tail(&su.w, sid))
        }
        ["wt.recv2", s, en, mode, hist] => {
            let s: u64 = s.parse().unwrap();
            let mode = if *mode == "d" {
                Mode::Data
            } else if mode.starts_with('t') {
                Mode::Tokio(mode[1..].parse().unwrap())
            } else {
                Mode::Read(mode[1..].parse().unwrap())
            };
            let (ida, idb) = (6u64, 10u64);
            let mut su = match establish(s, 0, *en != "0", Op::Recv2 { mode }, &[], 0) {
                Ok(su) => su,
                Err(e) => return format!("err {}", e),
            };
            ev(&su.w, &mut su.ex, &format!("U{}", ida));
            ev(&su.w, &mut su.ex, &format!("U{}", idb));
            if *hist != "-" {
                for t in hist.split(',') {
                    if t == "p" {
                        su.ex.run();
                        continue;
                    }
                    if t.starts_with('g') {
                        assert!(apply_event(&su.w, &format!("SEG{}", &t[1..])));
                        continue;
                    }
                    let (id, rest) = if let Some(r) = t.strip_prefix("a:") {
                        (ida, r)
                    } else if let Some(r) = t.strip_prefix("b:") {
                        (idb, r)
                    } else {
                        panic!("driver: bad history item {}", t)
                    };
                    let e = items(id, rest).pop().unwrap();
                    assert!(apply_event(&su.w, &e), "bad event {}", e);
                }
            }
            su.ex.run();
            let p = su.prog.lock().unwrap();
            if let Some(f) = &p.fail {
                return format!("err {}", f);
            }
            let show = |id: u64| match p.multi.get(&id) {
                None => "nostream".to_string(),
                Some((x, pieces, end)) => {
                    let data = if pieces.is_empty() {
                        "-".to_string()
                    } else {
                        pieces.iter().map(|b| hex(b)).collect::<Vec<_>>().join(".")
                    };
                    format!("{} data={} end={}", x, data, end.clone().unwrap_or_else(|| "pending".into()))
                }
            };
            let g = su.w.lock().unwrap();
            let close = g.closed.as_ref().map(|c| c.0.to_string()).unwrap_or_else(|| "-".into());
            let stop = |id: u64| g.streams.get(&id).and_then(|s| s.stopped).map(|c| c.to_string()).unwrap_or_else(|| "-".into());
            format!("ok sess={} A {} stop={} B {} stop={} close={}", p.sess.clone().unwrap(), show(ida), stop(ida), show(idb), stop(idb), close)
        }
        ["wt.multi", s, en, mode, hist] => {
            let s: u64 = s.parse().unwrap();
            let mode = if *mode == "d" {
                Mode::Data
            } else if mode.starts_with('t') {
                Mode::Tokio(mode[1..].parse().unwrap())
            } else {
                Mode::Read(mode[1..].parse().unwrap())
            };
            let mut su = match establish(s, 0, *en != "0", Op::Multi { mode }, &[], 0) {
                Ok(su) => su,
                Err(e) => return format!("err {}", e),
            };
            let mut ids: Vec<u64> = Vec::new();
            if *hist != "-" {
                for t in hist.split(',') {
                    if t == "p" {
                        su.ex.run();
                        continue;
                    }
                    if t.starts_with('g') {
                        assert!(apply_event(&su.w, &format!("SEG{}", &t[1..])));
                        continue;
                    }
                    let mut it = t.splitn(2, ':');
                    let id: u64 = it.next().unwrap().parse().expect("driver: stream id");
                    let rest = it.next().expect("driver: item");
                    if !ids.contains(&id) {
                        ids.push(id);
                        assert!(apply_event(&su.w, &format!("{}{}", if id & 2 == 0 { "B" } else { "U" }, id)));
                    }
                    if rest == "o" {
                        continue;
                    }
                    let e = items(id, rest).pop().unwrap();
                    assert!(apply_event(&su.w, &e), "bad event {}", e);
                }
            }
            su.ex.run();
            let p = su.prog.lock().unwrap();
            if let Some(f) = &p.fail {
                return format!("err {}", f);
            }
            let g = su.w.lock().unwrap();
            ids.sort();
            let mut out = format!("ok sess={}", p.sess.clone().unwrap());
            for id in ids {
                let mid = match p.multi.get(&id) {
                    None => "nostream".to_string(),
                    Some((x, pieces, end)) => {
                        let data = if pieces.is_empty() {
                            "-".to_string()
                        } else {
                            pieces.iter().map(|b| hex(b)).collect::<Vec<_>>().join(".")
                        };
                        format!("{} data={} end={}", x, data, end.clone().unwrap_or_else(|| "pending".into()))
                    }
                };
                let stop = g.streams.get(&id).and_then(|s| s.stopped).map(|c| c.to_string()).unwrap_or_else(|| "-".into());
                out.push_str(&format!(" #{} {} stop={}", id, mid, stop));
            }
            let close = g.closed.as_ref().map(|c| c.0.to_string()).unwrap_or_else(|| "-".into());
            format!("{} close={}", out, close)
        }
        ["wt.open2", s, en, wb, credit, ops] => {
            let s: u64 = s.parse().unwrap();
            let wb: u64 = wb.parse().unwrap();
            let starve = *credit != "0";
            let ops: Vec<(bool, Vec<u8>)> = ops
                .split(',')
                .map(|o| {
                    let mut it = o.splitn(2, ':');
                    let k = it.next().unwrap();
                    (k == "bi", unhex(it.next().unwrap_or("-")))
                })
                .collect();
            let nops = ops.len();
            // starve: exactly the uni streams the server opens at start-up (control, QPACK encoder, decoder), no bidi credit
            let credits = if starve { (3, 0) } else { (100, 100) };
            let mut su = match establish_c(s, 0, *en != "0", Op::OpenMany { ops }, &[], wb, credits) {
                Ok(su) => su,
                Err(e) => return format!("err {}", e),
            };
            let mut guard = 0;
            loop {
                su.ex.run();
                {
                    let p = su.prog.lock().unwrap();
                    if p.opened || p.fail.is_some() {
                        break;
                    }
                }
                guard += 1;
                if guard > 10_000 {
                    break;
                }
                if wb > 0 {
                    let now = su.w.lock().unwrap().local_streams();
                    for id in now.iter().filter(|i| !su.before.contains(i)) {
                        su.w.lock().unwrap().grant_write(*id, wb);
                    }
                }
                if starve {
                    // one more credit of the kind that is missing, one poll later
                    assert!(apply_event(&su.w, if guard % 2 == 1 { "G1" } else { "H1" }));
                }
                if wb == 0 && !starve {
                    break;
                }
            }
            let p = su.prog.lock().unwrap();
            if let Some(f) = &p.fail {
                return format!("err {}", f);
            }
            let g = su.w.lock().unwrap();
            let new: Vec<u64> = g.local_streams().into_iter().filter(|i| !su.before.contains(i)).collect();
            if !p.opened || new.len() != nops {
                return format!("ok sess={} tx=pending opened={}/{}", p.sess.clone().unwrap_or_else(|| "?".into()), p.opened_count, nops);
            }
            let txs: Vec<String> = new.iter().map(|id| hex(&g.tx_of(*id))).collect();
            format!("ok sess={} tx={}", p.sess.clone().unwrap(), txs.join(","))
        }
        _ => "driver-error unknown-case".into(),
    });
}
