//! C16: VarInt and StreamId of the working tree, line protocol of DESIGN.md appendix A.
use bytes::Buf;
use h3::proto::varint::VarInt;
use h3::quic::StreamId;
use h3v::{hex, run_lines, unhex};
use std::convert::TryFrom;

fn main() {
    run_lines(|ws| match ws {
        ["vi.enc", x] => {
            let x: u64 = x.parse().unwrap();
            match VarInt::from_u64(x) {
                Err(_) => "err bounds".into(),
                Ok(v) => {
                    let mut b = Vec::new();
                    v.encode(&mut b);
                    format!("ok {}", hex(&b))
                }
            }
        }
        ["vi.size", x] => {
            let x: u64 = x.parse().unwrap();
            match VarInt::from_u64(x) {
                Err(_) => "err bounds".into(),
                Ok(v) => format!("ok {}", v.size()),
            }
        }
        ["vi.esz", b] => {
            let b: u8 = b.parse().unwrap();
            format!("ok {}", VarInt::encoded_size(b))
        }
        ["vi.dec", h] => {
            let v = unhex(h);
            let mut buf = &v[..];
            match VarInt::decode(&mut buf) {
                Ok(x) => format!("ok {} {}", x.into_inner(), hex(buf.chunk())),
                Err(e) => format!("err {} {}", e.0, hex(buf.chunk())),
            }
        }
        ["vi.decc", chunks] => {
            // the same bytes presented as a non-contiguous Buf (chunk boundaries anywhere)
            let cs: Vec<bytes::Bytes> = chunks.split('.').map(|c| bytes::Bytes::from(unhex(c))).collect();
            let mut buf = h3v::ChunkBuf::new(cs);
            match VarInt::decode(&mut buf) {
                Ok(x) => {
                    let rest = buf.copy_to_bytes(buf.remaining());
                    format!("ok {} {}", x.into_inner(), hex(&rest))
                }
                Err(e) => {
                    let rest = buf.copy_to_bytes(buf.remaining());
                    format!("err {} {}", e.0, hex(&rest))
                }
            }
        }
        // the other checked constructors and the wrappers h3 itself calls (proto/coding.rs, proto/varint.rs)
        ["vi.try64", x] => {
            let x: u64 = x.parse().unwrap();
            match VarInt::try_from(x) {
                Err(_) => "err bounds".into(),
                Ok(v) => {
                    let mut b = Vec::new();
                    v.encode(&mut b);
                    format!("ok {}", hex(&b))
                }
            }
        }
        ["vi.tryus", x] => {
            let x: u64 = x.parse().unwrap();
            match VarInt::try_from(x as usize) {
                Err(_) => "err bounds".into(),
                Ok(v) => {
                    let mut b = Vec::new();
                    v.encode(&mut b);
                    format!("ok {}", hex(&b))
                }
            }
        }
        ["vi.push", x] => {
            let x: u64 = x.parse().unwrap();
            match h3::proto::push::PushId::try_from(x) {
                Err(_) => "err bounds".into(),
                Ok(id) => {
                    let v: VarInt = id.into();
                    let mut b = Vec::new();
                    v.encode(&mut b);
                    format!("ok {}", hex(&b))
                }
            }
        }
        ["vi.wvar", which, x] => {
            let x: u64 = x.parse().unwrap();
            let mut b = Vec::new();
            if *which == "c" {
                h3::proto::coding::BufMutExt::write_var(&mut b, x);
            } else {
                h3::proto::varint::BufMutExt::write_var(&mut b, x);
            }
            format!("ok {}", hex(&b))
        }
        ["vi.gvar", which, chunks] => {
            let cs: Vec<bytes::Bytes> = if *chunks == "-" { vec![] } else { chunks.split('.').map(|c| bytes::Bytes::from(unhex(c))).collect() };
            let mut buf = h3v::ChunkBuf::new(cs);
            let r = if *which == "c" {
                h3::proto::coding::BufExt::get_var(&mut buf).map_err(|e| e.0)
            } else {
                h3::proto::varint::BufExt::get_var(&mut buf).map_err(|e| e.0)
            };
            let rest = buf.copy_to_bytes(buf.remaining());
            match r {
                Ok(x) => format!("ok {} {}", x, hex(&rest)),
                Err(e) => format!("err {} {}", e, hex(&rest)),
            }
        }
        ["sid", x] => {
            let x: u64 = x.parse().unwrap();
            match StreamId::try_from(x) {
                Err(_) => "err invalid".into(),
                Ok(id) => {
                    // initiator and direction are private; Display shows them
                    let d = format!("{}", id);
                    let side = if d.starts_with("client") { "client" } else if d.starts_with("server") { "server" } else { "?" };
                    let dir = if d.contains(" bidirectional") { "bi" } else if d.contains(" unidirectional") { "uni" } else { "?" };
                    format!(
                        "ok {} {} {} {} {}",
                        side,
                        dir,
                        id.index(),
                        id.is_request() as u8,
                        id.is_push() as u8
                    )
                }
            }
        }
        ["sid.add", x, k] => {
            let x: u64 = x.parse().unwrap();
            let k: u64 = k.parse().unwrap();
            let id = StreamId::try_from(x).unwrap();
            let r = id + (k as usize);
            format!("ok {}", r.into_inner())
        }
        _ => "driver-error unknown-case".into(),
    });
}
