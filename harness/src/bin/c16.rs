//! C16: VarInt and StreamId of the working tree, line protocol of DESIGN.md appendix A.
use bytes::Buf;
use h3::proto::varint::VarInt;
use h3::quic::StreamId;
use h3v::{hex, run_lines, unhex};
use std::convert::TryFrom;

fn main() {
    run_lines(|ws| match ws {
        ["vi.enc", x] => {
            let x: u64 = x.parse().unwrap();
            match VarInt::from_u64(x) {
                Err(_) => "err bounds".into(),
                Ok(v) => {
                    let mut b = Vec::new();
                    v.encode(&mut b);
                    format!("ok {}", hex(&b))
                }
            }
        }
        ["vi.size", x] => {
            let x: u64 = x.parse().unwrap();
            match VarInt::from_u64(x) {
                Err(_) => "err bounds".into(),
                Ok(v) => format!("ok {}", v.size()),
            }
        }
        ["vi.esz", b] => {
            let b: u8 = b.parse().unwrap();
            format!("ok {}", VarInt::encoded_size(b))
        }
        ["vi.dec", h] => {
            let v = unhex(h);
            let mut buf = &v[..];
            match VarInt::decode(&mut buf) {
                Ok(x) => format!("ok {} {}", x.into_inner(), hex(buf.chunk())),
                Err(e) => format!("err {} {}", e.0, hex(buf.chunk())),
            }
        }
        ["vi.decc", chunks] => {
            // the same bytes presented as a non-contiguous Buf (chunk boundaries anywhere)
            let cs: Vec<bytes::Bytes> = chunks.split('.').map(|c| bytes::Bytes::from(unhex(c))).collect();
            let mut buf = h3v::ChunkBuf::new(cs);
            match VarInt::decode(&mut buf) {
                Ok(x) => {
                    let rest = buf.copy_to_bytes(buf.remaining());
                    format!("ok {} {}", x.into_inner(), hex(&rest))
                }
                Err(e) => {
                    let rest = buf.copy_to_bytes(buf.remaining());
                    format!("err {} {}", e.0, hex(&rest))
                }
            }
        }
        ["sid", x] => {
            let x: u64 = x.parse().unwrap();
            match StreamId::try_from(x) {
                Err(_) => "err invalid".into(),
                Ok(id) => {
                    // initiator and direction are private; Display shows them
                    let d = format!("{}", id);
                    let side = if d.starts_with("client") { "client" } else if d.starts_with("server") { "server" } else { "?" };
                    let dir = if d.contains(" bidirectional") { "bi" } else if d.contains(" unidirectional") { "uni" } else { "?" };
                    format!(
                        "ok {} {} {} {} {}",
                        side,
                        dir,
                        id.index(),
                        id.is_request() as u8,
                        id.is_push() as u8
                    )
                }
            }
        }
        ["sid.add", x, k] => {
            let x: u64 = x.parse().unwrap();
            let k: u64 = k.parse().unwrap();
            let id = StreamId::try_from(x).unwrap();
            let r = id + (k as usize);
            format!("ok {}", r.into_inner())
        }
        _ => "driver-error unknown-case".into(),
    });
}
