//! C16: VarInt and StreamId of the working tree, line protocol of DESIGN.md appendix A.
use bytes::{Buf, BufMut};
use h3::proto::coding::{Decode, Encode};
use h3::proto::stream::StreamType;
use h3::proto::varint::VarInt;
use h3::quic::StreamId;
use h3::webtransport::SessionId;
use h3v::{hex, run_lines, unhex};
use std::convert::TryFrom;

/// Lenient reading of `Display for StreamId` (the same function as `display_parse` of translate/gen_varint.py):
/// case-insensitive initiator / direction words, the last run of digits.  `?` = not recognisable (then the
/// words are not compared; the translator reports the unreadable wording).
fn display_parse(text: &str) -> (&'static str, &'static str, String) {
    let low = text.to_lowercase();
    let (c, s) = (low.contains("client"), low.contains("server"));
    let side = if c && !s { "client" } else if s && !c { "server" } else { "?" };
    let dir = if low.contains("uni") { "uni" } else if low.contains("bi") { "bi" } else { "?" };
    let mut num = String::new();
    let mut cur = String::new();
    for ch in text.chars() {
        if ch.is_ascii_digit() {
            cur.push(ch);
        } else if !cur.is_empty() {
            num = std::mem::take(&mut cur);
        }
    }
    if !cur.is_empty() {
        num = cur;
    }
    if num.is_empty() {
        num.push('?');
    }
    (side, dir, num)
}

fn chunkbuf(chunks: &str) -> h3v::ChunkBuf {
    let cs: Vec<bytes::Bytes> = if chunks == "-" { vec![] } else { chunks.split('.').map(|c| bytes::Bytes::from(unhex(c))).collect() };
    h3v::ChunkBuf::new(cs)
}

/// The chunks of what a decoder left behind, `aa.bbcc` (`-` when nothing is left): where the reader stands after a
/// successful AND after a failed decode, chunk boundaries included (compared with the model of the bytes-crate provided
/// methods, Model/ChunkedBuf.v; the specification column only sees the concatenation, and nothing at all after an error).
fn rest_chunks(buf: &mut h3v::ChunkBuf) -> String {
    let mut parts: Vec<String> = Vec::new();
    while buf.has_remaining() {
        let c = buf.chunk().to_vec();
        if c.is_empty() {
            parts.push("EMPTY-CHUNK".into());
            break;
        }
        parts.push(hex(&c));
        buf.advance(c.len());
    }
    if parts.is_empty() {
        "-".into()
    } else {
        parts.join(".")
    }
}

fn main() {
    run_lines(|ws| match ws {
        ["vi.enc", x] => {
            let x: u64 = x.parse().unwrap();
            match VarInt::from_u64(x) {
                Err(_) => "err bounds".into(),
                Ok(v) => {
                    let mut b = Vec::new();
                    v.encode(&mut b);
                    format!("ok {}", hex(&b))
                }
            }
        }
        ["vi.size", x] => {
            let x: u64 = x.parse().unwrap();
            match VarInt::from_u64(x) {
                Err(_) => "err bounds".into(),
                Ok(v) => format!("ok {}", v.size()),
            }
        }
        ["vi.esz", b] => {
            let b: u8 = b.parse().unwrap();
            format!("ok {}", VarInt::encoded_size(b))
        }
        ["vi.dec", h] => {
            let v = unhex(h);
            let mut buf = &v[..];
            match VarInt::decode(&mut buf) {
                Ok(x) => format!("ok {} {}", x.into_inner(), hex(buf.chunk())),
                Err(e) => format!("err {} {}", e.0, hex(buf.chunk())),
            }
        }
        ["vi.decc", chunks] => {
            // the same bytes presented as a non-contiguous Buf (chunk boundaries anywhere)
            let cs: Vec<bytes::Bytes> = chunks.split('.').map(|c| bytes::Bytes::from(unhex(c))).collect();
            let mut buf = h3v::ChunkBuf::new(cs);
            let r = VarInt::decode(&mut buf);
            let rest = rest_chunks(&mut buf);
            match r {
                Ok(x) => format!("ok {} {}", x.into_inner(), rest),
                Err(e) => format!("err {} {}", e.0, rest),
            }
        }
        // the other checked constructors and the wrappers h3 itself calls (proto/coding.rs, proto/varint.rs)
        ["vi.try64", x] => {
            let x: u64 = x.parse().unwrap();
            match VarInt::try_from(x) {
                Err(_) => "err bounds".into(),
                Ok(v) => {
                    let mut b = Vec::new();
                    v.encode(&mut b);
                    format!("ok {}", hex(&b))
                }
            }
        }
        ["vi.tryus", x] => {
            let x: u64 = x.parse().unwrap();
            match VarInt::try_from(x as usize) {
                Err(_) => "err bounds".into(),
                Ok(v) => {
                    let mut b = Vec::new();
                    v.encode(&mut b);
                    format!("ok {}", hex(&b))
                }
            }
        }
        ["vi.push", x] => {
            let x: u64 = x.parse().unwrap();
            match h3::proto::push::PushId::try_from(x) {
                Err(_) => "err bounds".into(),
                Ok(id) => {
                    let v: VarInt = id.into();
                    let mut b = Vec::new();
                    v.encode(&mut b);
                    format!("ok {}", hex(&b))
                }
            }
        }
        ["vi.wvar", which, x] => {
            let x: u64 = x.parse().unwrap();
            let mut b = Vec::new();
            if *which == "c" {
                h3::proto::coding::BufMutExt::write_var(&mut b, x);
            } else {
                h3::proto::varint::BufMutExt::write_var(&mut b, x);
            }
            format!("ok {}", hex(&b))
        }
        ["vi.gvar", which, chunks] => {
            let cs: Vec<bytes::Bytes> = if *chunks == "-" { vec![] } else { chunks.split('.').map(|c| bytes::Bytes::from(unhex(c))).collect() };
            let mut buf = h3v::ChunkBuf::new(cs);
            let r = if *which == "c" {
                h3::proto::coding::BufExt::get_var(&mut buf).map_err(|e| e.0)
            } else {
                h3::proto::varint::BufExt::get_var(&mut buf).map_err(|e| e.0)
            };
            let rest = rest_chunks(&mut buf);
            match r {
                Ok(x) => format!("ok {} {}", x, rest),
                Err(e) => format!("err {} {}", e, rest),
            }
        }
        ["sid", x] => {
            let x: u64 = x.parse().unwrap();
            match StreamId::try_from(x) {
                Err(_) => "err invalid".into(),
                Ok(id) => {
                    // initiator() and dir() are not public: `id + 0` is Self::new(index, self.dir(), self.initiator()),
                    // whose two low bits are the discriminants of what dir() and initiator() returned
                    // (no English words involved; Display is the separate family sid.disp)
                    let low = (id + 0usize).into_inner() & 3;
                    let side = if low & 1 == 0 { "client" } else { "server" };
                    let dir = if low & 2 == 0 { "bi" } else { "uni" };
                    format!(
                        "ok {} {} {} {} {}",
                        side,
                        dir,
                        id.index(),
                        id.is_request() as u8,
                        id.is_push() as u8
                    )
                }
            }
        }
        ["sid.add", x, k] => {
            let x: u64 = x.parse().unwrap();
            let k: u64 = k.parse().unwrap();
            let id = StreamId::try_from(x).unwrap();
            let r = id + (k as usize);
            format!("ok {}", r.into_inner())
        }
        ["sid.disp", x] => {
            let x: u64 = x.parse().unwrap();
            match StreamId::try_from(x) {
                Err(_) => "err invalid".into(),
                Ok(id) => {
                    let (side, dir, num) = display_parse(&format!("{}", id));
                    format!("ok {} {} {}", side, dir, num)
                }
            }
        }
        ["sid.enc", x] => {
            let x: u64 = x.parse().unwrap();
            match StreamId::try_from(x) {
                Err(_) => "err invalid".into(),
                Ok(id) => {
                    let mut b = Vec::new();
                    Encode::encode(&id, &mut b);
                    format!("ok {}", hex(&b))
                }
            }
        }
        ["st.enc", x] => {
            let x: u64 = x.parse().unwrap();
            let t = StreamType::from_value(x);
            assert_eq!(t.value(), x);
            let mut b = Vec::new();
            Encode::encode(&t, &mut b);
            format!("ok {}", hex(&b))
        }
        ["st.dec", chunks] => {
            let mut buf = chunkbuf(chunks);
            let r = <StreamType as Decode>::decode(&mut buf);
            let rest = rest_chunks(&mut buf);
            match r {
                Ok(t) => format!("ok {} {}", t.value(), rest),
                Err(e) => format!("err {} {}", e.0, rest),
            }
        }
        ["vi.sess", x] => {
            let x: u64 = x.parse().unwrap();
            match SessionId::try_from(x) {
                Err(_) => "err invalid".into(),
                Ok(sid) => {
                    let inner = StreamId::from(sid).into_inner();
                    let mut b = Vec::new();
                    Encode::encode(&sid, &mut b);
                    format!("ok {} {}", inner, hex(&b))
                }
            }
        }
        ["vi.sessd", chunks] => {
            let mut buf = chunkbuf(chunks);
            let r = <SessionId as Decode>::decode(&mut buf);
            let rest = rest_chunks(&mut buf);
            match r {
                Ok(s) => format!("ok {} {}", StreamId::from(s).into_inner(), rest),
                Err(e) => format!("err {} {}", e.0, rest),
            }
        }
        ["vi.from", w, x] => {
            // the infallible constructors
            let x: u64 = x.parse().unwrap();
            let v: VarInt = match *w {
                "8" => VarInt::from(u8::try_from(x).unwrap()),
                "16" => VarInt::from(u16::try_from(x).unwrap()),
                "32" => VarInt::from(u32::try_from(x).unwrap()),
                _ => VarInt::from_u32(u32::try_from(x).unwrap()),
            };
            assert_eq!(u64::from(v), x);
            let mut b = Vec::new();
            v.encode(&mut b);
            format!("ok {}", hex(&b))
        }
        ["vi.encp", which, pre, x] => {
            // encode onto a target that already holds bytes: Vec, BytesMut, or a fixed slice
            let x: u64 = x.parse().unwrap();
            let pre = unhex(pre);
            match VarInt::from_u64(x) {
                Err(_) => "err bounds".into(),
                Ok(v) => match *which {
                    "v" => {
                        let mut b = pre.clone();
                        v.encode(&mut b);
                        format!("ok {}", hex(&b))
                    }
                    "b" => {
                        let mut b = bytes::BytesMut::with_capacity(1);
                        b.put_slice(&pre);
                        v.encode(&mut b);
                        format!("ok {}", hex(&b))
                    }
                    _ => {
                        let mut arr = [0xeeu8; 96];
                        let n = {
                            let mut sl = &mut arr[..];
                            sl.put_slice(&pre);
                            v.encode(&mut sl);
                            96 - sl.remaining_mut()
                        };
                        format!("ok {}", hex(&arr[..n]))
                    }
                },
            }
        }
        _ => "driver-error unknown-case".into(),
    });
}
