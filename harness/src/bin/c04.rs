//! C04: control / unidirectional stream rules.  Drives the REAL h3 `server::Connection::accept()` or the client
//! driver `client::Connection::poll_close` over SimQuic with a scripted peer.
//!
//! case line:  ctl.s|ctl.c g=<0|1> cr=<uni credits at start> b=<u|n default write budget> ev=<e1,e2,...>
//! events are those of `simquic::apply_event` plus `P` = poll the driver task once (only explicit polls,
//! no wakers: the interleaving of arrivals and polls is exactly the one written in the case).
//! (a server's accept() is called again at the next poll after it answered None; a client is driven through
//! `poll_close` when the number of events of the case is odd and through the documented `wait_idle().await` when even)
//! result:  <pending | ok none | err c:<code>:<variant>> at=<poll number at which that result first appeared|->
//!          ph=<build|run> close=<first close code|-> stops=<id:code;...|-> opened=<n> fins=<n>
//!          set=<dg><ec><wt>|- closing=<0|1|-> req=<closing|ok|pending|-|err..>
//!          handed=<frames poll_control returned to the driver: S, G<id>, C<id>, M<id> joined by '.'|->
use bytes::Bytes;
use h3::ConnectionState;
use h3v::run_lines;
use h3v::simquic::*;
use std::cell::RefCell;
use std::rc::Rc;
use std::sync::Arc;

type SrvConn = h3::server::Connection<SimConn, Bytes>;
type CliConn = h3::client::Connection<SimConn, Bytes>;
type CliSend = h3::client::SendRequest<SimOpener, Bytes>;

/// `YieldOnce(false).await` returns Pending once: the rest of the task runs at the next poll.
struct YieldOnce(bool);
impl std::future::Future for YieldOnce {
    type Output = ();
    fn poll(mut self: std::pin::Pin<&mut Self>, _cx: &mut std::task::Context<'_>) -> std::task::Poll<()> {
        if self.0 {
            std::task::Poll::Ready(())
        } else {
            self.0 = true;
            h3v::simquic::harness_yield();
            std::task::Poll::Pending
        }
    }
}

fn kv<'a>(ws: &'a [&'a str], key: &str) -> &'a str {
    for w in ws {
        if let Some(r) = w.strip_prefix(key) {
            return r;
        }
    }
    panic!("missing {}", key)
}

fn run_case(ws: &[&str]) -> String {
    let server = match ws[0] {
        "ctl.s" => true,
        "ctl.c" => false,
        _ => return "driver-error unknown-family".into(),
    };
    let grease = kv(ws, "g=") == "1";
    let credits: u64 = kv(ws, "cr=").parse().unwrap();
    let budget = match kv(ws, "b=") {
        "u" => None,
        x => Some(x.parse::<u64>().unwrap()),
    };
    let evs: Vec<&str> = kv(ws, "ev=").split(',').filter(|s| !s.is_empty() && *s != "-").collect();

    // the cfg(h3_verif) log of frames poll_control hands to the role's driver: cleared here, read at the end
    let _ = h3::verif::take_control_log();
    let w = World::new(if server { Side::Server } else { Side::Client }, credits, 0, budget);
    let mut ex = Exec::new();
    let shared: Rc<RefCell<Option<Arc<h3::SharedState>>>> = Rc::new(RefCell::new(None));
    let keep_s: Rc<RefCell<Option<SrvConn>>> = Rc::new(RefCell::new(None));
    let keep_c: Rc<RefCell<Option<CliConn>>> = Rc::new(RefCell::new(None));
    let sender: Rc<RefCell<Option<CliSend>>> = Rc::new(RefCell::new(None));
    let status: Rc<RefCell<String>> = Rc::new(RefCell::new("pending".to_string()));

    let via_wait_idle = evs.len() % 2 == 0;
    let t = if server {
        let (w2, sh, keep, st) = (w.clone(), shared.clone(), keep_s.clone(), status.clone());
        ex.spawn(async move {
            let mut b = h3::server::builder();
            b.send_grease(grease);
            let mut conn: SrvConn = match b.build(SimConn { world: w2 }).await {
                Ok(c) => c,
                Err(e) => return format!("err {} build", conn_err(&e)),
            };
            *sh.borrow_mut() = Some(conn.inner.shared.clone());
            // accept() is called again (at the next poll) after it answered None: the server stays observable
            // after a GOAWAY; the second shutdown(0) inside accept() is a no-op
            let r = loop {
                match conn.accept().await {
                    Ok(Some(_)) => break "ok some".to_string(),
                    Ok(None) => {
                        *st.borrow_mut() = "ok none".to_string();
                        YieldOnce(false).await;
                    }
                    Err(e) => break format!("err {}", conn_err(&e)),
                }
            };
            // keep the connection alive: dropping it would log a close(H3_NO_ERROR) of the harness' own making
            *keep.borrow_mut() = Some(conn);
            r
        })
    } else {
        let (w2, sh, keep, snd) = (w.clone(), shared.clone(), keep_c.clone(), sender.clone());
        ex.spawn(async move {
            let mut b = h3::client::builder();
            b.send_grease(grease);
            let (mut conn, sr): (CliConn, CliSend) = match b.build(SimConn { world: w2 }).await {
                Ok(c) => c,
                Err(e) => return format!("err {} build", conn_err(&e)),
            };
            *sh.borrow_mut() = Some(conn.inner.shared.clone());
            *snd.borrow_mut() = Some(sr);
            let e = if via_wait_idle {
                conn.wait_idle().await
            } else {
                futures_util::future::poll_fn(|cx| conn.poll_close(cx)).await
            };
            *keep.borrow_mut() = Some(conn);
            format!("err {}", conn_err(&e))
        })
    };

    let mut polls = 0u64;
    let mut done_at: Option<u64> = None;
    let mut res = "pending".to_string();
    for ev in &evs {
        if *ev == "P" {
            polls += 1;
            if !ex.done(t) {
                ex.poll(t);
            }
            // the poll at which the present result was first returned
            let cur = match ex.result(t) {
                Some(r) => r.clone(),
                None => status.borrow().clone(),
            };
            if cur != res {
                res = cur;
                done_at = Some(polls);
            }
        } else if !apply_event(&w, ev) {
            return format!("driver-error bad-event {}", ev);
        }
    }
    let (close, stops, opened, fins) = {
        let g = w.lock().unwrap();
        let close = g.closed.as_ref().map(|c| c.0.to_string()).unwrap_or_else(|| "-".into());
        let mut stops = Vec::new();
        let mut opened = 0;
        let mut fins = 0;
        for l in &g.log {
            if let Some(r) = l.strip_prefix("stop ") {
                stops.push(r.replace(' ', ":"));
            } else if l.starts_with("open_uni ") {
                opened += 1;
            } else if l.starts_with("fin ") {
                fins += 1;
            }
        }
        (close, if stops.is_empty() { "-".to_string() } else { stops.join(";") }, opened, fins)
    };
    let sh = shared.borrow().clone();
    let (ph, set, closing) = match &sh {
        None => ("build", "-".to_string(), "-".to_string()),
        Some(s) => {
            let st = s.settings();
            (
                "run",
                format!(
                    "{}{}{}",
                    st.enable_datagram() as u8,
                    st.enable_extended_connect() as u8,
                    st.enable_webtransport() as u8
                ),
                (s.is_closing() as u8).to_string(),
            )
        }
    };
    // client only: is a new request still possible?  (GOAWAY processed => RemoteClosing, and no stream is opened)
    let mut req = "-".to_string();
    if !server {
        let sr = sender.borrow_mut().take();
        if let Some(mut sr) = sr {
            apply_event(&w, "H1");
            apply_event(&w, "W*:1000000000");
            let before = w.lock().unwrap().log.iter().filter(|l| l.starts_with("open_bidi")).count();
            let out: Rc<RefCell<Option<String>>> = Rc::new(RefCell::new(None));
            let out2 = out.clone();
            let keep_sr: Rc<RefCell<Option<CliSend>>> = Rc::new(RefCell::new(None));
            let keep_sr2 = keep_sr.clone();
            let p = ex.spawn(async move {
                let rq = http::Request::builder().method("GET").uri("https://a/").body(()).unwrap();
                let r = match sr.send_request(rq).await {
                    Ok(_s) => "ok".to_string(),
                    Err(h3::error::StreamError::RemoteClosing) => "closing".to_string(),
                    Err(e) => format!("err:{}", stream_err(&e)),
                };
                *keep_sr2.borrow_mut() = Some(sr);
                *out2.borrow_mut() = Some(r.clone());
                r
            });
            for _ in 0..4 {
                if ex.done(p) {
                    break;
                }
                ex.poll(p);
            }
            let after = w.lock().unwrap().log.iter().filter(|l| l.starts_with("open_bidi")).count();
            req = match out.borrow().clone() {
                Some(r) if r == "closing" && after != before => "closing-but-opened".to_string(),
                Some(r) => r,
                None => "pending".to_string(),
            };
        }
    }
    let at = done_at.map(|d| d.to_string()).unwrap_or_else(|| "-".into());
    let handed: Vec<String> = h3::verif::take_control_log()
        .into_iter()
        .map(|(_, ty, id)| match ty {
            0x4 => "S".to_string(),
            0x7 => format!("G{}", id),
            0x3 => format!("C{}", id),
            0xd => format!("M{}", id),
            x => format!("X{}", x),
        })
        .collect();
    let handed = if handed.is_empty() { "-".to_string() } else { handed.join(".") };
    format!(
        "{} at={} ph={} close={} stops={} opened={} fins={} set={} closing={} req={} handed={}",
        res, at, ph, close, stops, opened, fins, set, closing, req, handed
    )
}

fn main() {
    run_lines(run_case);
}
