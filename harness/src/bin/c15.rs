//! C15: prefix_int, Huffman and prefix_string codecs of h3 (through the cfg(h3_verif) hook wrappers).
use h3::verif::qpack::strings::{
    huffman_decode, huffman_encode, prefix_int_decode, prefix_int_encode, prefix_string_decode,
    prefix_string_encode,
};
use bytes::Buf;
use h3v::{hex, run_lines, unhex, ChunkBuf};

fn int_err(e: &str) -> &'static str {
    if e.starts_with("Overflow") {
        "err overflow"
    } else if e.starts_with("UnexpectedEnd") {
        "err end"
    } else {
        "err ?"
    }
}

fn huff_err(e: &str) -> &'static str {
    if e.starts_with("MissingBits") {
        "err missing"
    } else if e.starts_with("Unhandled") {
        "err unhandled"
    } else {
        "err ?"
    }
}

fn hd(payload: &[u8]) -> String {
    match huffman_decode(payload) {
        Ok(v) => format!("ok {}", hex(&v)),
        Err(e) => huff_err(&e).to_string(),
    }
}

fn fnv(h: &mut u64, s: &str) {
    for b in s.as_bytes() {
        *h ^= *b as u64;
        *h = h.wrapping_mul(0x100000001b3);
    }
    *h ^= 10;
    *h = h.wrapping_mul(0x100000001b3);
}

/// the same bytes as a non-contiguous `Buf`: chunks separated by '.'
fn chunk_buf(spec: &str) -> ChunkBuf {
    if spec == "-" {
        return ChunkBuf::new(vec![]);
    }
    ChunkBuf::new(spec.split('.').map(|c| bytes::Bytes::from(unhex(c))).collect())
}

/// the chunks of the buffer a decoder left behind, `aa.bbcc` (`-` when nothing is left), chunk boundaries included
fn drain(mut b: ChunkBuf) -> String {
    let mut parts: Vec<String> = Vec::new();
    while b.has_remaining() {
        let c = b.chunk().to_vec();
        if c.is_empty() {
            parts.push("EMPTY-CHUNK".into());
            break;
        }
        b.advance(c.len());
        parts.push(hex(&c));
    }
    if parts.is_empty() {
        "-".into()
    } else {
        parts.join(".")
    }
}

fn ps_err(e: &str) -> String {
    if e.starts_with("UnexpectedEnd") {
        "err end".to_string()
    } else if e.starts_with("Integer(Overflow") {
        "err overflow".to_string()
    } else if e.starts_with("BufSize") {
        "err bufsize".to_string()
    } else if let Some(r) = e.strip_prefix("HuffmanDecoding(") {
        format!("err huffman {}", &huff_err(r)[4..])
    } else {
        "err ?".to_string()
    }
}

/// seeded octet string, the same generator as in ocaml/C15_driver.ml (odd seeds: lower-case letters)
fn gen(seed: u64, len: usize) -> Vec<u8> {
    let mut x = seed.wrapping_mul(0x9E3779B97F4A7C15) ^ 0xD1B54A32D192ED03;
    (0..len)
        .map(|_| {
            x = x.wrapping_mul(6364136223846793005).wrapping_add(1442695040888963407);
            let b = (x >> 56) as u8;
            if seed & 1 == 1 {
                97 + b % 26
            } else {
                b
            }
        })
        .collect()
}

fn fnv_bytes(b: &[u8]) -> u64 {
    let mut h = 0xcbf29ce484222325u64;
    for x in b {
        h ^= *x as u64;
        h = h.wrapping_mul(0x100000001b3);
    }
    h
}

fn main() {
    run_lines(|ws| match ws {
        // large seeded strings, results as digests
        ["he.big", len, seed] => {
            let s = gen(seed.parse().unwrap(), len.parse().unwrap());
            match huffman_encode(&s) {
                Ok(e) => format!("ok elen={} h={:016x}", e.len(), fnv_bytes(&e)),
                Err(_) => "err".to_string(),
            }
        }
        ["hd.big", len, seed] => {
            let s = gen(seed.parse().unwrap(), len.parse().unwrap());
            match huffman_encode(&s) {
                Ok(e) => match huffman_decode(&e) {
                    Ok(d) => format!("ok dlen={} h={:016x}", d.len(), fnv_bytes(&d)),
                    Err(e) => huff_err(&e).to_string(),
                },
                Err(_) => "err".to_string(),
            }
        }
        ["ps.rt", size, len, seed, flags] => {
            let size: u8 = size.parse().unwrap();
            let flags: u8 = flags.parse().unwrap();
            let s = gen(seed.parse().unwrap(), len.parse().unwrap());
            let mut enc = Vec::new();
            if prefix_string_encode(size, flags, &s, &mut enc).is_err() {
                return "err encode".to_string();
            }
            let elen = enc.len();
            let he = fnv_bytes(&enc);
            enc.extend_from_slice(b"zz");
            let mut buf: &[u8] = &enc;
            match prefix_string_decode(size, &mut buf) {
                Ok(v) => format!(
                    "ok elen={} h={:016x} dlen={} hd={:016x} rest={}",
                    elen,
                    he,
                    v.len(),
                    fnv_bytes(&v),
                    hex(buf)
                ),
                Err(e) => ps_err(&e),
            }
        }
        // chunked variants: the decoders are generic over `B: Buf`
        ["pi.decc", size, spec] => {
            let size: u8 = size.parse().unwrap();
            let mut buf = chunk_buf(spec);
            match prefix_int_decode(size, &mut buf) {
                Ok((f, v)) => format!("ok {} {} {}", f, v, drain(buf)),
                Err(e) => int_err(&e).to_string(),
            }
        }
        ["ps.decc", size, spec] => {
            let size: u8 = size.parse().unwrap();
            let mut buf = chunk_buf(spec);
            match prefix_string_decode(size, &mut buf) {
                Ok(v) => format!("ok {} {}", hex(&v), drain(buf)),
                Err(e) => ps_err(&e),
            }
        }
        ["pi.dec", size, h] => {
            let size: u8 = size.parse().unwrap();
            let data = unhex(h);
            let mut buf: &[u8] = &data;
            match prefix_int_decode(size, &mut buf) {
                Ok((f, v)) => format!("ok {} {} {}", f, v, hex(buf)),
                Err(e) => int_err(&e).to_string(),
            }
        }
        ["pi.enc", size, flags, value] => {
            let size: u8 = size.parse().unwrap();
            let flags: u8 = flags.parse().unwrap();
            let value: u64 = value.parse().unwrap();
            // the encoders append to a NON-empty Vec; what was there must stay untouched
            let mut out = vec![0xAAu8, 0x55];
            prefix_int_encode(size, flags, value, &mut out);
            if out[..2] != [0xAA, 0x55] {
                return "err prefix-clobbered".to_string();
            }
            format!("ok {}", hex(&out[2..]))
        }
        ["hd", h] => hd(&unhex(h)),
        // all payloads PREFIX ++ suffix, suffix of N bytes in lexicographic order: digests of the results
        ["hd.blk", prefix, n] => {
            let p = unhex(prefix);
            let n: u32 = n.parse().unwrap();
            let total: u64 = 1u64 << (8 * n);
            let (mut h1, mut h2, mut oks) = (0xcbf29ce484222325u64, 0xcbf29ce484222325u64, 0u64);
            let mut payload = p.clone();
            payload.resize(p.len() + n as usize, 0);
            for k in 0..total {
                for j in 0..n as usize {
                    payload[p.len() + j] = (k >> (8 * (n as usize - 1 - j))) as u8;
                }
                let r = hd(&payload);
                fnv(&mut h1, &r);
                if r.starts_with("ok") {
                    oks += 1;
                    fnv(&mut h2, &r);
                } else {
                    fnv(&mut h2, "err");
                }
            }
            format!("n={} ok={} h1={:016x} h2={:016x}", total, oks, h1, h2)
        }
        ["he", h] => match huffman_encode(&unhex(h)) {
            Ok(v) => format!("ok {}", hex(&v)),
            Err(_) => "err".to_string(),
        },
        ["ps.dec", size, h] => {
            let size: u8 = size.parse().unwrap();
            let data = unhex(h);
            let mut buf: &[u8] = &data;
            match prefix_string_decode(size, &mut buf) {
                Ok(v) => format!("ok {} {}", hex(&v), hex(buf)),
                Err(e) => ps_err(&e),
            }
        }
        ["ps.enc", size, flags, h] => {
            let size: u8 = size.parse().unwrap();
            let flags: u8 = flags.parse().unwrap();
            let mut out = vec![0xAAu8, 0x55];
            match prefix_string_encode(size, flags, &unhex(h), &mut out) {
                Ok(()) if out[..2] != [0xAA, 0x55] => "err prefix-clobbered".to_string(),
                Ok(()) => format!("ok {}", hex(&out[2..])),
                Err(_) => "err".to_string(),
            }
        }
        _ => "driver-error unknown-case".into(),
    });
}
