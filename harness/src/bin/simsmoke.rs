//! smoke test of SimQuic: server accepts one GET request sent by a scripted peer
use bytes::Bytes;
use h3v::simquic::*;
use h3v::hex;

fn main() {
    let w = World::new(Side::Server, 100, 100, None);
    let mut ex = Exec::new();
    let w2 = w.clone();
    let t = ex.spawn(async move {
        let mut conn: h3::server::Connection<SimConn, Bytes> =
            match h3::server::builder().build(SimConn { world: w2 }).await {
                Ok(c) => c,
                Err(e) => return format!("build-err {}", conn_err(&e)),
            };
        let mut out = String::new();
        loop {
            match conn.accept().await {
                Ok(Some(resolver)) => match resolver.resolve_request().await {
                    Ok((req, mut stream)) => {
                        out.push_str(&format!("req {} {} ", req.method(), req.uri()));
                        loop {
                            match stream.recv_data().await {
                                Ok(Some(mut d)) => {
                                    use bytes::Buf;
                                    let b = d.copy_to_bytes(d.remaining());
                                    out.push_str(&format!("data {} ", hex(&b)));
                                }
                                Ok(None) => break,
                                Err(e) => {
                                    out.push_str(&format!("data-err {} ", stream_err(&e)));
                                    break;
                                }
                            }
                        }
                        let resp = http::Response::builder().status(200).body(()).unwrap();
                        let _ = stream.send_response(resp).await;
                        let _ = stream.send_data(Bytes::from_static(b"hi")).await;
                        let _ = stream.finish().await;
                    }
                    Err(e) => out.push_str(&format!("resolve-err {} ", stream_err(&e))),
                },
                Ok(None) => {
                    out.push_str("accept-none");
                    return out;
                }
                Err(e) => {
                    out.push_str(&format!("accept-err {}", conn_err(&e)));
                    return out;
                }
            }
        }
    });
    ex.run();
    // peer: control stream with SETTINGS, then request on stream 0: HEADERS(:method GET,:scheme https,:authority a,:path /) + DATA "xy" + FIN
    for ev in ["U2", "2:c:000400", "B0", "0:c:0108", "0:c:0000d1d7500161c1", "0:c:00027879", "0:F"] {
        assert!(apply_event(&w, ev), "{}", ev);
        ex.run();
    }
    println!("task done={} result={:?}", ex.done(t), ex.result(t));
    apply_event(&w, "X256");
    ex.run();
    println!("task done={} result={:?}", ex.done(t), ex.result(t));
    let g = w.lock().unwrap();
    println!("log {:?}", g.log);
    for (id, s) in g.streams.iter() {
        println!("stream {} tx {}", id, hex(&s.tx));
    }
}
