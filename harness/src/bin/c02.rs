//! C02: the real `h3::frame::FrameStream::{poll_next, poll_data}` over a scripted transport receive half,
//! `Frame::decode` on flat buffers, and the FrameProtocolError -> Code mapping.
//! Case lines: see ocaml/C02_driver.ml.
use bytes::{Buf, Bytes};
use h3::error::internal_error::InternalConnectionError;
use h3::frame::{FrameProtocolError, FrameStream, FrameStreamError};
use h3::proto::frame::{Frame, FrameError, PayloadLen, SettingsError};
use h3::quic::{ConnectionErrorIncoming, RecvStream, StreamErrorIncoming, StreamId};
use h3::stream::BufRecvStream;
use h3v::{code_value, hex, run_lines, unhex};
use std::cell::RefCell;
use std::collections::VecDeque;
use std::convert::TryFrom;
use std::rc::Rc;
use std::sync::Arc;
use std::task::{Context, Poll, Wake, Waker};

#[derive(Clone)]
enum Ev {
    Chunk(Bytes),
    Fin,
    Reset(u64),
    AppClose(u64),
    Timeout,
    Internal,
    Undefined,
    Unknown,
}

impl Ev {
    fn terminal(&self) -> bool {
        !matches!(self, Ev::Chunk(_))
    }
}

struct ScriptRecv {
    q: Rc<RefCell<VecDeque<Ev>>>,
    /// set when the transport answered Pending (i.e. took the caller's waker) during the current call
    pended: Rc<std::cell::Cell<bool>>,
}

impl RecvStream for ScriptRecv {
    type Buf = Bytes;
    fn poll_data(&mut self, _cx: &mut Context<'_>) -> Poll<Result<Option<Bytes>, StreamErrorIncoming>> {
        let mut q = self.q.borrow_mut();
        match q.front().cloned() {
            None => {
                self.pended.set(true);
                Poll::Pending
            }
            Some(Ev::Chunk(b)) => {
                q.pop_front();
                Poll::Ready(Ok(Some(b)))
            }
            Some(Ev::Fin) => Poll::Ready(Ok(None)),
            Some(Ev::Reset(c)) => Poll::Ready(Err(StreamErrorIncoming::StreamTerminated { error_code: c })),
            Some(Ev::AppClose(c)) => Poll::Ready(Err(StreamErrorIncoming::ConnectionErrorIncoming {
                connection_error: ConnectionErrorIncoming::ApplicationClose { error_code: c },
            })),
            Some(Ev::Timeout) => Poll::Ready(Err(StreamErrorIncoming::ConnectionErrorIncoming {
                connection_error: ConnectionErrorIncoming::Timeout,
            })),
            Some(Ev::Internal) => Poll::Ready(Err(StreamErrorIncoming::ConnectionErrorIncoming {
                connection_error: ConnectionErrorIncoming::InternalError("scripted".into()),
            })),
            Some(Ev::Undefined) => Poll::Ready(Err(StreamErrorIncoming::ConnectionErrorIncoming {
                connection_error: ConnectionErrorIncoming::Undefined(Arc::new(std::io::Error::new(
                    std::io::ErrorKind::Other,
                    "scripted",
                ))),
            })),
            Some(Ev::Unknown) => Poll::Ready(Err(StreamErrorIncoming::Unknown("scripted".into()))),
        }
    }
    fn stop_sending(&mut self, _error_code: u64) {}
    fn recv_id(&self) -> StreamId {
        StreamId::try_from(0u64).unwrap()
    }
}

struct Noop;
impl Wake for Noop {
    fn wake(self: Arc<Self>) {}
}

/// counts wake-ups: a call that answers Pending must either have left its waker with the transport (the transport
/// answered Pending during the call) or have woken itself - otherwise nothing will ever poll it again
struct CountWake(std::sync::atomic::AtomicUsize);
impl Wake for CountWake {
    fn wake(self: Arc<Self>) {
        self.0.fetch_add(1, std::sync::atomic::Ordering::SeqCst);
    }
    fn wake_by_ref(self: &Arc<Self>) {
        self.0.fetch_add(1, std::sync::atomic::Ordering::SeqCst);
    }
}

fn inner_num(debug: &str) -> String {
    // "CancelPush(2)" / "SessionId(5)" / "push 3" -> the number
    debug.chars().filter(|c| c.is_ascii_digit()).collect()
}

fn frame_str(f: Frame<PayloadLen>) -> String {
    match f {
        Frame::Data(PayloadLen(l)) => format!("f:data:{}", l),
        Frame::Headers(b) => format!("f:headers:{}", hex(&b)),
        Frame::CancelPush(id) => format!("f:cancel_push:{}", inner_num(&format!("{}", id))),
        Frame::Settings(_) => "f:settings".to_string(),
        Frame::PushPromise(pp) => {
            // the fields are private: re-wrap the value in a Frame<Bytes> to reach `payload()` and the Debug id
            let g: Frame<Bytes> = Frame::PushPromise(pp);
            let id = inner_num(&format!("{:?}", g));
            let p = g.payload().map(|p| hex(p.chunk())).unwrap_or_else(|| "?".into());
            format!("f:push_promise:{}:{}", id, p)
        }
        Frame::Goaway(v) => format!("f:goaway:{}", v),
        Frame::MaxPushId(id) => format!("f:max_push_id:{}", inner_num(&format!("{}", id))),
        Frame::WebTransportStream(s) => format!("f:wt:{}", inner_num(&format!("{:?}", s))),
        Frame::Grease => "f:grease".to_string(),
    }
}

fn proto_str(e: FrameProtocolError) -> String {
    let (kind, extra) = match &e {
        FrameProtocolError::Malformed => ("malformed", String::new()),
        FrameProtocolError::ForbiddenFrame(ty) => ("forbidden", format!(":{}", ty)),
        FrameProtocolError::InvalidFrameValue => ("value", String::new()),
        FrameProtocolError::Settings(_) => ("settings", String::new()),
        FrameProtocolError::InvalidStreamId(_) => ("streamid", String::new()),
        FrameProtocolError::InvalidPushId(_) => ("pushid", String::new()),
    };
    let ice = InternalConnectionError::got_frame_error(e);
    format!("err:proto:{}:{}{}", kind, code_value(&format!("{:?}", ice)), extra)
}

fn fserr_str(e: FrameStreamError) -> String {
    match e {
        FrameStreamError::Proto(p) => proto_str(p),
        FrameStreamError::UnexpectedEnd => "err:end".to_string(),
        FrameStreamError::Quic(q) => match q {
            StreamErrorIncoming::StreamTerminated { error_code } => format!("err:quic:term:{}", error_code),
            StreamErrorIncoming::ConnectionErrorIncoming { connection_error } => match connection_error {
                ConnectionErrorIncoming::ApplicationClose { error_code } => format!("err:quic:app:{}", error_code),
                ConnectionErrorIncoming::Timeout => "err:quic:timeout".to_string(),
                ConnectionErrorIncoming::InternalError(_) => "err:quic:internal".to_string(),
                ConnectionErrorIncoming::Undefined(_) => "err:quic:undefined".to_string(),
            },
            StreamErrorIncoming::Unknown(_) => "err:quic:unknown".to_string(),
        },
    }
}

fn run_fs(acts: &str) -> String {
    let q = Rc::new(RefCell::new(VecDeque::new()));
    let pended = Rc::new(std::cell::Cell::new(false));
    let mut fs: FrameStream<ScriptRecv, Bytes> =
        FrameStream::new(BufRecvStream::new(ScriptRecv { q: q.clone(), pended: pended.clone() }));
    let wakes = Arc::new(CountWake(std::sync::atomic::AtomicUsize::new(0)));
    let waker = Waker::from(wakes.clone());
    let mut cx = Context::from_waker(&waker);
    // "pend" when the Pending answer is backed by a wake-up that will come, "pend!" when nobody holds the waker
    let pend_word = |pended: &std::cell::Cell<bool>, wakes: &CountWake, before: usize| {
        if pended.get() || wakes.0.load(std::sync::atomic::Ordering::SeqCst) != before {
            "pend"
        } else {
            "pend!"
        }
    };
    let mut out = vec!["ok".to_string()];
    let mut done = false;
    // what the caller knows about the current DATA frame: declared length minus bytes handed out
    let mut owed: u64 = 0;
    for a in acts.split(',').filter(|a| !a.is_empty()) {
        let (k, rest) = a.split_at(1);
        let ev = match k {
            "c" => Some(Ev::Chunk(Bytes::from(unhex(rest)))),
            "F" => Some(Ev::Fin),
            "R" => Some(Ev::Reset(rest.parse().unwrap())),
            "X" if rest == "U" => Some(Ev::Undefined),
            "X" => Some(Ev::AppClose(rest.parse().unwrap())),
            "T" => Some(Ev::Timeout),
            "I" => Some(Ev::Internal),
            "K" => Some(Ev::Unknown),
            _ => None,
        };
        if let Some(ev) = ev {
            let mut g = q.borrow_mut();
            if !g.iter().any(|e: &Ev| e.terminal()) {
                g.push_back(ev);
            }
            continue;
        }
        if done {
            continue;
        }
        let next = match k {
            "n" => true,
            "d" => false,
            "p" => owed == 0,
            _ => return "driver-error bad-action".into(),
        };
        pended.set(false);
        let wakes_before = wakes.0.load(std::sync::atomic::Ordering::SeqCst);
        if next {
            let r = std::panic::catch_unwind(std::panic::AssertUnwindSafe(|| fs.poll_next(&mut cx)));
            let r = match r {
                Ok(r) => r,
                Err(_) => {
                    out.push("panic".into());
                    done = true;
                    continue;
                }
            };
            match r {
                Poll::Pending => out.push(pend_word(&pended, &wakes, wakes_before).into()),
                Poll::Ready(Ok(None)) => {
                    out.push("end".into());
                    done = true;
                }
                Poll::Ready(Ok(Some(f))) => {
                    match &f {
                        Frame::Data(PayloadLen(l)) => owed = *l as u64,
                        Frame::WebTransportStream(_) => done = true,
                        _ => {}
                    }
                    out.push(frame_str(f));
                }
                Poll::Ready(Err(e)) => {
                    out.push(fserr_str(e));
                    done = true;
                }
            }
        } else {
            // the `impl Buf` borrows the stream: turn it into owned bytes first
            let r = std::panic::catch_unwind(std::panic::AssertUnwindSafe(|| match fs.poll_data(&mut cx) {
                Poll::Pending => None,
                Poll::Ready(Ok(None)) => Some(Ok(None)),
                Poll::Ready(Ok(Some(mut d))) => Some(Ok(Some(d.copy_to_bytes(d.remaining())))),
                Poll::Ready(Err(e)) => Some(Err(e)),
            }));
            let r = match r {
                Ok(r) => r,
                Err(_) => {
                    out.push("panic".into());
                    done = true;
                    continue;
                }
            };
            match r {
                None => out.push(pend_word(&pended, &wakes, wakes_before).into()),
                Some(Ok(None)) => out.push("none".into()),
                Some(Ok(Some(b))) => {
                    owed = owed.saturating_sub(b.len() as u64);
                    out.push(format!("d:{}", hex(&b)));
                }
                Some(Err(e)) => {
                    out.push(fserr_str(e));
                    done = true;
                }
            }
        }
    }
    out.join(" ")
}

/// the close code the REAL h3 endpoint uses when `bytes` (+FIN) arrive on a request stream (site s: server reading a
/// request, c: client reading a response) or on the peer's control stream after the stream type and an empty SETTINGS
fn run_hc(site: &str, chunks: &[Vec<u8>], fin: bool, pattern: &str) -> String {
    use h3v::simquic::*;
    let server = site != "c";
    let w = World::new(if server { Side::Server } else { Side::Client }, 100, 100, None);
    let mut ex = Exec::new();
    let w2 = w.clone();
    let keep: Rc<RefCell<Option<h3::client::SendRequest<SimOpener, Bytes>>>> = Rc::new(RefCell::new(None));
    let keep2 = keep.clone();
    if server {
        ex.spawn(async move {
            let mut conn: h3::server::Connection<SimConn, Bytes> = match h3::server::builder().build(SimConn { world: w2 }).await {
                Ok(c) => c,
                Err(_) => return "build-err".to_string(),
            };
            loop {
                match conn.accept().await {
                    Ok(Some(resolver)) => {
                        if let Ok((_req, mut stream)) = resolver.resolve_request().await {
                            loop {
                                match stream.recv_data().await {
                                    Ok(Some(_)) => {}
                                    Ok(None) => {
                                        let _ = stream.recv_trailers().await;
                                        break;
                                    }
                                    Err(_) => break,
                                }
                            }
                        }
                    }
                    Ok(None) => return "accept-none".to_string(),
                    Err(_) => return "accept-err".to_string(),
                }
            }
        });
    } else {
        let w3 = w.clone();
        ex.spawn(async move {
            let (mut driver, mut sender) = match h3::client::new(SimConn { world: w3 }).await {
                Ok(x) => x,
                Err(_) => return "build-err".to_string(),
            };
            let req = http::Request::builder().method("GET").uri("https://a/").body(()).unwrap();
            let mut stream = match sender.send_request(req).await {
                Ok(s) => s,
                Err(_) => return "send-err".to_string(),
            };
            *keep2.borrow_mut() = Some(sender);
            let _ = stream.finish().await;
            let fut = async {
                if stream.recv_response().await.is_ok() {
                    loop {
                        match stream.recv_data().await {
                            Ok(Some(_)) => {}
                            Ok(None) => {
                                let _ = stream.recv_trailers().await;
                                break;
                            }
                            Err(_) => break,
                        }
                    }
                }
            };
            fut.await;
            let _ = std::future::poll_fn(|cx| driver.poll_close(cx)).await;
            "closed".to_string()
        });
    }
    ex.run();
    // (event, let the endpoint run afterwards?)
    let mut evs: Vec<(String, bool)> = Vec::new();
    let id = if site.starts_with("ctl") { 2 } else { 0 };
    let flat: Vec<u8> = chunks.concat();
    if site.starts_with("ctl") {
        evs.push(("U2".into(), pattern != "A"));
        // the stream type in a chunk of its own; `ctl`: an empty SETTINGS frame first, `ctl0`: nothing before the bytes
        evs.push(("2:c:00".into(), pattern != "A"));
        if site == "ctl" {
            evs.push(("2:c:0400".into(), pattern != "A"));
        }
    } else if server {
        evs.push(("B0".into(), pattern != "A"));
    }
    match pattern {
        "B" => {
            for c in chunks.iter().filter(|c| !c.is_empty()) {
                evs.push((format!("{}:c:{}", id, hex(c)), true));
            }
        }
        _ => {
            if !flat.is_empty() {
                evs.push((format!("{}:c:{}", id, hex(&flat)), pattern != "A"));
            }
        }
    }
    if fin {
        evs.push((format!("{}:F", id), true));
    }
    for (e, run) in evs {
        if !apply_event(&w, &e) {
            return format!("driver-error bad-event {}", e);
        }
        if run {
            ex.run();
        }
    }
    ex.run();
    let g = w.lock().unwrap();
    match &g.closed {
        Some((c, _)) => format!("code {}", c),
        None => "code -".to_string(),
    }
}

fn main() {
    run_lines(|ws| match ws {
        ["fs", acts] => run_fs(acts),
        ["hc", site, h, ending, pattern] => {
            let chunks: Vec<Vec<u8>> = h.split('.').map(unhex).collect();
            run_hc(site, &chunks, *ending == "F", pattern)
        }
        ["fd", h] => {
            let mut b = Bytes::from(unhex(h));
            let before = b.remaining();
            match Frame::decode(&mut b) {
                Ok(f) => {
                    let pos = before - b.remaining();
                    format!("ok {} pos={}", frame_str(f), pos)
                }
                Err(FrameError::UnknownFrame(ty)) => format!("err unknown:{} pos={}", ty, before - b.remaining()),
                Err(FrameError::Malformed) => "err malformed".into(),
                Err(FrameError::UnsupportedFrame(ty)) => format!("err unsupported:{}", ty),
                Err(FrameError::InvalidFrameValue) => "err value".into(),
                Err(FrameError::Incomplete(m)) => format!("err incomplete:{}", m),
                Err(FrameError::Settings(_)) => "err settings".into(),
                Err(FrameError::InvalidStreamId(_)) => "err streamid".into(),
                Err(FrameError::InvalidPushId(_)) => "err pushid".into(),
                // a variant this harness does not know: an observation (it differs from model and reference), never a
                // build failure of the check
                #[allow(unreachable_patterns)]
                Err(other) => format!("err other:{:?}", other).replace(' ', ""),
            }
        }
        ["fe", k] => {
            let e = match *k {
                "malformed" => FrameProtocolError::Malformed,
                "forbidden" => FrameProtocolError::ForbiddenFrame(2),
                "value" => FrameProtocolError::InvalidFrameValue,
                "settings" => FrameProtocolError::Settings(SettingsError::Malformed),
                "streamid" => FrameProtocolError::InvalidStreamId(StreamId::try_from(u64::MAX).unwrap_err()),
                "pushid" => {
                    FrameProtocolError::InvalidPushId(h3::proto::push::PushId::try_from(u64::MAX).unwrap_err())
                }
                _ => return "driver-error unknown-kind".into(),
            };
            let ice = InternalConnectionError::got_frame_error(e);
            format!("code {}", code_value(&format!("{:?}", ice)))
        }
        _ => "driver-error unknown-case".into(),
    });
}
