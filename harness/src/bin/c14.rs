//! C14: everything h3 writes.
//!
//! `wb <ctor> <steps>`: one WriteBuf built through its public `From` impls and consumed by a script of
//!   `cK` (look at chunk(), take at most K bytes, advance) / `aK` (raw advance(K)) steps, then drained.
//!   ctor: st:<ty> | uc:<id=val;..> | uw:<sid> | ue | ud | bw:<sid> | fd:<chunk.chunk> | fh:<hex> | fc:<id> | fg:<id>
//!         | fm:<id> | fs:<id=val;..> | fw:<sid> | fr | p:<ty>:<frame ctor>
//!         | fp:<id>:<hex> (Frame::PushPromise: its fields are private, the only way to one is the public Frame::decode;
//!           h3 never sends it - `wbx` only, see C14_push_promise_observation)
//! `si <id=val;..>`: `Settings::insert` entry by entry (`o` accepted / `e` refused), then the SETTINGS frame built from what
//!   was accepted, drained through WriteBuf.
//! `wr <s|c> <cfg> <budget> <prog>`: an API program on the REAL server / client over SimQuic.
//!   cfg: g<0|1>.m<max_field_section_size>.x<0|1>.d<0|1>[.w<0|1>.n<max_webtransport_sessions>]
//!   budget: `-` (writes accepted whole) or `<initial per-stream budget>:<k1>.<k2>...` (whenever a writer is blocked,
//!   the next k of the cycle is granted to every blocked stream: every write sees Pending, then k bytes at a time)
//!   prog (comma separated): peer[:<hex>] (the peer opens its control stream and sends these bytes, default 000400, then
//!        the endpoint is polled) | pframe:<hex> (further bytes on the peer's control stream, then polled) | poll
//!        | acc[:<kind>[:<end>]] (server: the next client stream arrives carrying the request <kind> and ending with
//!          F fin (default) / N nothing / R<code> reset / S<code> fin + STOP_SENDING for our half; then accept + resolve)
//!        | req:<method> | resp:<status> | data:<chunk.chunk|-> | trailers | finish | recv (read body and trailers)
//!        | sstop:<code> (peer STOP_SENDING on the current stream) | shutdown:<n> | drop | stop:<code> | sel:<i>
//!        | rehdr (calls the public conn.inner.send_control_stream_headers() again)
//!        | puni:<hex> (the peer opens one more unidirectional stream carrying these bytes, then FIN) | cstop:<code> (peer
//!          STOP_SENDING for our control stream) | zfin:<n> (the next n poll_finish on the current stream are Pending)
//!        | xu (the transport fails with an error h3 does not know)
//!   cfg may also be `-` (builder defaults) or `new` (server::Connection::new / client::new); only named settings are set.
//!   wb steps: cK chunk-bounded read, aK raw advance, vK read through chunks_vectored(), bK copy_to_bytes(K)
//!   output: `ok res=<one letter per op> s<id>=<hex>[/F] ...` for every stream h3 can write on.
use bytes::{Buf, Bytes};
use h3::proto::frame::{Frame, SettingId, Settings};
use h3::proto::push::PushId;
use h3::proto::stream::StreamType;
use h3::proto::varint::VarInt;
use h3::stream::{BidiStreamHeader, UniStreamHeader, WriteBuf};
use h3::webtransport::SessionId;
use h3v::simquic::*;
use h3v::{hex, run_lines, unhex, ChunkBuf};
use std::cell::Cell;
use std::convert::TryFrom;
use std::future::{poll_fn, Future};
use std::pin::Pin;
use std::rc::Rc;
use std::task::Poll;

fn chunks(s: &str) -> ChunkBuf {
    if s == "-" {
        ChunkBuf::new(vec![])
    } else {
        ChunkBuf::new(s.split('.').map(|c| Bytes::from(unhex(c))).collect())
    }
}

/// the payload type B of a connection, built from a `chunk.chunk` hex description
trait MkBuf: Buf + 'static {
    fn mk(s: &str) -> Self;
}
impl MkBuf for ChunkBuf {
    fn mk(s: &str) -> Self {
        chunks(s)
    }
}
impl MkBuf for Bytes {
    fn mk(s: &str) -> Self {
        if s == "-" {
            Bytes::new()
        } else {
            Bytes::from(s.split('.').flat_map(unhex).collect::<Vec<u8>>())
        }
    }
}

fn settings(s: &str) -> Settings {
    let mut st = Settings::default();
    if s != "-" && !s.is_empty() {
        for e in s.split(';') {
            let mut it = e.splitn(2, '=');
            let id: u64 = it.next().unwrap().parse().unwrap();
            let v: u64 = it.next().unwrap().parse().unwrap();
            st.insert(SettingId(id), v).expect("driver: settings insert");
        }
    }
    st
}

fn frame(s: &str) -> Frame<ChunkBuf> {
    let (k, a) = match s.find(':') {
        Some(i) => (&s[..i], &s[i + 1..]),
        None => (s, ""),
    };
    let n = || a.parse::<u64>().unwrap();
    match k {
        "fd" => Frame::Data(chunks(a)),
        "fh" => Frame::Headers(Bytes::from(unhex(a))),
        "fc" => Frame::CancelPush(PushId::try_from(n()).unwrap()),
        "fg" => Frame::Goaway(VarInt::from_u64(n()).unwrap()),
        "fm" => Frame::MaxPushId(PushId::try_from(n()).unwrap()),
        "fs" => Frame::Settings(settings(a)),
        "fw" => Frame::WebTransportStream(SessionId::try_from(n()).unwrap()),
        "fr" => Frame::Grease,
        "fp" => {
            let i = a.find(':').unwrap();
            let id = VarInt::from_u64(a[..i].parse().unwrap()).unwrap();
            let e = unhex(&a[i + 1..]);
            let mut raw: Vec<u8> = Vec::new();
            VarInt::from_u32(5).encode(&mut raw);
            VarInt::from_u64((id.size() + e.len()) as u64).unwrap().encode(&mut raw);
            id.encode(&mut raw);
            raw.extend_from_slice(&e);
            let mut b = Bytes::from(raw);
            match Frame::decode(&mut b) {
                Ok(Frame::PushPromise(p)) => Frame::PushPromise(p),
                _ => panic!("driver: push promise {}", s),
            }
        }
        _ => panic!("driver: frame ctor {}", s),
    }
}

fn build(s: &str) -> WriteBuf<ChunkBuf> {
    let (k, a) = match s.find(':') {
        Some(i) => (&s[..i], &s[i + 1..]),
        None => (s, ""),
    };
    match k {
        "st" => WriteBuf::from(StreamType::from_value(a.parse().unwrap())),
        "uc" => WriteBuf::from(UniStreamHeader::Control(settings(a))),
        "uw" => WriteBuf::from(UniStreamHeader::WebTransportUni(SessionId::try_from(a.parse::<u64>().unwrap()).unwrap())),
        "ue" => WriteBuf::from(UniStreamHeader::Encoder),
        "ud" => WriteBuf::from(UniStreamHeader::Decoder),
        "bw" => WriteBuf::from(BidiStreamHeader::WebTransportBidi(SessionId::try_from(a.parse::<u64>().unwrap()).unwrap())),
        "p" => {
            let i = a.find(':').unwrap();
            WriteBuf::from((StreamType::from_value(a[..i].parse().unwrap()), frame(&a[i + 1..])))
        }
        _ => WriteBuf::from(frame(s)),
    }
}

fn run_si(ents: &str) -> String {
    let mut st = Settings::default();
    let mut res = String::new();
    if ents != "-" {
        for e in ents.split(';') {
            let mut it = e.splitn(2, '=');
            let id: u64 = it.next().unwrap().parse().unwrap();
            let v: u64 = it.next().unwrap().parse().unwrap();
            res.push(if st.insert(SettingId(id), v).is_ok() { 'o' } else { 'e' });
        }
    }
    if res.is_empty() {
        res.push('-');
    }
    let t = std::panic::catch_unwind(std::panic::AssertUnwindSafe(|| {
        consume(WriteBuf::<ChunkBuf>::from(Frame::Settings(st)), "-")
    }))
    .unwrap_or_else(|_| "panic".to_string());
    format!("ok {} {}", res, t)
}

fn run_wb(ctor: &str, steps: &str) -> String {
    consume(build(ctor), steps)
}

fn consume(mut w: WriteBuf<ChunkBuf>, steps: &str) -> String {
    let mut out = String::new();
    if steps != "-" {
        for st in steps.split(',') {
            let k: usize = st[1..].parse().unwrap();
            out.push_str(&format!("r{}:", w.remaining()));
            if st.starts_with('c') {
                let c = w.chunk();
                let n = k.min(c.len());
                out.push_str(&hex(&c[..n]));
                out.push(' ');
                w.advance(n);
            } else if st.starts_with('v') {
                // a writev-style transport: looks at chunks_vectored(), takes at most k bytes across the slices
                let mut slices = [std::io::IoSlice::new(&[]); 4];
                let cnt = w.chunks_vectored(&mut slices);
                let mut taken: Vec<u8> = Vec::new();
                for sl in slices.iter().take(cnt) {
                    let room = k - taken.len();
                    taken.extend_from_slice(&sl[..room.min(sl.len())]);
                }
                out.push_str(&hex(&taken));
                out.push(' ');
                let n = taken.len();
                w.advance(n);
            } else if st.starts_with('b') {
                // copy_to_bytes(k)
                let b = w.copy_to_bytes(k);
                out.push_str(&hex(&b));
                out.push(' ');
            } else {
                out.push_str(&format!("skip{} ", k));
                w.advance(k);
            }
        }
    }
    let mut guard = 100000;
    while w.remaining() != 0 && guard > 0 {
        guard -= 1;
        out.push_str(&format!("r{}:", w.remaining()));
        let c = w.chunk();
        if c.is_empty() {
            return "empty-chunk".into();
        }
        let n = c.len();
        out.push_str(&hex(c));
        out.push(' ');
        w.advance(n);
    }
    format!("ok {}", out.trim())
}

// ------------------------------------------------------------------ API programs

/// polls `f` until it completes or the harness raises `cancel` (an op that can never complete, e.g. waiting for a
/// request that h3 rejected)
async fn cancellable<F: Future>(f: F, cancel: &Rc<Cell<bool>>) -> Option<F::Output> {
    let mut f: Pin<Box<F>> = Box::pin(f);
    poll_fn(|cx| {
        if let Poll::Ready(x) = f.as_mut().poll(cx) {
            return Poll::Ready(Some(x));
        }
        if cancel.get() {
            cancel.set(false);
            return Poll::Ready(None);
        }
        Poll::Pending
    })
    .await
}

async fn poll_once<F: Future>(f: F) -> Option<F::Output> {
    let mut f: Pin<Box<F>> = Box::pin(f);
    poll_fn(|cx| match f.as_mut().poll(cx) {
        Poll::Ready(x) => Poll::Ready(Some(x)),
        Poll::Pending => Poll::Ready(None),
    })
    .await
}

/// what the scripted client sends on a request stream, by kind
fn request_bytes(kind: &str) -> &'static str {
    match kind {
        // HEADERS(:method GET, :scheme https, :authority a, :path /)
        "get" => "01080000d1d7500161c1",
        // HEADERS(POST ...) DATA "hi" HEADERS(trailers x-t: 1)
        "post" => "01080000d4d750811fc100026869010800002bf2b27f810f",
        // HEADERS(CONNECT, :authority a)
        "connect" => "01060000cf50811f",
        // GET with a 200-byte header value
        "big" => "0140d40000d1d7500161c121787f496161616161616161616161616161616161616161616161616161616161616161616161616161616161616161616161616161616161616161616161616161616161616161616161616161616161616161616161616161616161616161616161616161616161616161616161616161616161616161616161616161616161616161616161616161616161616161616161616161616161616161616161616161616161616161616161616161616161616161616161616161616161616161616161616161616161616161",
        // a field section without :method
        "nometh" => "01030000c1",
        // a field line indexing a static entry that does not exist
        "badqpack" => "01030000ff",
        // DATA before HEADERS
        "data1st" => "0001aa",
        // an unknown frame, then the GET
        "unk" => "2103aabbcc01080000d1d7500161c1",
        "none" => "",
        _ => panic!("driver: request kind"),
    }
}

/// only the settings named in the cfg column are set on the builder; `-` = builder defaults, `new` = the
/// `server::Connection::new` / `client::new` constructors
#[derive(Default)]
struct Cfg {
    new: bool,
    grease: Option<bool>,
    mfs: Option<u64>,
    ext: Option<bool>,
    dgram: Option<bool>,
    wt: Option<bool>,
    wtn: Option<u64>,
}

fn parse_cfg(s: &str) -> Cfg {
    let mut c = Cfg::default();
    if s == "new" {
        c.new = true;
        return c;
    }
    if s == "-" {
        return c;
    }
    for p in s.split('.') {
        let v: u64 = p[1..].parse().unwrap();
        match &p[..1] {
            "g" => c.grease = Some(v != 0),
            "m" => c.mfs = Some(v),
            "x" => c.ext = Some(v != 0),
            "d" => c.dgram = Some(v != 0),
            "w" => c.wt = Some(v != 0),
            "n" => c.wtn = Some(v),
            _ => panic!("driver: cfg {}", p),
        }
    }
    c
}

fn r<T, E>(x: Option<Result<T, E>>) -> char {
    match x {
        Some(Ok(_)) => 'o',
        Some(Err(_)) => 'e',
        None => 'c',
    }
}

macro_rules! stream_op {
    ($op:expr, $arg:expr, $streams:expr, $cur:expr, $cancel:expr, $res:expr) => {{
        match $op {
            "data" => match $cur.and_then(|i: usize| $streams[i].as_mut()) {
                Some(s) => $res.push(r(cancellable(s.send_data(MkBuf::mk($arg)), &$cancel).await)),
                None => $res.push('-'),
            },
            "trailers" => match $cur.and_then(|i: usize| $streams[i].as_mut()) {
                Some(s) => {
                    let mut m = http::HeaderMap::new();
                    m.insert("x-t", http::HeaderValue::from_static("1"));
                    $res.push(r(cancellable(s.send_trailers(m), &$cancel).await))
                }
                None => $res.push('-'),
            },
            "finish" => match $cur.and_then(|i: usize| $streams[i].as_mut()) {
                Some(s) => $res.push(r(cancellable(s.finish(), &$cancel).await)),
                None => $res.push('-'),
            },
            "stop" => match $cur.and_then(|i: usize| $streams[i].as_mut()) {
                Some(s) => {
                    s.stop_stream(h3::error::Code::H3_REQUEST_CANCELLED);
                    $res.push('o')
                }
                None => $res.push('-'),
            },
            "drop" => match $cur {
                Some(i) if $streams[i].is_some() => {
                    $streams[i] = None;
                    $res.push('o')
                }
                _ => $res.push('-'),
            },
            "sel" => {
                let i: usize = $arg.parse().unwrap();
                if i < $streams.len() {
                    $cur = Some(i);
                    $res.push('o')
                } else {
                    $res.push('-')
                }
            }
            _ => $res.push('?'),
        }
    }};
}

async fn server_app(w: Shared, cfg: Cfg, ops: Vec<String>, cancel: Rc<Cell<bool>>) -> String {
    let mut b = h3::server::builder();
    if let Some(v) = cfg.grease {
        b.send_grease(v);
    }
    if let Some(v) = cfg.mfs {
        b.max_field_section_size(v);
    }
    if let Some(v) = cfg.ext {
        b.enable_extended_connect(v);
    }
    if let Some(v) = cfg.dgram {
        b.enable_datagram(v);
    }
    if let Some(v) = cfg.wt {
        b.enable_webtransport(v);
    }
    if let Some(v) = cfg.wtn {
        b.max_webtransport_sessions(v);
    }
    let built = if cfg.new {
        cancellable(h3::server::Connection::<SimConn, ChunkBuf>::new(SimConn { world: w.clone() }), &cancel).await
    } else {
        cancellable(b.build(SimConn { world: w.clone() }), &cancel).await
    };
    let mut conn: h3::server::Connection<SimConn, ChunkBuf> = match built {
        Some(Ok(c)) => c,
        Some(Err(e)) => return format!("build-err {}", conn_err(&e)),
        None => return "build-cancelled".into(),
    };
    let mut res = String::new();
    let mut streams: Vec<Option<h3::server::RequestStream<SimBidi<ChunkBuf>, ChunkBuf>>> = Vec::new();
    let mut cur: Option<usize> = None;
    let mut next_peer: u64 = 0;
    let mut next_peer_uni: u64 = 2;
    let mut peer_ctl: Option<u64> = None;
    for op in ops.iter() {
        let (k, a) = match op.find(':') {
            Some(i) => (&op[..i], &op[i + 1..]),
            None => (&op[..], ""),
        };
        match k {
            "peer" | "pframe" | "poll" | "puni" | "xu" => {
                if k == "peer" || k == "puni" {
                    // the peer opens its next unidirectional stream: its control stream (default bytes 000400) or any other
                    let id = next_peer_uni;
                    next_peer_uni += 4;
                    if k == "peer" {
                        peer_ctl = Some(id);
                    }
                    apply_event(&w, &format!("U{}", id));
                    let bytes = if a.is_empty() { "000400" } else { a };
                    if bytes != "-" {
                        apply_event(&w, &format!("{}:c:{}", id, bytes));
                    }
                    if k == "puni" {
                        apply_event(&w, &format!("{}:F", id));
                    }
                } else if k == "pframe" {
                    if let Some(id) = peer_ctl {
                        apply_event(&w, &format!("{}:c:{}", id, a));
                    }
                } else if k == "xu" {
                    apply_event(&w, "XU");
                }
                // accept() with nothing to accept: drives poll_control; may answer None (after sending its final GOAWAY)
                match cancellable(conn.accept(), &cancel).await {
                    Some(Ok(None)) => res.push('n'),
                    Some(Ok(Some(_resolver))) => res.push('r'),
                    Some(Err(_)) => res.push('e'),
                    None => res.push('o'),
                }
            }
            "cstop" => {
                // the peer sends STOP_SENDING for our control stream
                apply_event(&w, &format!("3:S{}", a));
                res.push('o');
            }
            "zfin" => match cur.and_then(|i| streams[i].as_mut()) {
                Some(s) => {
                    let id = s.send_id().into_inner();
                    apply_event(&w, &format!("{}:Z{}", id, a));
                    res.push('o')
                }
                None => res.push('-'),
            },
            "acc" => {
                let id = next_peer;
                next_peer += 4;
                let mut it = a.splitn(2, ':');
                let kind = match it.next() {
                    Some("") | None => "get",
                    Some(x) => x,
                };
                let end = it.next().unwrap_or("F");
                apply_event(&w, &format!("B{}", id));
                let bytes = request_bytes(kind);
                if !bytes.is_empty() {
                    apply_event(&w, &format!("{}:c:{}", id, bytes));
                }
                match &end[..1] {
                    "F" => {
                        apply_event(&w, &format!("{}:F", id));
                    }
                    "R" => {
                        apply_event(&w, &format!("{}:R{}", id, &end[1..]));
                    }
                    "S" => {
                        apply_event(&w, &format!("{}:F", id));
                        apply_event(&w, &format!("{}:S{}", id, &end[1..]));
                    }
                    _ => {}
                }
                match cancellable(conn.accept(), &cancel).await {
                    Some(Ok(Some(resolver))) => match cancellable(resolver.resolve_request(), &cancel).await {
                        Some(Ok((_req, s))) => {
                            streams.push(Some(s));
                            cur = Some(streams.len() - 1);
                            res.push('o');
                        }
                        Some(Err(_)) => res.push('e'),
                        None => res.push('c'),
                    },
                    Some(Ok(None)) => res.push('n'),
                    Some(Err(_)) => res.push('e'),
                    None => res.push('c'),
                }
            }
            "recv" => match cur.and_then(|i| streams[i].as_mut()) {
                Some(s) => {
                    let mut ok = 'o';
                    loop {
                        match cancellable(s.recv_data(), &cancel).await {
                            Some(Ok(Some(_))) => {}
                            Some(Ok(None)) => break,
                            Some(Err(_)) => {
                                ok = 'e';
                                break;
                            }
                            None => {
                                ok = 'c';
                                break;
                            }
                        }
                    }
                    if ok == 'o' {
                        ok = r(cancellable(s.recv_trailers(), &cancel).await);
                    }
                    res.push(ok)
                }
                None => res.push('-'),
            },
            "sstop" => match cur.and_then(|i| streams[i].as_mut()) {
                Some(s) => {
                    let id = s.send_id().into_inner();
                    apply_event(&w, &format!("{}:S{}", id, a));
                    res.push('o')
                }
                None => res.push('-'),
            },
            "rehdr" => res.push(r(cancellable(conn.inner.send_control_stream_headers(), &cancel).await)),
            "resp" => match cur.and_then(|i| streams[i].as_mut()) {
                Some(s) => {
                    let resp = http::Response::builder().status(a.parse::<u16>().unwrap()).body(()).unwrap();
                    res.push(r(cancellable(s.send_response(resp), &cancel).await))
                }
                None => res.push('-'),
            },
            "shutdown" => {
                let n: usize = a.parse().unwrap();
                res.push(r(cancellable(conn.shutdown(n), &cancel).await))
            }
            _ => stream_op!(k, a, streams, cur, cancel, res),
        }
    }
    // the application lets go of everything: the Drop impls run (they must not write)
    drop(streams);
    drop(conn);
    res
}

async fn client_app(w: Shared, cfg: Cfg, ops: Vec<String>, cancel: Rc<Cell<bool>>) -> String {
    if cfg.new {
        // h3::client::new fixes the payload type to Bytes
        return match cancellable(h3::client::new(SimConn { world: w.clone() }), &cancel).await {
            Some(Ok((conn, sr))) => client_ops::<Bytes>(w, conn, sr, ops, cancel).await,
            Some(Err(e)) => format!("build-err {}", conn_err(&e)),
            None => "build-cancelled".into(),
        };
    }
    let mut b = h3::client::builder();
    if let Some(v) = cfg.grease {
        b.send_grease(v);
    }
    if let Some(v) = cfg.mfs {
        b.max_field_section_size(v);
    }
    if let Some(v) = cfg.ext {
        b.enable_extended_connect(v);
    }
    if let Some(v) = cfg.dgram {
        b.enable_datagram(v);
    }
    match cancellable(b.build::<_, _, ChunkBuf>(SimConn { world: w.clone() }), &cancel).await {
        Some(Ok((conn, sr))) => client_ops::<ChunkBuf>(w, conn, sr, ops, cancel).await,
        Some(Err(e)) => format!("build-err {}", conn_err(&e)),
        None => "build-cancelled".into(),
    }
}

async fn client_ops<B: MkBuf>(
    w: Shared,
    mut conn: h3::client::Connection<SimConn, B>,
    mut sr: h3::client::SendRequest<SimOpener, B>,
    ops: Vec<String>,
    cancel: Rc<Cell<bool>>,
) -> String {
    let mut res = String::new();
    let mut streams: Vec<Option<h3::client::RequestStream<SimBidi<B>, B>>> = Vec::new();
    let mut cur: Option<usize> = None;
    let mut next_peer_uni: u64 = 3;
    let mut peer_ctl: Option<u64> = None;
    for op in ops.iter() {
        let (k, a) = match op.find(':') {
            Some(i) => (&op[..i], &op[i + 1..]),
            None => (&op[..], ""),
        };
        match k {
            "peer" | "pframe" | "poll" | "puni" | "xu" => {
                if k == "peer" || k == "puni" {
                    let id = next_peer_uni;
                    next_peer_uni += 4;
                    if k == "peer" {
                        peer_ctl = Some(id);
                    }
                    apply_event(&w, &format!("U{}", id));
                    let bytes = if a.is_empty() { "000400" } else { a };
                    if bytes != "-" {
                        apply_event(&w, &format!("{}:c:{}", id, bytes));
                    }
                    if k == "puni" {
                        apply_event(&w, &format!("{}:F", id));
                    }
                } else if k == "pframe" {
                    if let Some(id) = peer_ctl {
                        apply_event(&w, &format!("{}:c:{}", id, a));
                    }
                } else if k == "xu" {
                    apply_event(&w, "XU");
                }
                match poll_once(poll_fn(|cx| conn.poll_close(cx))).await {
                    Some(_) => res.push('e'),
                    None => res.push('o'),
                }
            }
            "cstop" => {
                apply_event(&w, &format!("2:S{}", a));
                res.push('o');
            }
            "zfin" => match cur.and_then(|i| streams[i].as_mut()) {
                Some(s) => {
                    let id = s.id().into_inner();
                    apply_event(&w, &format!("{}:Z{}", id, a));
                    res.push('o')
                }
                None => res.push('-'),
            },
            "sstop" => match cur.and_then(|i| streams[i].as_mut()) {
                Some(s) => {
                    let id = s.id().into_inner();
                    apply_event(&w, &format!("{}:S{}", id, a));
                    res.push('o')
                }
                None => res.push('-'),
            },
            "rehdr" => res.push(r(cancellable(conn.inner.send_control_stream_headers(), &cancel).await)),
            "req" => {
                let req = http::Request::builder().method(a).uri("https://a/").body(()).unwrap();
                match cancellable(sr.send_request(req), &cancel).await {
                    Some(Ok(s)) => {
                        streams.push(Some(s));
                        cur = Some(streams.len() - 1);
                        res.push('o');
                    }
                    Some(Err(_)) => res.push('e'),
                    None => res.push('c'),
                }
            }
            "shutdown" => {
                let n: usize = a.parse().unwrap();
                res.push(r(cancellable(conn.shutdown(n), &cancel).await))
            }
            _ => stream_op!(k, a, streams, cur, cancel, res),
        }
    }
    drop(streams);
    drop(sr);
    drop(conn);
    res
}

fn run_wr(role: &str, cfg: &str, budget: &str, prog: &str) -> String {
    let (initial, grants): (Option<u64>, Vec<u64>) = if budget == "-" {
        (None, vec![])
    } else {
        let mut it = budget.splitn(2, ':');
        let b: u64 = it.next().unwrap().parse().unwrap();
        let g: Vec<u64> = it.next().unwrap_or("1").split('.').map(|x| x.parse().unwrap()).collect();
        (Some(b), g)
    };
    let side = if role == "s" { Side::Server } else { Side::Client };
    let w = World::new(side, 1000, 1000, initial);
    let cancel = Rc::new(Cell::new(false));
    let mut ex = Exec::new();
    let ops: Vec<String> = if prog == "-" { vec![] } else { prog.split(',').map(|s| s.to_string()).collect() };
    let t = if role == "s" {
        ex.spawn(server_app(w.clone(), parse_cfg(cfg), ops, cancel.clone()))
    } else {
        ex.spawn(client_app(w.clone(), parse_cfg(cfg), ops, cancel.clone()))
    };
    let mut gi = 0usize;
    let mut rounds = 0u64;
    let mut hang = false;
    loop {
        if !ex.run() {
            return "livelock".into();
        }
        if ex.done(t) {
            break;
        }
        rounds += 1;
        if rounds > 2_000_000 {
            return "harness-gave-up".into();
        }
        let blocked: Vec<u64> = {
            let g = w.lock().unwrap();
            g.streams.iter().filter(|(_, s)| s.tx_waker.is_some() && s.tx_budget == Some(0)).map(|(id, _)| *id).collect()
        };
        if !blocked.is_empty() {
            let k = grants[gi % grants.len()].max(1);
            gi += 1;
            let mut g = w.lock().unwrap();
            for id in blocked {
                g.grant_write(id, k);
            }
            continue;
        }
        if cancel.get() {
            hang = true;
            break;
        }
        cancel.set(true);
        ex.poll(t);
    }
    let res = if hang { "hang".to_string() } else { ex.result(t).cloned().unwrap_or_default() };
    let g = w.lock().unwrap();
    // the connection could not be built (a Config that has no SETTINGS encoding): `build-err` and whatever is on the wire
    let mut out = if res.starts_with("build-err") {
        "build-err".to_string()
    } else {
        format!("ok res={}", if res.is_empty() { "-" } else { &res })
    };
    for (id, s) in g.streams.iter() {
        let uni = id & 2 != 0;
        if uni && !s.local {
            continue;
        }
        out.push_str(&format!(" s{}={}{}", id, hex(&s.tx), if s.finished { "/F" } else { "" }));
    }
    out
}

fn main() {
    run_lines(|ws| match ws {
        ["wb", ctor, steps] | ["wbx", ctor, steps] => run_wb(ctor, steps),
        ["si", ents] => run_si(ents),
        ["wr", role, cfg, budget, prog] => run_wr(role, cfg, budget, prog),
        _ => "driver-error unknown-case".into(),
    });
}
