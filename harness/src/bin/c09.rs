//! C09: shutdown drains - the REAL h3 server::Connection over SimQuic with a scripted peer and the
//! deterministic executor.  One task owns the connection and calls accept() in a loop; everything it
//! hands out is given to the script, which ends each request in the way the case line says.
//!
//! drain A<id>,P,G<pid>,x<id>:<act>[:<act>...],...
//!   A<id>  peer opens request stream id (no bytes yet)      G<pid>  peer GOAWAY(pid) on its control stream
//!   P      run the executor to quiescence (the accept task is polled only when h3's wakers woke it, or to
//!          leave the gate it parks at after a `none`)
//!   b / W  flow control on OUR control stream closes / reopens;  XU the transport fails (ConnectionErrorIncoming::Undefined)
//!   x<id>:toobig (field section above the limit: 431) | truncfin | truncrst (FIN / RESET inside HEADERS) | unknown (<id>:K)
//!   x<id>:dropres | ok | fin | rst | badqpack | unexpected | malformed | finish | rstafter | drop | split
//!          | dropsend | droprecv    peer bytes for that ending are queued first, then the application acts
//! Output: `ok <group> ...` one group per atomic op: for P the new events of the accept task
//!   (-id:stop:reset, w<g>, +id, none) followed by `pend` if it is waiting inside accept() or ending with
//!   none / err:<code>; `.` = applied, `skip` = not applicable in the current state.
use bytes::Bytes;
use h3v::simquic::*;
use h3v::run_lines;
use std::cell::{Cell, RefCell};
use std::collections::HashMap;
use std::future::Future;
use std::pin::Pin;
use std::rc::Rc;
use std::sync::Arc;
use std::task::{Context, Poll, Wake, Waker};

struct Noop;
impl Wake for Noop {
    fn wake(self: Arc<Self>) {}
}
fn poll_once<F: Future>(f: F) -> Poll<F::Output> {
    let waker = Waker::from(Arc::new(Noop));
    let mut cx = Context::from_waker(&waker);
    let mut f = Box::pin(f);
    Pin::as_mut(&mut f).poll(&mut cx)
}

#[derive(Default)]
struct Gate {
    open: Cell<bool>,
    parked: Cell<bool>,
    waker: RefCell<Option<Waker>>,
}
struct GateWait(Rc<Gate>);
impl Future for GateWait {
    type Output = ();
    fn poll(self: Pin<&mut Self>, cx: &mut Context<'_>) -> Poll<()> {
        if self.0.open.replace(false) {
            self.0.parked.set(false);
            Poll::Ready(())
        } else {
            self.0.parked.set(true);
            *self.0.waker.borrow_mut() = Some(cx.waker().clone());
            Poll::Pending
        }
    }
}

fn varint_dec(b: &[u8], pos: &mut usize) -> Option<u64> {
    let first = *b.get(*pos)?;
    let n = 1usize << (first >> 6);
    if *pos + n > b.len() {
        return None;
    }
    let mut v = (first & 0x3f) as u64;
    for i in 1..n {
        v = (v << 8) | b[*pos + i] as u64;
    }
    *pos += n;
    Some(v)
}
fn varint_enc(v: u64) -> Vec<u8> {
    if v < 1 << 6 {
        vec![v as u8]
    } else if v < 1 << 14 {
        ((v as u16) | 0x4000).to_be_bytes().to_vec()
    } else if v < 1 << 30 {
        ((v as u32) | 0x8000_0000).to_be_bytes().to_vec()
    } else {
        (v | 0xc000_0000_0000_0000).to_be_bytes().to_vec()
    }
}
fn goaways(tx: &[u8]) -> Vec<u64> {
    let mut pos = 0;
    let mut out = Vec::new();
    if varint_dec(tx, &mut pos).is_none() {
        return out;
    }
    loop {
        let ty = match varint_dec(tx, &mut pos) {
            Some(t) => t,
            None => return out,
        };
        let len = match varint_dec(tx, &mut pos) {
            Some(l) => l as usize,
            None => return out,
        };
        if pos + len > tx.len() {
            return out;
        }
        if ty == 0x7 {
            let mut p = pos;
            if let Some(id) = varint_dec(tx, &mut p) {
                out.push(id);
            }
        }
        pos += len;
    }
}
fn goaway_frame(id: u64) -> String {
    let v = varint_enc(id);
    let mut f = vec![0x07u8, v.len() as u8];
    f.extend_from_slice(&v);
    h3v::hex(&f)
}
#[allow(dead_code)]
fn code_of(canon: &str) -> String {
    canon.split(':').nth(1).unwrap_or("?").to_string()
}

const HEADERS_GET: &str = "01080000d1d7500161c1";

/// Environment variants selected by the family suffix (`goaway.g3`, `cgoaway.ul`, ...); the model is the same for all.
///   g  builder default configuration (grease ON)          3  the peer lets us open only 3 uni streams
///   u  the peer first opens a uni stream whose type byte has not arrived
///   q  the peer's QPACK encoder/decoder streams arrive before its control stream
///   t  the control stream's type byte, frame header and payload arrive in separate chunks
///   n  every peer GOAWAY shares its chunk with MAX_PUSH_ID, CANCEL_PUSH and a reserved-type frame sent just before it
///   l  the peer's control stream arrives late: just before its first GOAWAY
#[derive(Clone, Copy, Default)]
struct Env {
    grease: bool,
    uni3: bool,
    unknown_first: bool,
    qpack_first: bool,
    split_type: bool,
    late_ctl: bool,
    noise: bool,
}
fn parse_env(fam: &str) -> Env {
    let mut e = Env::default();
    if let Some(i) = fam.find('.') {
        for c in fam[i + 1..].chars() {
            match c {
                'g' => e.grease = true,
                '3' => e.uni3 = true,
                'u' => e.unknown_first = true,
                'q' => e.qpack_first = true,
                't' => e.split_type = true,
                'l' => e.late_ctl = true,
                'n' => e.noise = true,
                _ => panic!("unknown environment letter"),
            }
        }
    }
    e
}
/// streams of the peer other than its control stream (base = 2 for a client peer, 3 for a server peer)
fn peer_other_streams(w: &Shared, base: u64, e: &Env) {
    if e.unknown_first {
        assert!(apply_event(w, &format!("U{}", base + 4)));
    }
    if e.qpack_first {
        assert!(apply_event(w, &format!("U{}", base + 8)));
        assert!(apply_event(w, &format!("{}:c:02", base + 8)));
        assert!(apply_event(w, &format!("U{}", base + 12)));
        assert!(apply_event(w, &format!("{}:c:03", base + 12)));
    }
}
fn peer_control_stream(w: &Shared, base: u64, e: &Env) {
    assert!(apply_event(w, &format!("U{}", base)));
    if e.split_type {
        for c in ["00", "04", "00"] {
            assert!(apply_event(w, &format!("{}:c:{}", base, c)));
        }
    } else {
        assert!(apply_event(w, &format!("{}:c:000400", base)));
    }
}
/// `err:<code><variant letter>/close:<code passed to the transport's close() during this op, or ->`
fn err_text(canon: &str, w: &Shared, log0: usize) -> String {
    let mut it = canon.split(':');
    let _ = it.next();
    let code = it.next().unwrap_or("?");
    let variant = it.next().and_then(|v| v.chars().next()).unwrap_or('?');
    let g = w.lock().unwrap();
    let close = g.log[log0.min(g.log.len())..]
        .iter()
        .find_map(|l| l.strip_prefix("close ").map(|r| r.split(' ').next().unwrap_or("?").to_string()))
        .unwrap_or_else(|| "-".into());
    format!("err:{}{}/close:{}", code, variant, close)
}


const HEADERS_BAD_QPACK: &str = "01030000ff";
const HEADERS_MALFORMED: &str = "01030000c1"; // only `:path /`
const DATA_FIRST: &str = "000178";
const HEADERS_TRUNCATED: &str = "01080000d1"; // frame header announces 8 bytes, 3 arrive
/// valid request whose field section is far above the server's limit (MAX_FIELD_SECTION below)
fn headers_too_big() -> String {
    // :method GET, :scheme https, :authority = 600 x 'a' (literal with static name reference), :path /
    let mut block = vec![0u8, 0, 0xd1, 0xd7, 0x50, 0x7f, 0xd9, 0x03];
    block.extend(std::iter::repeat(b'a').take(600));
    block.push(0xc1);
    let mut f = vec![0x01u8];
    f.extend_from_slice(&varint_enc(block.len() as u64));
    f.extend_from_slice(&block);
    h3v::hex(&f)
}
const MAX_FIELD_SECTION: u64 = 400;

type Resolver = h3::server::RequestResolver<SimConn, Bytes>;
type Whole = h3::server::RequestStream<SimBidi<Bytes>, Bytes>;
type SendHalf = h3::server::RequestStream<SimSend<Bytes>, Bytes>;
type RecvHalf = h3::server::RequestStream<SimRecv, Bytes>;

enum Obj {
    Resolver(Resolver),
    Whole(Whole),
    Halves(Option<SendHalf>, Option<RecvHalf>),
}

/// what the accept task reports: (event text, log length, number of GOAWAYs written) at that moment
struct TaskEv {
    text: String,
    log_len: usize,
    wires: usize,
}

fn drain_case(fam: &str, ops: &str) -> String {
    let env = parse_env(fam);
    let w = World::new(Side::Server, if env.uni3 { 3 } else { 100 }, 100, None);
    let mut b = h3::server::builder();
    if !env.grease {
        b.send_grease(false);
    }
    b.max_field_section_size(MAX_FIELD_SECTION);
    let conn: h3::server::Connection<SimConn, Bytes> = match poll_once(b.build(SimConn { world: w.clone() })) {
        Poll::Ready(Ok(c)) => c,
        Poll::Ready(Err(e)) => return format!("build-err {}", conn_err(&e)),
        Poll::Pending => return "build-pending".into(),
    };
    peer_other_streams(&w, 2, &env);
    let mut ctl_delivered = false;
    if !env.late_ctl {
        peer_control_stream(&w, 2, &env);
        ctl_delivered = true;
    }
    let ctl = w.lock().unwrap().local_streams()[0];
    let handed: Rc<RefCell<Vec<(u64, Resolver)>>> = Rc::new(RefCell::new(Vec::new()));
    let events: Rc<RefCell<Vec<TaskEv>>> = Rc::new(RefCell::new(Vec::new()));
    let gate = Rc::new(Gate::default());
    let mut ex = Exec::new();
    let task = {
        let (w2, handed, events, gate) = (w.clone(), handed.clone(), events.clone(), gate.clone());
        let mut conn = conn;
        ex.spawn(async move {
            let snap = |text: String| {
                let g = w2.lock().unwrap();
                TaskEv { text, log_len: g.log.len(), wires: goaways(&g.tx_of(ctl)).len() }
            };
            loop {
                match conn.accept().await {
                    Ok(Some(r)) => {
                        let id = h3::quic::SendStream::<Bytes>::send_id(&r.frame_stream).into_inner();
                        let e = snap(format!("+{}", id));
                        events.borrow_mut().push(e);
                        handed.borrow_mut().push((id, r));
                    }
                    Ok(None) => {
                        let e = snap("none".into());
                        events.borrow_mut().push(e);
                        GateWait(gate.clone()).await;
                    }
                    Err(e) => {
                        let log0 = events.borrow().last().map(|x| x.log_len).unwrap_or(0);
                        let e = snap(err_text(&conn_err(&e), &w2, log0));
                        events.borrow_mut().push(e);
                        // keep the connection alive until the case ends: dropping it would close the transport
                        std::future::pending::<()>().await;
                        return String::new();
                    }
                }
            }
        })
    };
    let _ = task;
    let mut objs: HashMap<u64, Obj> = HashMap::new();
    let mut ever_handed: std::collections::HashSet<u64> = std::collections::HashSet::new();
    let mut groups: Vec<String> = Vec::new();
    let mut dead = false;
    let mut partial: Option<String> = None;
    let mut seen_events = 0usize;
    let mut log_pos = w.lock().unwrap().log.len();
    let mut wire_pos = 0usize;
    // atomic ops
    let mut atoms: Vec<String> = Vec::new();
    for tok in ops.split(',') {
        if tok.starts_with('x') {
            let mut it = tok.split(':');
            let hd = it.next().unwrap();
            for a in it {
                atoms.push(format!("{}:{}", hd, a));
            }
        } else {
            atoms.push(tok.to_string());
        }
    }
    for op in atoms {
        if dead {
            groups.push(".".into());
            continue;
        }
        let arg = &op[1..];
        match op.as_bytes()[0] {
            b'A' => {
                let id: u64 = arg.parse().unwrap();
                assert!(apply_event(&w, &format!("B{}", id)));
                groups.push(".".into());
            }
            b'G' => {
                let id: u64 = arg.parse().unwrap();
                if !ctl_delivered {
                    peer_control_stream(&w, 2, &env);
                    ctl_delivered = true;
                }
                let noise = if env.noise { "0d0101030100210100" } else { "" };
                assert!(apply_event(&w, &format!("2:c:{}{}", noise, goaway_frame(id))));
                groups.push(".".into());
            }
            b'H' => {
                // H<pid>:<k> the first k bytes of GOAWAY(pid) arrive; H+ the rest of that frame arrives
                if !ctl_delivered {
                    peer_control_stream(&w, 2, &env);
                    ctl_delivered = true;
                }
                if arg == "+" {
                    if let Some(rest) = partial.take() {
                        if !rest.is_empty() {
                            assert!(apply_event(&w, &format!("2:c:{}", rest)));
                        }
                    }
                } else {
                    let mut it = arg.split(':');
                    let id: u64 = it.next().unwrap().parse().unwrap();
                    let k: usize = it.next().unwrap().parse().unwrap();
                    let f = goaway_frame(id);
                    let k = k.min(f.len() / 2 - 1).max(1);
                    assert!(apply_event(&w, &format!("2:c:{}", &f[..2 * k])));
                    partial = Some(f[2 * k..].to_string());
                }
                groups.push(".".into());
            }
            b'P' => {
                if gate.parked.get() {
                    gate.open.set(true);
                    if let Some(wk) = gate.waker.borrow_mut().take() {
                        wk.wake();
                    }
                }
                if !ex.run() {
                    return "livelock".into();
                }
                for (id, r) in handed.borrow_mut().drain(..) {
                    ever_handed.insert(id);
                    objs.insert(id, Obj::Resolver(r));
                }
                let mut outs: Vec<String> = Vec::new();
                let g = w.lock().unwrap();
                let all_wires = goaways(&g.tx_of(ctl));
                let emit_until = |outs: &mut Vec<String>, log_to: usize, wires_to: usize, log_pos: &mut usize, wire_pos: &mut usize| {
                    // refused streams: stop / reset pairs in the log
                    let mut order: Vec<u64> = Vec::new();
                    let mut stop: HashMap<u64, String> = HashMap::new();
                    let mut reset: HashMap<u64, String> = HashMap::new();
                    for l in &g.log[*log_pos..log_to] {
                        let ws: Vec<&str> = l.split(' ').collect();
                        if ws.len() == 3 && (ws[0] == "stop" || ws[0] == "reset") {
                            let id: u64 = ws[1].parse().unwrap();
                            // only streams that were never handed out count as refused by accept()
                            if ever_handed.contains(&id) {
                                continue;
                            }
                            if !order.contains(&id) {
                                order.push(id);
                            }
                            let m = if ws[0] == "stop" { &mut stop } else { &mut reset };
                            m.entry(id).or_insert_with(|| ws[2].to_string());
                        }
                    }
                    for id in order {
                        outs.push(format!(
                            "-{}:{}:{}",
                            id,
                            stop.get(&id).cloned().unwrap_or_else(|| "-".into()),
                            reset.get(&id).cloned().unwrap_or_else(|| "-".into())
                        ));
                    }
                    for gid in all_wires.iter().take(wires_to).skip(*wire_pos) {
                        outs.push(format!("w{}", gid));
                    }
                    *log_pos = log_to;
                    *wire_pos = wires_to.max(*wire_pos);
                };
                let evs = events.borrow();
                let mut last = String::new();
                for e in evs.iter().skip(seen_events) {
                    emit_until(&mut outs, e.log_len, e.wires, &mut log_pos, &mut wire_pos);
                    outs.push(e.text.clone());
                    last = e.text.clone();
                }
                seen_events = evs.len();
                let inside_accept = !(last == "none" || last.starts_with("err:")) ;
                if last.starts_with("err:") {
                    dead = true;
                }
                if inside_accept {
                    // the task is waiting inside accept() (or was not woken at all)
                    let parked_at_gate = gate.parked.get();
                    if parked_at_gate {
                        // no new event and parked at the gate cannot happen: the gate was opened above
                        outs.push("gate".into());
                    } else {
                        let (ll, wl) = (g.log.len(), all_wires.len());
                        emit_until(&mut outs, ll, wl, &mut log_pos, &mut wire_pos);
                        outs.push("pend".into());
                    }
                }
                groups.push(outs.join(","));
            }
            b'b' => {
                w.lock().unwrap().streams.get_mut(&ctl).unwrap().tx_budget = Some(0);
                groups.push(".".into());
            }
            b'W' => {
                let limited = w.lock().unwrap().streams.get(&ctl).unwrap().tx_budget.is_some();
                if limited {
                    w.lock().unwrap().grant_write(ctl, 1 << 40);
                }
                groups.push(".".into());
            }
            b'X' => {
                assert!(apply_event(&w, "XU"));
                groups.push(".".into());
            }
            b'x' => {
                let mut it = arg.split(':');
                let id: u64 = it.next().unwrap().parse().unwrap();
                let act = it.next().unwrap_or("");
                let r = apply_action(&w, &mut objs, id, act);
                groups.push(r);
            }
            _ => return "driver-error bad-op".into(),
        }
    }
    drop(objs);
    format!("ok {}", groups.join(" "))
}

fn apply_action(w: &Shared, objs: &mut HashMap<u64, Obj>, id: u64, act: &str) -> String {
    let ev = |s: String| assert!(apply_event(w, &s), "{}", s);
    match act {
        "dropres" => match objs.get(&id) {
            Some(Obj::Resolver(_)) => {
                objs.remove(&id);
                ".".into()
            }
            _ => "skip".into(),
        },
        "ok" | "fin" | "rst" | "badqpack" | "unexpected" | "malformed" | "toobig" | "truncfin" | "truncrst" | "unknown" => {
            let r = match objs.remove(&id) {
                Some(Obj::Resolver(r)) => r,
                Some(o) => {
                    objs.insert(id, o);
                    return "skip".into();
                }
                None => return "skip".into(),
            };
            match act {
                "ok" => ev(format!("{}:c:{}", id, HEADERS_GET)),
                "fin" => ev(format!("{}:F", id)),
                "rst" => ev(format!("{}:R268", id)),
                "badqpack" => ev(format!("{}:c:{}", id, HEADERS_BAD_QPACK)),
                "unexpected" => ev(format!("{}:c:{}", id, DATA_FIRST)),
                "toobig" => ev(format!("{}:c:{}", id, headers_too_big())),
                "truncfin" => {
                    ev(format!("{}:c:{}", id, HEADERS_TRUNCATED));
                    ev(format!("{}:F", id));
                }
                "truncrst" => {
                    ev(format!("{}:c:{}", id, HEADERS_TRUNCATED));
                    ev(format!("{}:R268", id));
                }
                "unknown" => ev(format!("{}:K", id)),
                _ => ev(format!("{}:c:{}", id, HEADERS_MALFORMED)),
            }
            match poll_once(r.resolve_request()) {
                Poll::Ready(Ok((_req, stream))) => {
                    if act == "ok" {
                        objs.insert(id, Obj::Whole(stream));
                        ".".into()
                    } else {
                        "resolved-unexpectedly".into()
                    }
                }
                Poll::Ready(Err(e)) => {
                    if act == "ok" {
                        "resolve-failed".into()
                    } else if act == "toobig"
                        && !matches!(e, h3::error::StreamError::HeaderTooBig { .. })
                        && w.lock().unwrap().conn_lost.is_none()
                    {
                        "toobig-not-431".into()
                    } else {
                        ".".into()
                    }
                }
                Poll::Pending => "resolve-pending".into(),
            }
        }
        "finish" => {
            let resp = http::Response::builder().status(200).body(()).unwrap();
            match objs.get_mut(&id) {
                Some(Obj::Whole(s)) => {
                    let _ = poll_once(s.send_response(resp));
                    let _ = poll_once(s.finish());
                    ".".into()
                }
                Some(Obj::Halves(Some(s), _)) => {
                    let _ = poll_once(s.send_response(resp));
                    let _ = poll_once(s.finish());
                    ".".into()
                }
                _ => "skip".into(),
            }
        }
        // every other public method of the request handle: none of them ends the request
        "data" | "trailers" | "stopstream" => {
            match objs.get_mut(&id) {
                Some(Obj::Whole(s)) => {
                    match act {
                        "data" => { let _ = poll_once(s.send_data(Bytes::from_static(b"xy"))); }
                        "trailers" => { let _ = poll_once(s.send_trailers(http::HeaderMap::new())); }
                        _ => s.stop_stream(h3::error::Code::H3_NO_ERROR),
                    }
                    ".".into()
                }
                Some(Obj::Halves(Some(s), _)) => {
                    match act {
                        "data" => { let _ = poll_once(s.send_data(Bytes::from_static(b"xy"))); }
                        "trailers" => { let _ = poll_once(s.send_trailers(http::HeaderMap::new())); }
                        _ => s.stop_stream(h3::error::Code::H3_NO_ERROR),
                    }
                    ".".into()
                }
                _ => "skip".into(),
            }
        }
        "recv" | "rtrailers" | "stopsending" => match objs.get_mut(&id) {
            Some(Obj::Whole(s)) => {
                match act {
                    "recv" => { let _ = poll_once(s.recv_data()).map(|r| r.map(|o| o.map(|_| ()))); }
                    "rtrailers" => { let _ = poll_once(s.recv_trailers()); }
                    _ => s.stop_sending(h3::error::Code::H3_NO_ERROR),
                }
                ".".into()
            }
            Some(Obj::Halves(_, Some(s))) => {
                match act {
                    "recv" => { let _ = poll_once(s.recv_data()).map(|r| r.map(|o| o.map(|_| ()))); }
                    "rtrailers" => { let _ = poll_once(s.recv_trailers()); }
                    _ => s.stop_sending(h3::error::Code::H3_NO_ERROR),
                }
                ".".into()
            }
            _ => "skip".into(),
        },
        "rstafter" => match objs.get_mut(&id) {
            Some(Obj::Whole(s)) => {
                ev(format!("{}:R268", id));
                match poll_once(s.recv_data()) {
                    Poll::Ready(Err(_)) => ".".into(),
                    Poll::Ready(Ok(_)) => "recv-ok".into(),
                    Poll::Pending => "recv-pending".into(),
                }
            }
            Some(Obj::Halves(_, Some(s))) => {
                ev(format!("{}:R268", id));
                match poll_once(s.recv_data()) {
                    Poll::Ready(Err(_)) => ".".into(),
                    Poll::Ready(Ok(_)) => "recv-ok".into(),
                    Poll::Pending => "recv-pending".into(),
                }
            }
            _ => "skip".into(),
        },
        "drop" => match objs.get(&id) {
            Some(Obj::Whole(_)) => {
                objs.remove(&id);
                ".".into()
            }
            _ => "skip".into(),
        },
        "split" => match objs.remove(&id) {
            Some(Obj::Whole(s)) => {
                let (a, b) = s.split();
                objs.insert(id, Obj::Halves(Some(a), Some(b)));
                ".".into()
            }
            Some(o) => {
                objs.insert(id, o);
                "skip".into()
            }
            None => "skip".into(),
        },
        "dropsend" | "droprecv" => {
            let send = act == "dropsend";
            let (res, remove) = match objs.get_mut(&id) {
                Some(Obj::Halves(a, b)) => {
                    let had = if send { a.take().is_some() } else { b.take().is_some() };
                    (if had { "." } else { "skip" }, a.is_none() && b.is_none())
                }
                _ => ("skip", false),
            };
            if remove {
                objs.remove(&id);
            }
            res.into()
        }
        _ => "driver-error bad-action".into(),
    }
}

fn main() {
    run_lines(|ws| match ws {
        [fam, ops] if fam.starts_with("drain") => drain_case(fam, ops),
        _ => "driver-error unknown-case".into(),
    });
}
