//! C11: h3::qpack::{encode_stateless, decode_stateless} through the public API (no hooks).
//!   q.enc  <fields>             -> ok <hex> size=<n> | err
//!   q.dec  <max|-> <hex>        -> ok <fields> size=<n> | err toolong <n> | err decomp <Variant>
//!   q.decc <max|-> <hex.hex..>  -> same, the input handed over as a multi-chunk Buf
//! fields = comma list of <namehex>:<valuehex> (`-` for an empty string), `-` for the empty list.
use bytes::{Bytes, BytesMut};
use h3::qpack::{decode_stateless, encode_stateless, DecoderError, HeaderField};
use h3v::{hex, run_lines, unhex, ChunkBuf};

fn parse_fields(s: &str) -> Vec<HeaderField> {
    if s == "-" {
        return Vec::new();
    }
    s.split(',')
        .map(|f| {
            let (n, v) = f.split_once(':').expect("name:value");
            HeaderField::new(unhex(n), unhex(v))
        })
        .collect()
}

fn show_fields(fs: &[HeaderField]) -> String {
    if fs.is_empty() {
        return "-".into();
    }
    fs.iter()
        .map(|f| format!("{}:{}", hex(&f.name), hex(&f.value)))
        .collect::<Vec<_>>()
        .join(",")
}

fn max_of(s: &str) -> u64 {
    if s == "-" {
        u64::MAX
    } else {
        s.parse().unwrap()
    }
}

fn show_dec(r: Result<h3::qpack::Decoded, DecoderError>) -> String {
    match r {
        Ok(d) => format!("ok {} size={}", show_fields(&d.fields), d.mem_size),
        Err(DecoderError::HeaderTooLong(n)) => format!("err toolong {}", n),
        Err(e) => {
            let d = format!("{:?}", e);
            let v: String = d.chars().take_while(|c| c.is_alphanumeric()).collect();
            format!("err decomp {}", v)
        }
    }
}

fn fnv(h: &mut u64, s: &str) {
    for b in s.as_bytes() {
        *h ^= *b as u64;
        *h = h.wrapping_mul(0x100000001b3);
    }
    *h ^= 10;
    *h = h.wrapping_mul(0x100000001b3);
}

/// canonical result: the variant of a decompression failure and the running size of a too-long refusal are dropped
fn canon(r: String) -> String {
    if r.starts_with("err decomp") {
        "err decomp".into()
    } else if r.starts_with("err toolong") {
        "err toolong".into()
    } else {
        r
    }
}

fn main() {
    run_lines(|ws| match ws {
        // all inputs PREFIX ++ suffix, suffix of N octets in lexicographic order: digest of the canonical results
        ["q.blk", prefix, n] => {
            let p = unhex(prefix);
            let n: u32 = n.parse().unwrap();
            let total: u64 = 1u64 << (8 * n);
            let (mut h, mut oks) = (0xcbf29ce484222325u64, 0u64);
            let mut input = p.clone();
            input.resize(p.len() + n as usize, 0);
            for k in 0..total {
                for j in 0..n as usize {
                    input[p.len() + j] = (k >> (8 * (n as usize - 1 - j))) as u8;
                }
                let mut buf = Bytes::from(input.clone());
                let r = canon(show_dec(decode_stateless(&mut buf, u64::MAX)));
                if r.starts_with("ok") {
                    oks += 1;
                }
                fnv(&mut h, &r);
            }
            format!("n={} ok={} h={:016x}", total, oks, h)
        }
        ["q.enc", fields] => {
            let fs = parse_fields(fields);
            let mut block = BytesMut::new();
            match encode_stateless(&mut block, fs) {
                Ok(n) => format!("ok {} size={}", hex(&block), n),
                Err(_) => "err".into(),
            }
        }
        ["q.dec", max, h] => {
            let mut buf = Bytes::from(unhex(h));
            show_dec(decode_stateless(&mut buf, max_of(max)))
        }
        ["q.decc", max, h] => {
            let chunks: Vec<Bytes> = if *h == "-" {
                vec![]
            } else {
                h.split('.').map(|c| Bytes::from(unhex(c))).collect()
            };
            let mut buf = ChunkBuf::new(chunks);
            show_dec(decode_stateless(&mut buf, max_of(max)))
        }
        _ => "driver-error unknown-case".into(),
    });
}
