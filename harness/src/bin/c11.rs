//! C11: h3::qpack::{encode_stateless, decode_stateless} through the public API (no hooks).
//!   q.enc  <fields>             -> ok <hex> size=<n> | err
//!   q.dec  <max|-> <hex>        -> ok <fields> size=<n> | err toolong <n> | err decomp <Variant>
//!   q.decc <max|-> <hex.hex..>  -> same, the input handed over as a multi-chunk Buf
//! fields = comma list of <namehex>:<valuehex> (`-` for an empty string), `-` for the empty list.
use bytes::{Bytes, BytesMut};
use h3::qpack::{decode_stateless, encode_stateless, DecoderError, HeaderField};
use h3v::{hex, run_lines, unhex, ChunkBuf};

fn parse_fields(s: &str) -> Vec<HeaderField> {
    if s == "-" {
        return Vec::new();
    }
    s.split(',')
        .map(|f| {
            let (n, v) = f.split_once(':').expect("name:value");
            HeaderField::new(unhex(n), unhex(v))
        })
        .collect()
}

fn show_fields(fs: &[HeaderField]) -> String {
    if fs.is_empty() {
        return "-".into();
    }
    fs.iter()
        .map(|f| format!("{}:{}", hex(&f.name), hex(&f.value)))
        .collect::<Vec<_>>()
        .join(",")
}

fn max_of(s: &str) -> u64 {
    if s == "-" {
        u64::MAX
    } else {
        s.parse().unwrap()
    }
}

fn show_dec(r: Result<h3::qpack::Decoded, DecoderError>) -> String {
    match r {
        Ok(d) => format!("ok {} size={}", show_fields(&d.fields), d.mem_size),
        Err(DecoderError::HeaderTooLong(n)) => format!("err toolong {}", n),
        Err(e) => {
            let d = format!("{:?}", e);
            let v: String = d.chars().take_while(|c| c.is_alphanumeric()).collect();
            format!("err decomp {}", v)
        }
    }
}

fn main() {
    run_lines(|ws| match ws {
        ["q.enc", fields] => {
            let fs = parse_fields(fields);
            let mut block = BytesMut::new();
            match encode_stateless(&mut block, fs) {
                Ok(n) => format!("ok {} size={}", hex(&block), n),
                Err(_) => "err".into(),
            }
        }
        ["q.dec", max, h] => {
            let mut buf = Bytes::from(unhex(h));
            show_dec(decode_stateless(&mut buf, max_of(max)))
        }
        ["q.decc", max, h] => {
            let chunks: Vec<Bytes> = if *h == "-" {
                vec![]
            } else {
                h.split('.').map(|c| Bytes::from(unhex(c))).collect()
            };
            let mut buf = ChunkBuf::new(chunks);
            show_dec(decode_stateless(&mut buf, max_of(max)))
        }
        _ => "driver-error unknown-case".into(),
    });
}
