//! C11: h3::qpack::{encode_stateless, decode_stateless} through the public API (no hooks), except q.hpe.
//!   q.enc  <fields>             -> ok <hex> size=<n> | err
//!   q.dec  <max|-> <hex>        -> ok <fields> size=<n> | err toolong <n> | err decomp <Variant>
//!   q.decc <max|-> <hex.hex..>  -> same, the input handed over as a multi-chunk Buf
//!   q.hpe  <max> <b> <m> <k> <eic> <s> <delta>
//!          the Encoded Field Section Prefix written by `HeaderPrefix::encode` with a NON-zero Required Insert Count / Base:
//!          a fresh stateful Encoder (table capacity <max>) first encodes <b> new fields on stream 0 (b insertions), then on
//!          stream 4 a section referencing the old entry with absolute index <m> (0 = none) and <k> new fields.  The prefix of
//!          that second section is the result: -> ok <prefix hex> parts=<eic>,<s>,<delta> (the parts as `HeaderPrefix::new`
//!          computes them for the encoder's own required/base/total); <eic> <s> <delta> of the line are what the model encodes.
//! fields = comma list of <namehex>:<valuehex> (`-` for an empty string), `-` for the empty list.
use bytes::{Bytes, BytesMut};
use h3::qpack::{decode_stateless, encode_stateless, DecoderError, HeaderField};
use h3::verif::qpack::strings::prefix_int_decode;
use h3::verif::qpack::tables::{header_prefix_new, Fields, VEncoder};
use h3v::{hex, run_lines, unhex, ChunkBuf};

fn parse_fields(s: &str) -> Vec<HeaderField> {
    if s == "-" {
        return Vec::new();
    }
    s.split(',')
        .map(|f| {
            let (n, v) = f.split_once(':').expect("name:value");
            HeaderField::new(unhex(n), unhex(v))
        })
        .collect()
}

fn show_fields(fs: &[HeaderField]) -> String {
    if fs.is_empty() {
        return "-".into();
    }
    fs.iter()
        .map(|f| format!("{}:{}", hex(&f.name), hex(&f.value)))
        .collect::<Vec<_>>()
        .join(",")
}

fn max_of(s: &str) -> u64 {
    if s == "-" {
        u64::MAX
    } else {
        s.parse().unwrap()
    }
}

fn show_dec(r: Result<h3::qpack::Decoded, DecoderError>) -> String {
    match r {
        Ok(d) => format!("ok {} size={}", show_fields(&d.fields), d.mem_size),
        Err(DecoderError::HeaderTooLong(n)) => format!("err toolong {}", n),
        Err(e) => {
            let d = format!("{:?}", e);
            let v: String = d.chars().take_while(|c| c.is_alphanumeric()).collect();
            format!("err decomp {}", v)
        }
    }
}

fn fnv(h: &mut u64, s: &str) {
    for b in s.as_bytes() {
        *h ^= *b as u64;
        *h = h.wrapping_mul(0x100000001b3);
    }
    *h ^= 10;
    *h = h.wrapping_mul(0x100000001b3);
}

/// canonical result: the variant of a decompression failure and the running size of a too-long refusal are dropped
fn canon(r: String) -> String {
    if r.starts_with("err decomp") {
        "err decomp".into()
    } else if r.starts_with("err toolong") {
        "err toolong".into()
    } else {
        r
    }
}

/// q.hpe: see the module comment
fn run_hpe(max: usize, b: usize, m: usize, k: usize) -> String {
    let mut enc = match VEncoder::new(max, 1000) {
        Ok(e) => e,
        Err(e) => return format!("err new {}", e),
    };
    let old = |i: usize| (format!("a{}", i).into_bytes(), b"v".to_vec());
    if b > 0 {
        let first: Fields = (0..b).map(old).collect();
        match enc.encode(0, &first) {
            Ok(e) if e.required_ref == b => {}
            Ok(e) => return format!("driver-error first-section required_ref={}", e.required_ref),
            Err(e) => return format!("err first {}", e),
        }
    }
    let mut second: Fields = Vec::new();
    if m > 0 {
        second.push(old(m - 1));
    }
    for j in 0..k {
        second.push((format!("b{}", j).into_bytes(), b"v".to_vec()));
    }
    let e = match enc.encode(4, &second) {
        Ok(e) => e,
        Err(e) => return format!("err second {}", e),
    };
    let mut cur = &e.block[..];
    if prefix_int_decode(8, &mut cur).is_err() || prefix_int_decode(7, &mut cur).is_err() {
        return "err prefix-unreadable".into();
    }
    let plen = e.block.len() - cur.len();
    let (eic, s, d) = header_prefix_new(e.required_ref, b, b + k, max);
    format!("ok {} parts={},{},{}", hex(&e.block[..plen]), eic, s as u8, d)
}

fn main() {
    run_lines(|ws| match ws {
        ["q.hpe", max, b, m, k, _eic, _s, _delta] => run_hpe(
            max.parse().unwrap(),
            b.parse().unwrap(),
            m.parse().unwrap(),
            k.parse().unwrap(),
        ),
        // all inputs PREFIX ++ suffix, suffix of N octets in lexicographic order: digest of the canonical results
        ["q.blk", prefix, n] => {
            let p = unhex(prefix);
            let n: u32 = n.parse().unwrap();
            let total: u64 = 1u64 << (8 * n);
            let (mut h, mut oks) = (0xcbf29ce484222325u64, 0u64);
            let mut input = p.clone();
            input.resize(p.len() + n as usize, 0);
            for k in 0..total {
                for j in 0..n as usize {
                    input[p.len() + j] = (k >> (8 * (n as usize - 1 - j))) as u8;
                }
                let mut buf = Bytes::from(input.clone());
                let r = canon(show_dec(decode_stateless(&mut buf, u64::MAX)));
                if r.starts_with("ok") {
                    oks += 1;
                }
                fnv(&mut h, &r);
            }
            format!("n={} ok={} h={:016x}", total, oks, h)
        }
        ["q.enc", fields] => {
            let fs = parse_fields(fields);
            let mut block = BytesMut::new();
            match encode_stateless(&mut block, fs) {
                Ok(n) => format!("ok {} size={}", hex(&block), n),
                Err(_) => "err".into(),
            }
        }
        ["q.dec", max, h] => {
            let mut buf = Bytes::from(unhex(h));
            show_dec(decode_stateless(&mut buf, max_of(max)))
        }
        ["q.decc", max, h] => {
            let chunks: Vec<Bytes> = if *h == "-" {
                vec![]
            } else {
                h.split('.').map(|c| Bytes::from(unhex(c))).collect()
            };
            let mut buf = ChunkBuf::new(chunks);
            show_dec(decode_stateless(&mut buf, max_of(max)))
        }
        _ => "driver-error unknown-case".into(),
    });
}
