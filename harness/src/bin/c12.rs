//! C12: the receive gate (Header::try_from + into_request_parts / into_response_parts / into_fields), the
//! send side (Header::request / response / trailer iterated to fields) and the http-crate validators the
//! Coq ports in Model/HttpCrate.v stand for.  All pure: no transport involved.
use h3::ext::Protocol;
use h3::proto::headers::{Header, HeaderError};
use h3::qpack::HeaderField;
use h3v::{hex, run_lines, unhex};
use http::header::{HeaderMap, HeaderName, HeaderValue};
use http::uri::{Authority, Parts, PathAndQuery, Scheme, Uri};
use http::{Extensions, Method, StatusCode};
use std::convert::TryFrom;
use std::str::FromStr;

fn parse_fields(s: &str) -> Vec<(Vec<u8>, Vec<u8>)> {
    if s == "-" {
        return vec![];
    }
    s.split(';')
        .map(|f| {
            let mut it = f.splitn(2, '=');
            let n = it.next().unwrap();
            let v = it.next().expect("field without =");
            (unhex(n), unhex(v))
        })
        .collect()
}

fn to_header_fields(fs: &[(Vec<u8>, Vec<u8>)]) -> Vec<HeaderField> {
    fs.iter().map(|(n, v)| HeaderField::new(n.clone(), v.clone())).collect()
}

fn show_map(m: &HeaderMap) -> String {
    let v: Vec<String> = m
        .iter()
        .map(|(n, v)| format!("{}={}", hex(n.as_str().as_bytes()), hex(v.as_bytes())))
        .collect();
    if v.is_empty() {
        "-".into()
    } else {
        v.join(";")
    }
}

fn show_fields<I: IntoIterator<Item = HeaderField>>(it: I) -> String {
    let v: Vec<String> = it
        .into_iter()
        .map(|f| format!("{}={}", hex(&f.name), hex(&f.value)))
        .collect();
    if v.is_empty() {
        "-".into()
    } else {
        v.join(";")
    }
}

fn variant(e: &HeaderError) -> &'static str {
    match e {
        HeaderError::InvalidHeaderName(_) => "InvalidHeaderName",
        HeaderError::InvalidHeaderValue(_) => "InvalidHeaderValue",
        HeaderError::InvalidRequest(_) => "InvalidRequest",
        HeaderError::MissingMethod => "MissingMethod",
        HeaderError::MissingStatus => "MissingStatus",
        HeaderError::MissingAuthority => "MissingAuthority",
        HeaderError::ContradictedAuthority => "ContradictedAuthority",
        HeaderError::TooManyFields => "TooManyFields",
    }
}

fn opt(s: Option<&str>) -> String {
    match s {
        None => "-".into(),
        Some(x) if x.is_empty() => "e".into(),
        Some(x) => hex(x.as_bytes()),
    }
}

fn recv(kind: &str, fs: Vec<HeaderField>) -> String {
    let hdr = match Header::try_from(fs) {
        Ok(h) => h,
        Err(e) => return format!("err {}", variant(&e)),
    };
    match kind {
        "req" => match hdr.into_request_parts() {
            Ok((m, uri, proto, map)) => format!(
                "ok m={} s={} a={} p={} x={} h={}",
                hex(m.as_str().as_bytes()),
                opt(uri.scheme_str()),
                opt(uri.authority().map(|a| a.as_str())),
                opt(uri.path_and_query().map(|p| p.as_str())),
                opt(proto.as_ref().map(|p| p.as_str())),
                show_map(&map)
            ),
            Err(e) => format!("err {}", variant(&e)),
        },
        "resp" => match hdr.into_response_parts() {
            Ok((st, map)) => format!("ok st={} h={}", st.as_u16(), show_map(&map)),
            Err(e) => format!("err {}", variant(&e)),
        },
        _ => format!("ok h={}", show_map(&hdr.into_fields())),
    }
}

/// builds a HeaderMap the way a caller would (append in the given order); None when a name or value is not
/// acceptable to the http crate (HeaderName::from_lowercase / HeaderValue::from_bytes)
fn build_map(fs: &[(Vec<u8>, Vec<u8>)]) -> Option<HeaderMap> {
    let mut m = HeaderMap::new();
    for (n, v) in fs {
        let n = HeaderName::from_lowercase(n).ok()?;
        let v = HeaderValue::from_bytes(v).ok()?;
        m.append(n, v);
    }
    Some(m)
}

fn arg<'a>(w: &'a str, key: &str) -> &'a str {
    w.strip_prefix(key).unwrap_or_else(|| panic!("driver: expected {}", key))
}

fn protocol_of(s: &str) -> Option<Option<Protocol>> {
    Some(match s {
        "-" => None,
        "wt" => Some(Protocol::WEB_TRANSPORT),
        "udp" => Some(Protocol::CONNECT_UDP),
        "ip" => Some(Protocol::CONNECT_IP),
        "ws" => Some(Protocol::WEBSOCKET),
        _ => return None,
    })
}

fn send_req(m: &str, s: &str, a: &str, p: &str, x: &str, h: &str) -> String {
    let method = match Method::from_bytes(&unhex(m)) {
        Ok(m) => m,
        Err(_) => return "badinput method".into(),
    };
    let mut parts = Parts::default();
    if s != "-" {
        match Scheme::try_from(&unhex(if s == "e" { "-" } else { s })[..]) {
            Ok(v) => parts.scheme = Some(v),
            Err(_) => return "badinput scheme".into(),
        }
    }
    if a != "-" {
        match Authority::try_from(&unhex(a)[..]) {
            Ok(v) => parts.authority = Some(v),
            Err(_) => return "badinput authority".into(),
        }
    }
    if p != "-" {
        match PathAndQuery::try_from(&unhex(p)[..]) {
            Ok(v) => parts.path_and_query = Some(v),
            Err(_) => return "badinput path".into(),
        }
    }
    let uri = match Uri::from_parts(parts) {
        Ok(u) => u,
        Err(_) => return "badinput uri".into(),
    };
    let map = match build_map(&parse_fields(h)) {
        Some(m) => m,
        None => return "badinput fields".into(),
    };
    let mut ext = Extensions::new();
    match protocol_of(x) {
        Some(Some(p)) => {
            ext.insert(p);
        }
        Some(None) => {}
        None => return "badinput protocol".into(),
    }
    match Header::request(method, uri, map, ext) {
        Ok(hdr) => format!("ok {}", show_fields(hdr)),
        Err(e) => format!("err {}", variant(&e)),
    }
}

fn main() {
    run_lines(|ws| match ws {
        ["hdr.req", f] => recv("req", to_header_fields(&parse_fields(f))),
        ["hdr.resp", f] => recv("resp", to_header_fields(&parse_fields(f))),
        ["hdr.trl", f] => recv("trl", to_header_fields(&parse_fields(f))),
        // hdr.many <req|resp|trl> <count> <field> <prefix fields>: prefix followed by count copies of field
        ["hdr.many", kind, count, field, prefix] => {
            let mut fs = parse_fields(prefix);
            let one = parse_fields(field);
            let n: usize = count.parse().unwrap();
            for _ in 0..n {
                fs.push(one[0].clone());
            }
            let r = recv(kind, to_header_fields(&fs));
            // the delivered map of a huge section is summarised by its length
            if let Some(i) = r.find(" h=") {
                if n > 64 {
                    let cnt = r[i + 3..].split(';').filter(|x| *x != "-").count();
                    return format!("{} h#={}", &r[..i], cnt);
                }
            }
            r
        }
        ["send.req", m, s, a, p, x, h] => send_req(
            arg(m, "m="),
            arg(s, "s="),
            arg(a, "a="),
            arg(p, "p="),
            arg(x, "x="),
            arg(h, "h="),
        ),
        ["send.resp", st, h] => {
            let st: u16 = arg(st, "st=").parse().unwrap();
            let status = match StatusCode::from_u16(st) {
                Ok(s) => s,
                Err(_) => return "badinput status".into(),
            };
            match build_map(&parse_fields(arg(h, "h="))) {
                Some(map) => format!("ok {}", show_fields(Header::response(status, map))),
                None => "badinput fields".into(),
            }
        }
        ["send.trl", h] => match build_map(&parse_fields(arg(h, "h="))) {
            Some(map) => format!("ok {}", show_fields(Header::trailer(map))),
            None => "badinput fields".into(),
        },
        // ---- the http-crate validators themselves (what Model/HttpCrate.v ports)
        ["http.name", n] => match HeaderName::from_lowercase(&unhex(n)) {
            Ok(h) => format!("ok {}", hex(h.as_str().as_bytes())),
            Err(_) => "err".into(),
        },
        ["http.value", v] => match HeaderValue::from_bytes(&unhex(v)) {
            Ok(h) => format!("ok {}", hex(h.as_bytes())),
            Err(_) => "err".into(),
        },
        ["http.method", v] => match Method::from_bytes(&unhex(v)) {
            Ok(m) => format!("ok {}", hex(m.as_str().as_bytes())),
            Err(_) => "err".into(),
        },
        ["http.status", v] => match StatusCode::from_bytes(&unhex(v)) {
            Ok(s) => format!("ok {} {}", s.as_u16(), hex(s.as_str().as_bytes())),
            Err(_) => "err".into(),
        },
        // the three `try_value` targets: from_utf8 first, then FromStr
        ["http.scheme", v] => {
            let b = unhex(v);
            match std::str::from_utf8(&b).ok().and_then(|s| Scheme::from_str(s).ok()) {
                Some(s) => format!("ok {}", opt(Some(s.as_str()))),
                None => "err".into(),
            }
        }
        ["http.authority", v] => {
            let b = unhex(v);
            match std::str::from_utf8(&b).ok().and_then(|s| Authority::from_str(s).ok()) {
                Some(s) => format!("ok {}", hex(s.as_str().as_bytes())),
                None => "err".into(),
            }
        }
        // Authority::try_from(&[u8]) as used by the Uri builder on a Host value
        ["http.authority.b", v] => match Authority::try_from(&unhex(v)[..]) {
            Ok(s) => format!("ok {}", hex(s.as_str().as_bytes())),
            Err(_) => "err".into(),
        },
        ["http.path", v] => {
            let b = unhex(v);
            match std::str::from_utf8(&b).ok().and_then(|s| PathAndQuery::from_str(s).ok()) {
                Some(p) => format!(
                    "ok {} {} {}",
                    hex(p.as_str().as_bytes()),
                    hex(p.path().as_bytes()),
                    opt(p.query())
                ),
                None => "err".into(),
            }
        }
        // PathAndQuery::try_from(&[u8]) (no from_utf8 in front)
        ["http.path.b", v] => match PathAndQuery::try_from(&unhex(v)[..]) {
            Ok(p) => format!("ok {}", hex(p.as_str().as_bytes())),
            Err(_) => "err".into(),
        },
        ["http.proto", v] => {
            let b = unhex(v);
            match std::str::from_utf8(&b).ok().and_then(|s| Protocol::from_str(s).ok()) {
                Some(p) => format!("ok {}", hex(p.as_str().as_bytes())),
                None => "err".into(),
            }
        }
        ["http.utf8", v] => {
            if std::str::from_utf8(&unhex(v)).is_ok() {
                "ok".into()
            } else {
                "err".into()
            }
        }
        ["http.cap", n] => {
            let n: usize = n.parse().unwrap();
            match HeaderMap::<HeaderValue>::try_with_capacity(n) {
                Ok(m) => format!("ok {}", if m.capacity() >= n { "fits" } else { "short" }),
                Err(_) => "err".into(),
            }
        }
        _ => "driver-error unknown-case".into(),
    });
}
