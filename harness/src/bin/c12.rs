//! C12: the receive gate (Header::try_from + into_request_parts / into_response_parts / into_fields), the
//! send side (Header::request / response / trailer iterated to fields) and the http-crate validators the
//! Coq ports in Model/HttpCrate.v stand for.  All pure: no transport involved.
use h3::ext::Protocol;
use h3::proto::headers::{Header, HeaderError};
use h3::qpack::HeaderField;
use bytes::Bytes;
use h3v::simquic::*;
use h3v::{hex, run_lines, unhex};
use std::cell::Cell;
use std::future::{poll_fn, Future};
use std::pin::Pin;
use std::rc::Rc;
use std::task::Poll;
use http::header::{HeaderMap, HeaderName, HeaderValue};
use http::uri::{Authority, Parts, PathAndQuery, Scheme, Uri};
use http::{Extensions, Method, StatusCode};
use std::convert::TryFrom;
use std::str::FromStr;

fn parse_fields(s: &str) -> Vec<(Vec<u8>, Vec<u8>)> {
    if s == "-" {
        return vec![];
    }
    s.split(';')
        .map(|f| {
            let mut it = f.splitn(2, '=');
            let n = it.next().unwrap();
            let v = it.next().expect("field without =");
            (unhex(n), unhex(v))
        })
        .collect()
}

fn to_header_fields(fs: &[(Vec<u8>, Vec<u8>)]) -> Vec<HeaderField> {
    fs.iter().map(|(n, v)| HeaderField::new(n.clone(), v.clone())).collect()
}

fn show_map(m: &HeaderMap) -> String {
    let v: Vec<String> = m
        .iter()
        .map(|(n, v)| format!("{}={}", hex(n.as_str().as_bytes()), hex(v.as_bytes())))
        .collect();
    if v.is_empty() {
        "-".into()
    } else {
        v.join(";")
    }
}

fn show_fields<I: IntoIterator<Item = HeaderField>>(it: I) -> String {
    let v: Vec<String> = it
        .into_iter()
        .map(|f| format!("{}={}", hex(&f.name), hex(&f.value)))
        .collect();
    if v.is_empty() {
        "-".into()
    } else {
        v.join(";")
    }
}

fn variant(e: &HeaderError) -> &'static str {
    match e {
        HeaderError::InvalidHeaderName(_) => "InvalidHeaderName",
        HeaderError::InvalidHeaderValue(_) => "InvalidHeaderValue",
        HeaderError::InvalidRequest(_) => "InvalidRequest",
        HeaderError::MissingMethod => "MissingMethod",
        HeaderError::MissingStatus => "MissingStatus",
        HeaderError::MissingAuthority => "MissingAuthority",
        HeaderError::ContradictedAuthority => "ContradictedAuthority",
        HeaderError::TooManyFields => "TooManyFields",
    }
}

fn opt(s: Option<&str>) -> String {
    match s {
        None => "-".into(),
        Some(x) if x.is_empty() => "e".into(),
        Some(x) => hex(x.as_bytes()),
    }
}

fn recv(kind: &str, fs: Vec<HeaderField>) -> String {
    let hdr = match Header::try_from(fs) {
        Ok(h) => h,
        Err(e) => return format!("err {}", variant(&e)),
    };
    match kind {
        "req" => match hdr.into_request_parts() {
            Ok((m, uri, proto, map)) => format!(
                "ok m={} s={} a={} p={} x={} h={}",
                hex(m.as_str().as_bytes()),
                opt(uri.scheme_str()),
                opt(uri.authority().map(|a| a.as_str())),
                opt(uri.path_and_query().map(|p| p.as_str())),
                opt(proto.as_ref().map(|p| p.as_str())),
                show_map(&map)
            ),
            Err(e) => format!("err {}", variant(&e)),
        },
        "resp" => match hdr.into_response_parts() {
            Ok((st, map)) => format!("ok st={} h={}", st.as_u16(), show_map(&map)),
            Err(e) => format!("err {}", variant(&e)),
        },
        _ => format!("ok h={}", show_map(&hdr.into_fields())),
    }
}

/// builds a HeaderMap the way a caller would (append in the given order); None when a name or value is not
/// acceptable to the http crate (HeaderName::from_lowercase / HeaderValue::from_bytes)
fn build_map(fs: &[(Vec<u8>, Vec<u8>)]) -> Option<HeaderMap> {
    let mut m = HeaderMap::new();
    for (n, v) in fs {
        let n = HeaderName::from_lowercase(n).ok()?;
        let v = HeaderValue::from_bytes(v).ok()?;
        m.append(n, v);
    }
    Some(m)
}

fn arg<'a>(w: &'a str, key: &str) -> &'a str {
    w.strip_prefix(key).unwrap_or_else(|| panic!("driver: expected {}", key))
}

fn protocol_of(s: &str) -> Option<Option<Protocol>> {
    Some(match s {
        "-" => None,
        "wt" => Some(Protocol::WEB_TRANSPORT),
        "udp" => Some(Protocol::CONNECT_UDP),
        "ip" => Some(Protocol::CONNECT_IP),
        "ws" => Some(Protocol::WEBSOCKET),
        _ => return None,
    })
}

fn send_req(m: &str, s: &str, a: &str, p: &str, x: &str, h: &str) -> String {
    let method = match Method::from_bytes(&unhex(m)) {
        Ok(m) => m,
        Err(_) => return "badinput method".into(),
    };
    let mut parts = Parts::default();
    if s != "-" {
        match Scheme::try_from(&unhex(if s == "e" { "-" } else { s })[..]) {
            Ok(v) => parts.scheme = Some(v),
            Err(_) => return "badinput scheme".into(),
        }
    }
    if a != "-" {
        match Authority::try_from(&unhex(a)[..]) {
            Ok(v) => parts.authority = Some(v),
            Err(_) => return "badinput authority".into(),
        }
    }
    if p != "-" {
        match PathAndQuery::try_from(&unhex(p)[..]) {
            Ok(v) => parts.path_and_query = Some(v),
            Err(_) => return "badinput path".into(),
        }
    }
    let uri = match Uri::from_parts(parts) {
        Ok(u) => u,
        Err(_) => return "badinput uri".into(),
    };
    let map = match build_map(&parse_fields(h)) {
        Some(m) => m,
        None => return "badinput fields".into(),
    };
    let mut ext = Extensions::new();
    match protocol_of(x) {
        Some(Some(p)) => {
            ext.insert(p);
        }
        Some(None) => {}
        None => return "badinput protocol".into(),
    }
    match Header::request(method, uri, map, ext) {
        Ok(hdr) => format!("ok {}", show_fields(hdr)),
        Err(e) => format!("err {}", variant(&e)),
    }
}


// ====================================================================== end to end over SimQuic (scripted peer)
// e2e.req <fields>            the peer opens stream 0 and sends one HEADERS frame whose field section is those field
//                             lines encoded with h3's own qpack::encode_stateless, then FIN; the REAL server runs
//                             accept() + resolve_request(): `ok <parts of the http::Request handed over>` or
//                             `err code=<StreamError code> reset=<RESET_STREAM code h3 put on the stream|-> stop=<STOP_SENDING code|->`
// e2e.resp <fields>           the REAL client sends GET https://a/, the peer answers with that HEADERS frame: recv_response()
// e2e.trl <srv|cli> <fields>  after a minimal valid message the HEADERS frame arrives as trailers: recv_data() then recv_trailers()
// wire.req m= s= a= p= x= h=  the REAL client.send_request(http::Request built from those parts): the HEADERS frame written
//                             on the new stream is QPACK-decoded: `ok <field lines on the wire>` | `err` | `badinput ..`
// wire.resp st= h=            the REAL server.send_response; wire.trl <srv|cli> h=: send_trailers after a message
const MIN_REQUEST: &str = "0000d1d7500161c1"; // :method GET, :scheme https, :authority a, :path /
const MIN_RESPONSE: &str = "0000d9"; // :status 200

fn varint(v: u64) -> Vec<u8> {
    if v < 1 << 6 {
        vec![v as u8]
    } else if v < 1 << 14 {
        ((v as u16) | 0x4000).to_be_bytes().to_vec()
    } else if v < 1 << 30 {
        ((v as u32) | 0x8000_0000).to_be_bytes().to_vec()
    } else {
        (v | 0xc000_0000_0000_0000).to_be_bytes().to_vec()
    }
}
fn frame(ty: u64, payload: &[u8]) -> Vec<u8> {
    let mut f = varint(ty);
    f.extend(varint(payload.len() as u64));
    f.extend_from_slice(payload);
    f
}
fn read_varint(b: &[u8], pos: &mut usize) -> Option<u64> {
    let first = *b.get(*pos)?;
    let n = 1usize << (first >> 6);
    if *pos + n > b.len() {
        return None;
    }
    let mut v = (first & 0x3f) as u64;
    for i in 1..n {
        v = (v << 8) | b[*pos + i] as u64;
    }
    *pos += n;
    Some(v)
}
fn section_of(fs: &[(Vec<u8>, Vec<u8>)]) -> Vec<u8> {
    let mut block = bytes::BytesMut::new();
    h3::qpack::encode_stateless(&mut block, to_header_fields(fs)).expect("driver: qpack encode");
    block.to_vec()
}
/// the frames in `b` from offset `from`: the field lines of the k-th HEADERS frame, QPACK-decoded
fn decode_headers_frame(b: &[u8], k: usize) -> String {
    let mut pos = 0;
    let mut seen = 0;
    while pos < b.len() {
        let ty = match read_varint(b, &mut pos) {
            Some(t) => t,
            None => return "?truncated".into(),
        };
        let len = match read_varint(b, &mut pos) {
            Some(l) => l as usize,
            None => return "?truncated".into(),
        };
        if pos + len > b.len() {
            return "?truncated".into();
        }
        if ty == 1 {
            if seen == k {
                let mut payload = Bytes::copy_from_slice(&b[pos..pos + len]);
                return match h3::qpack::decode_stateless(&mut payload, u64::MAX) {
                    Ok(d) => format!("ok {}", show_fields(d.fields)),
                    Err(_) => "?qpack".into(),
                };
            }
            seen += 1;
        }
        pos += len;
    }
    "nothing-written".into()
}
fn wire_codes(w: &Shared, id: u64) -> (String, String) {
    let g = w.lock().unwrap();
    let (mut reset, mut stop) = (Vec::new(), Vec::new());
    for l in g.log.iter() {
        let ws: Vec<&str> = l.split_whitespace().collect();
        match ws.as_slice() {
            ["reset", i, c] if i.parse::<u64>() == Ok(id) => reset.push(c.to_string()),
            ["stop", i, c] if i.parse::<u64>() == Ok(id) => stop.push(c.to_string()),
            _ => {}
        }
    }
    let j = |v: Vec<String>| if v.is_empty() { "-".to_string() } else { v.join(",") };
    (j(reset), j(stop))
}
fn refusal(e: &h3::error::StreamError, w: &Shared, id: u64) -> String {
    let r = stream_err(e); // scope:code:variant
    let p: Vec<&str> = r.split(':').collect();
    let (reset, stop) = wire_codes(w, id);
    if p[0] != "s" {
        return format!("connerr {}", r);
    }
    format!("err code={} reset={} stop={}", p[1], reset, stop)
}
async fn cancellable<F: Future>(f: F, cancel: &Rc<Cell<bool>>) -> Option<F::Output> {
    let mut f: Pin<Box<F>> = Box::pin(f);
    poll_fn(|cx| {
        if let Poll::Ready(x) = f.as_mut().poll(cx) {
            return Poll::Ready(Some(x));
        }
        if cancel.get() {
            cancel.set(false);
            return Poll::Ready(None);
        }
        Poll::Pending
    })
    .await
}
fn ev(w: &Shared, e: String) {
    assert!(apply_event(w, &e), "event {}", e);
}
fn chunk_ev(w: &Shared, id: u64, b: &[u8]) {
    // large sections arrive in several chunks
    for c in b.chunks(16384) {
        ev(w, format!("{}:c:{}", id, hex(c)));
    }
}
type SrvStream = h3::server::RequestStream<SimBidi<Bytes>, Bytes>;
type CliStream = h3::client::RequestStream<SimBidi<Bytes>, Bytes>;

fn show_request(req: &http::Request<()>) -> String {
    let uri = req.uri();
    format!(
        "ok m={} s={} a={} p={} x={} h={}",
        hex(req.method().as_str().as_bytes()),
        opt(uri.scheme_str()),
        opt(uri.authority().map(|a| a.as_str())),
        opt(uri.path_and_query().map(|p| p.as_str())),
        opt(req.extensions().get::<Protocol>().map(|p| p.as_str())),
        show_map(req.headers())
    )
}

async fn srv_accept(w: &Shared, cancel: &Rc<Cell<bool>>, first: &[u8], second: Option<&[u8]>)
    -> Result<(h3::server::Connection<SimConn, Bytes>, http::Request<()>, SrvStream), String> {
    let mut bytes = frame(1, first);
    if let Some(t) = second {
        bytes.extend(frame(1, t));
    }
    srv_accept_raw(w, cancel, &bytes, true).await
}
async fn srv_accept_raw(w: &Shared, cancel: &Rc<Cell<bool>>, bytes: &[u8], fin: bool)
    -> Result<(h3::server::Connection<SimConn, Bytes>, http::Request<()>, SrvStream), String> {
    let mut b = h3::server::builder();
    b.send_grease(false);
    let mut conn: h3::server::Connection<SimConn, Bytes> = match cancellable(b.build(SimConn { world: w.clone() }), cancel).await {
        Some(Ok(c)) => c,
        _ => return Err("build-err".into()),
    };
    ev(w, "B0".into());
    chunk_ev(w, 0, bytes);
    if fin {
        ev(w, "0:F".into());
    }
    match cancellable(conn.accept(), cancel).await {
        Some(Ok(Some(resolver))) => match cancellable(resolver.resolve_request(), cancel).await {
            Some(Ok((req, s))) => Ok((conn, req, s)),
            Some(Err(e)) => {
                let r = refusal(&e, w, 0);
                std::mem::forget(conn);
                Err(r)
            }
            None => Err("hang".into()),
        },
        Some(Ok(None)) => Err("accept-none".into()),
        Some(Err(e)) => Err(format!("connerr {}", conn_err(&e))),
        None => Err("hang".into()),
    }
}

async fn e2e_req(w: Shared, section: Vec<u8>, cancel: Rc<Cell<bool>>) -> String {
    match srv_accept(&w, &cancel, &section, None).await {
        Ok((conn, req, s)) => {
            let r = show_request(&req);
            std::mem::forget(s);
            std::mem::forget(conn);
            r
        }
        Err(r) => r,
    }
}
async fn e2e_trl_srv(w: Shared, section: Vec<u8>, cancel: Rc<Cell<bool>>) -> String {
    match srv_accept(&w, &cancel, &unhex(MIN_REQUEST), Some(&section)).await {
        Ok((conn, _req, mut s)) => {
            let r = match cancellable(s.recv_data(), &cancel).await {
                Some(Ok(None)) => match cancellable(s.recv_trailers(), &cancel).await {
                    Some(Ok(Some(m))) => format!("ok h={}", show_map(&m)),
                    Some(Ok(None)) => "none".to_string(),
                    Some(Err(e)) => refusal(&e, &w, 0),
                    None => "hang".into(),
                },
                Some(Ok(Some(_))) => "unexpected-data".into(),
                Some(Err(e)) => format!("data-{}", refusal(&e, &w, 0)),
                None => "hang".into(),
            };
            std::mem::forget(s);
            std::mem::forget(conn);
            r
        }
        Err(r) => format!("setup-{}", r),
    }
}
/// one poll of a future, keeping it alive
async fn poll_now<F: Future + Unpin>(f: &mut F) -> Poll<F::Output> {
    poll_fn(|cx| Poll::Ready(Pin::new(&mut *f).poll(cx))).await
}
fn show_trailers(r: Option<Result<Option<HeaderMap>, h3::error::StreamError>>, w: &Shared, id: u64) -> String {
    match r {
        Some(Ok(Some(m))) => format!("ok h={}", show_map(&m)),
        Some(Ok(None)) => "none".to_string(),
        Some(Err(e)) => refusal(&e, w, id),
        None => "hang".into(),
    }
}
/// e2e.trlx: the arms of poll_recv_trailers that recv_data-then-recv_trailers never takes.
/// direct: recv_trailers without any recv_data (the HEADERS frame is read by poll_recv_trailers itself);
/// split:  the trailers frame is complete but FIN arrives only after a first poll (Pending: the block is stashed again);
/// split2: only the first half of the trailers frame is there at the first poll, the rest and FIN come afterwards
async fn trlx_srv(w: Shared, mode: String, section: Vec<u8>, cancel: Rc<Cell<bool>>) -> String {
    let tf = frame(1, &section);
    let cut = if mode == "split2" { tf.len() / 2 } else { tf.len() };
    let mut bytes = frame(1, &unhex(MIN_REQUEST));
    bytes.extend_from_slice(&tf[..cut]);
    let fin_first = mode == "direct";
    match srv_accept_raw(&w, &cancel, &bytes, fin_first).await {
        Ok((conn, _req, mut s)) => {
            let r = {
                let mut fut = Box::pin(s.recv_trailers());
                let first = if fin_first { Poll::Pending } else { poll_now(&mut fut).await };
                match first {
                    Poll::Ready(x) => format!("early-{}", show_trailers(Some(x), &w, 0)),
                    Poll::Pending => {
                        if !fin_first {
                            chunk_ev(&w, 0, &tf[cut..]);
                            ev(&w, "0:F".into());
                        }
                        show_trailers(cancellable(fut, &cancel).await, &w, 0)
                    }
                }
            };
            std::mem::forget(s);
            std::mem::forget(conn);
            r
        }
        Err(r) => format!("setup-{}", r),
    }
}
async fn trlx_cli(w: Shared, mode: String, section: Vec<u8>, cancel: Rc<Cell<bool>>) -> String {
    let (conn, sr, mut s) = match cli_request(&w, &cancel, min_get()).await {
        Ok(x) => x,
        Err(r) => return format!("setup-{}", r),
    };
    let _ = cancellable(s.finish(), &cancel).await;
    let id = s.id().into_inner();
    let tf = frame(1, &section);
    let cut = if mode == "split2" { tf.len() / 2 } else { tf.len() };
    let fin_first = mode == "direct";
    chunk_ev(&w, id, &frame(1, &unhex(MIN_RESPONSE)));
    chunk_ev(&w, id, &tf[..cut]);
    if fin_first {
        ev(&w, format!("{}:F", id));
    }
    let r = match cancellable(s.recv_response(), &cancel).await {
        Some(Ok(_)) => {
            let mut fut = Box::pin(s.recv_trailers());
            let first = if fin_first { Poll::Pending } else { poll_now(&mut fut).await };
            match first {
                Poll::Ready(x) => format!("early-{}", show_trailers(Some(x), &w, id)),
                Poll::Pending => {
                    if !fin_first {
                        chunk_ev(&w, id, &tf[cut..]);
                        ev(&w, format!("{}:F", id));
                    }
                    show_trailers(cancellable(fut, &cancel).await, &w, id)
                }
            }
        }
        Some(Err(e)) => format!("setup-{}", refusal(&e, &w, id)),
        None => "hang".into(),
    };
    std::mem::forget(s);
    std::mem::forget(conn);
    std::mem::forget(sr);
    r
}

async fn cli_request(w: &Shared, cancel: &Rc<Cell<bool>>, req: http::Request<()>)
    -> Result<(h3::client::Connection<SimConn, Bytes>, h3::client::SendRequest<SimOpener, Bytes>, CliStream), String> {
    let mut b = h3::client::builder();
    b.send_grease(false);
    let (conn, mut sr): (h3::client::Connection<SimConn, Bytes>, h3::client::SendRequest<SimOpener, Bytes>) =
        match cancellable(b.build(SimConn { world: w.clone() }), cancel).await {
            Some(Ok(c)) => c,
            _ => return Err("build-err".into()),
        };
    match cancellable(sr.send_request(req), cancel).await {
        Some(Ok(s)) => Ok((conn, sr, s)),
        Some(Err(_e)) => {
            std::mem::forget(conn);
            std::mem::forget(sr);
            Err("err".into())
        }
        None => Err("hang".into()),
    }
}
fn min_get() -> http::Request<()> {
    http::Request::builder().method("GET").uri("https://a/").body(()).unwrap()
}
async fn e2e_cli(w: Shared, trl: bool, section: Vec<u8>, cancel: Rc<Cell<bool>>) -> String {
    let (conn, sr, mut s) = match cli_request(&w, &cancel, min_get()).await {
        Ok(x) => x,
        Err(r) => return format!("setup-{}", r),
    };
    let _ = cancellable(s.finish(), &cancel).await;
    let id = s.id().into_inner();
    if trl {
        chunk_ev(&w, id, &frame(1, &unhex(MIN_RESPONSE)));
    }
    chunk_ev(&w, id, &frame(1, &section));
    ev(&w, format!("{}:F", id));
    let r = match cancellable(s.recv_response(), &cancel).await {
        Some(Ok(resp)) => {
            if trl {
                match cancellable(s.recv_data(), &cancel).await {
                    Some(Ok(None)) => match cancellable(s.recv_trailers(), &cancel).await {
                        Some(Ok(Some(m))) => format!("ok h={}", show_map(&m)),
                        Some(Ok(None)) => "none".to_string(),
                        Some(Err(e)) => refusal(&e, &w, id),
                        None => "hang".into(),
                    },
                    Some(Ok(Some(_))) => "unexpected-data".into(),
                    Some(Err(e)) => format!("data-{}", refusal(&e, &w, id)),
                    None => "hang".into(),
                }
            } else {
                format!("ok st={} h={}", resp.status().as_u16(), show_map(resp.headers()))
            }
        }
        Some(Err(e)) => {
            if trl {
                format!("setup-{}", refusal(&e, &w, id))
            } else {
                refusal(&e, &w, id)
            }
        }
        None => "hang".into(),
    };
    std::mem::forget(s);
    std::mem::forget(conn);
    std::mem::forget(sr);
    r
}

fn build_request(m: &str, s: &str, a: &str, p: &str, x: &str, h: &str) -> Result<http::Request<()>, String> {
    let method = Method::from_bytes(&unhex(m)).map_err(|_| "badinput method".to_string())?;
    let mut parts = Parts::default();
    if s != "-" {
        parts.scheme = Some(Scheme::try_from(&unhex(if s == "e" { "-" } else { s })[..]).map_err(|_| "badinput scheme".to_string())?);
    }
    if a != "-" {
        parts.authority = Some(Authority::try_from(&unhex(a)[..]).map_err(|_| "badinput authority".to_string())?);
    }
    if p != "-" {
        parts.path_and_query = Some(PathAndQuery::try_from(&unhex(p)[..]).map_err(|_| "badinput path".to_string())?);
    }
    let uri = Uri::from_parts(parts).map_err(|_| "badinput uri".to_string())?;
    let map = build_map(&parse_fields(h)).ok_or("badinput fields".to_string())?;
    let proto = protocol_of(x).ok_or("badinput protocol".to_string())?;
    let mut req = http::Request::new(());
    *req.method_mut() = method;
    *req.uri_mut() = uri;
    *req.headers_mut() = map;
    if let Some(pr) = proto {
        req.extensions_mut().insert(pr);
    }
    Ok(req)
}
async fn wire_req(w: Shared, req: http::Request<()>, cancel: Rc<Cell<bool>>) -> String {
    match cli_request(&w, &cancel, req).await {
        Ok((conn, sr, s)) => {
            let id = s.id().into_inner();
            let tx = w.lock().unwrap().tx_of(id);
            std::mem::forget(s);
            std::mem::forget(conn);
            std::mem::forget(sr);
            decode_headers_frame(&tx, 0)
        }
        Err(r) => r,
    }
}
async fn wire_cli_trl(w: Shared, map: HeaderMap, cancel: Rc<Cell<bool>>) -> String {
    match cli_request(&w, &cancel, min_get()).await {
        Ok((conn, sr, mut s)) => {
            let id = s.id().into_inner();
            let r = match cancellable(s.send_trailers(map), &cancel).await {
                Some(Ok(())) => decode_headers_frame(&w.lock().unwrap().tx_of(id), 1),
                Some(Err(_)) => "err".into(),
                None => "hang".into(),
            };
            std::mem::forget(s);
            std::mem::forget(conn);
            std::mem::forget(sr);
            r
        }
        Err(r) => format!("setup-{}", r),
    }
}
async fn wire_srv(w: Shared, resp: Option<http::Response<()>>, trl: Option<HeaderMap>, cancel: Rc<Cell<bool>>) -> String {
    match srv_accept(&w, &cancel, &unhex(MIN_REQUEST), None).await {
        Ok((conn, _req, mut s)) => {
            let mut k = 0;
            let mut r = String::new();
            if let Some(resp) = resp {
                r = match cancellable(s.send_response(resp), &cancel).await {
                    Some(Ok(())) => decode_headers_frame(&w.lock().unwrap().tx_of(0), 0),
                    Some(Err(_)) => "err".into(),
                    None => "hang".into(),
                };
                k = 1;
            }
            if let Some(map) = trl {
                r = match cancellable(s.send_trailers(map), &cancel).await {
                    Some(Ok(())) => decode_headers_frame(&w.lock().unwrap().tx_of(0), k),
                    Some(Err(_)) => "err".into(),
                    None => "hang".into(),
                };
            }
            std::mem::forget(s);
            std::mem::forget(conn);
            r
        }
        Err(r) => format!("setup-{}", r),
    }
}

fn drive<F: Future<Output = String> + 'static>(mk: impl FnOnce(Shared, Rc<Cell<bool>>) -> F, side: Side) -> String {
    let w = World::new(side, 1000, 1000, None);
    let cancel = Rc::new(Cell::new(false));
    let mut ex = Exec::new();
    let t = ex.spawn(mk(w.clone(), cancel.clone()));
    let mut rounds = 0;
    loop {
        if !ex.run() {
            return "livelock".into();
        }
        if ex.done(t) {
            break;
        }
        rounds += 1;
        if rounds > 1000 {
            return "harness-gave-up".into();
        }
        cancel.set(true);
        ex.poll(t);
    }
    ex.result(t).cloned().unwrap_or_default()
}

fn many_fields(count: &str, field: &str, prefix: &str) -> Vec<(Vec<u8>, Vec<u8>)> {
    let mut fs = parse_fields(prefix);
    let one = parse_fields(field);
    let n: usize = count.parse().unwrap();
    for _ in 0..n {
        fs.push(one[0].clone());
    }
    fs
}
fn summarize(r: String, big: bool) -> String {
    if big {
        if let Some(i) = r.find(" h=") {
            let cnt = r[i + 3..].split(';').filter(|x| *x != "-").count();
            return format!("{} h#={}", &r[..i], cnt);
        }
    }
    r
}
fn e2e(kind: &str, fs: Vec<(Vec<u8>, Vec<u8>)>) -> String {
    let sec = section_of(&fs);
    match kind {
        "req" => drive(move |w, c| e2e_req(w, sec, c), Side::Server),
        "resp" => drive(move |w, c| e2e_cli(w, false, sec, c), Side::Client),
        "trl.srv" => drive(move |w, c| e2e_trl_srv(w, sec, c), Side::Server),
        "trl.cli" => drive(move |w, c| e2e_cli(w, true, sec, c), Side::Client),
        _ => "driver-error kind".into(),
    }
}

fn main() {
    run_lines(|ws| match ws {
        ["hdr.req", f] => recv("req", to_header_fields(&parse_fields(f))),
        ["hdr.resp", f] => recv("resp", to_header_fields(&parse_fields(f))),
        ["hdr.trl", f] => recv("trl", to_header_fields(&parse_fields(f))),
        // hdr.many <req|resp|trl> <count> <field> <prefix fields>: prefix followed by count copies of field
        ["hdr.many", kind, count, field, prefix] => {
            let mut fs = parse_fields(prefix);
            let one = parse_fields(field);
            let n: usize = count.parse().unwrap();
            for _ in 0..n {
                fs.push(one[0].clone());
            }
            let r = recv(kind, to_header_fields(&fs));
            // the delivered map of a huge section is summarised by its length
            if let Some(i) = r.find(" h=") {
                if n > 64 {
                    let cnt = r[i + 3..].split(';').filter(|x| *x != "-").count();
                    return format!("{} h#={}", &r[..i], cnt);
                }
            }
            r
        }
        ["e2e.req", f] => e2e("req", parse_fields(f)),
        ["e2e.resp", f] => e2e("resp", parse_fields(f)),
        ["e2e.trlx", role, mode, f] => {
            let sec = section_of(&parse_fields(f));
            let mode = mode.to_string();
            if *role == "srv" {
                drive(move |w, c| trlx_srv(w, mode, sec, c), Side::Server)
            } else {
                drive(move |w, c| trlx_cli(w, mode, sec, c), Side::Client)
            }
        }
        ["e2e.trl", role, f] => e2e(if *role == "srv" { "trl.srv" } else { "trl.cli" }, parse_fields(f)),
        // e2e.many <req|resp|trl.srv|trl.cli> <count> <field> <prefix fields>
        ["e2e.many", kind, count, field, prefix] => {
            let n: usize = count.parse().unwrap();
            summarize(e2e(kind, many_fields(count, field, prefix)), n > 64)
        }
        ["wire.req", m, s, a, p, x, h] => {
            match build_request(arg(m, "m="), arg(s, "s="), arg(a, "a="), arg(p, "p="), arg(x, "x="), arg(h, "h=")) {
                Ok(req) => drive(move |w, c| wire_req(w, req, c), Side::Client),
                Err(e) => e,
            }
        }
        ["wire.resp", st, h] => {
            let st: u16 = arg(st, "st=").parse().unwrap();
            let status = match StatusCode::from_u16(st) {
                Ok(s) => s,
                Err(_) => return "badinput status".into(),
            };
            match build_map(&parse_fields(arg(h, "h="))) {
                Some(map) => {
                    let mut resp = http::Response::new(());
                    *resp.status_mut() = status;
                    *resp.headers_mut() = map;
                    drive(move |w, c| wire_srv(w, Some(resp), None, c), Side::Server)
                }
                None => "badinput fields".into(),
            }
        }
        ["wire.trl", role, h] => match build_map(&parse_fields(arg(h, "h="))) {
            Some(map) => {
                if *role == "srv" {
                    let mut resp = http::Response::new(());
                    *resp.status_mut() = StatusCode::OK;
                    drive(move |w, c| wire_srv(w, Some(resp), Some(map), c), Side::Server)
                } else {
                    drive(move |w, c| wire_cli_trl(w, map, c), Side::Client)
                }
            }
            None => "badinput fields".into(),
        },
        ["send.req", m, s, a, p, x, h] => send_req(
            arg(m, "m="),
            arg(s, "s="),
            arg(a, "a="),
            arg(p, "p="),
            arg(x, "x="),
            arg(h, "h="),
        ),
        ["send.resp", st, h] => {
            let st: u16 = arg(st, "st=").parse().unwrap();
            let status = match StatusCode::from_u16(st) {
                Ok(s) => s,
                Err(_) => return "badinput status".into(),
            };
            match build_map(&parse_fields(arg(h, "h="))) {
                Some(map) => format!("ok {}", show_fields(Header::response(status, map))),
                None => "badinput fields".into(),
            }
        }
        ["send.trl", h] => match build_map(&parse_fields(arg(h, "h="))) {
            Some(map) => format!("ok {}", show_fields(Header::trailer(map))),
            None => "badinput fields".into(),
        },
        // ---- the http-crate validators themselves (what Model/HttpCrate.v ports)
        ["http.name", n] => match HeaderName::from_lowercase(&unhex(n)) {
            Ok(h) => format!("ok {}", hex(h.as_str().as_bytes())),
            Err(_) => "err".into(),
        },
        ["http.value", v] => match HeaderValue::from_bytes(&unhex(v)) {
            Ok(h) => format!("ok {}", hex(h.as_bytes())),
            Err(_) => "err".into(),
        },
        ["http.method", v] => match Method::from_bytes(&unhex(v)) {
            Ok(m) => format!("ok {}", hex(m.as_str().as_bytes())),
            Err(_) => "err".into(),
        },
        ["http.status", v] => match StatusCode::from_bytes(&unhex(v)) {
            Ok(s) => format!("ok {} {}", s.as_u16(), hex(s.as_str().as_bytes())),
            Err(_) => "err".into(),
        },
        // the three `try_value` targets: from_utf8 first, then FromStr
        ["http.scheme", v] => {
            let b = unhex(v);
            match std::str::from_utf8(&b).ok().and_then(|s| Scheme::from_str(s).ok()) {
                Some(s) => format!("ok {}", opt(Some(s.as_str()))),
                None => "err".into(),
            }
        }
        ["http.authority", v] => {
            let b = unhex(v);
            match std::str::from_utf8(&b).ok().and_then(|s| Authority::from_str(s).ok()) {
                Some(s) => format!("ok {}", hex(s.as_str().as_bytes())),
                None => "err".into(),
            }
        }
        // Authority::try_from(&[u8]) as used by the Uri builder on a Host value
        ["http.authority.b", v] => match Authority::try_from(&unhex(v)[..]) {
            Ok(s) => format!("ok {}", hex(s.as_str().as_bytes())),
            Err(_) => "err".into(),
        },
        ["http.path", v] => {
            let b = unhex(v);
            match std::str::from_utf8(&b).ok().and_then(|s| PathAndQuery::from_str(s).ok()) {
                Some(p) => format!(
                    "ok {} {} {}",
                    hex(p.as_str().as_bytes()),
                    hex(p.path().as_bytes()),
                    opt(p.query())
                ),
                None => "err".into(),
            }
        }
        // PathAndQuery::try_from(&[u8]) (no from_utf8 in front)
        ["http.path.b", v] => match PathAndQuery::try_from(&unhex(v)[..]) {
            Ok(p) => format!("ok {}", hex(p.as_str().as_bytes())),
            Err(_) => "err".into(),
        },
        ["http.proto", v] => {
            let b = unhex(v);
            match std::str::from_utf8(&b).ok().and_then(|s| Protocol::from_str(s).ok()) {
                Some(p) => format!("ok {}", hex(p.as_str().as_bytes())),
                None => "err".into(),
            }
        }
        ["http.utf8", v] => {
            if std::str::from_utf8(&unhex(v)).is_ok() {
                "ok".into()
            } else {
                "err".into()
            }
        }
        ["http.cap", n] => {
            let n: usize = n.parse().unwrap();
            match HeaderMap::<HeaderValue>::try_with_capacity(n) {
                Ok(m) => format!("ok {}", if m.capacity() >= n { "fits" } else { "short" }),
                Err(_) => "err".into(),
            }
        }
        _ => "driver-error unknown-case".into(),
    });
}
