//! C18: Datagram::{new, encode, decode} and the Buf impl of EncodedDatagram, plus their real call sites:
//!   dg.tx <sid> <chunk.chunk..>   a real h3 server connection over SimQuic; `get_datagram_sender(sid).send_datagram(payload)`;
//!                                 prints `ok <bytes the transport received>` (exactly one QUIC datagram must have been sent)
//!   dg.rx <hex> / dg.rxw <hex>    a QUIC datagram with these bytes arrives at a real h3 server connection (rx: before
//!                                 `get_datagram_reader().read_datagram()` is first polled, rxw: while it is pending); the
//!                                 connection driver (`accept()`) runs as a second task.  Prints
//!                                 `ok <sid> <payload> close <code|->` | `err <code of the returned connection error> close <code the
//!                                 transport was closed with|->` | `pending close ..` (read_datagram did not return)
use bytes::{Buf, Bytes};
use h3::quic::StreamId;
use h3_datagram::datagram::Datagram;
use h3_datagram::datagram_handler::{DatagramReader, HandleDatagramsExt};
use h3v::simquic::*;
use h3v::{code_value, hex, run_lines, unhex, ChunkBuf};
use std::convert::TryFrom;
use std::sync::{Arc, Mutex};

fn close_code(world: &Shared) -> String {
    match &world.lock().unwrap().closed {
        Some((c, _)) => c.to_string(),
        None => "-".into(),
    }
}

fn tx_case(sid: &str, pl: &str) -> String {
    let sid: u64 = sid.parse().unwrap();
    let chunks: Vec<Bytes> = if pl == "-" { vec![] } else { pl.split('.').map(|c| Bytes::from(unhex(c))).collect() };
    let world = World::new(Side::Server, 100, 100, None);
    let mut ex = Exec::new();
    let w = world.clone();
    let t = ex.spawn(async move {
        let conn: h3::server::Connection<SimConn, ChunkBuf> =
            match h3::server::builder().enable_datagram(true).send_grease(false).build(SimConn { world: w }).await {
                Ok(c) => c,
                Err(e) => return format!("build-err {}", conn_err(&e)),
            };
        let mut sender = conn.get_datagram_sender(StreamId::try_from(sid).unwrap());
        match sender.send_datagram(ChunkBuf::new(chunks)) {
            Ok(()) => "sent".to_string(),
            Err(e) => format!("send-err {:?}", e).replace(' ', "_"),
        }
    });
    ex.run();
    let r = match ex.result(t) {
        Some(r) => r.clone(),
        None => return "pending".into(),
    };
    if r != "sent" {
        return format!("err {}", r);
    }
    let g = world.lock().unwrap();
    if g.dgram_tx.len() != 1 {
        return format!("err sent-count={}", g.dgram_tx.len());
    }
    format!("ok {}", hex(&g.dgram_tx[0]))
}

fn rx_case(h: &str, arrive_while_pending: bool) -> String {
    let world = World::new(Side::Server, 100, 100, None);
    let mut ex = Exec::new();
    let cell: Arc<Mutex<Option<DatagramReader<SimDgramRecv>>>> = Arc::new(Mutex::new(None));
    let (w, c2) = (world.clone(), cell.clone());
    // task 0: builds the connection, hands out the reader, then drives the connection like every server application does
    let driver = ex.spawn(async move {
        let mut conn: h3::server::Connection<SimConn, Bytes> =
            match h3::server::builder().enable_datagram(true).send_grease(false).build(SimConn { world: w }).await {
                Ok(c) => c,
                Err(e) => return format!("build-err {}", conn_err(&e)),
            };
        *c2.lock().unwrap() = Some(conn.get_datagram_reader());
        loop {
            match conn.accept().await {
                Ok(Some(_)) => {}
                Ok(None) => return "accept-none".into(),
                Err(e) => return format!("accept-err {}", conn_err(&e)),
            }
        }
    });
    ex.run();
    let mut reader = match cell.lock().unwrap().take() {
        Some(r) => r,
        None => return format!("err no-reader {:?}", ex.result(driver)),
    };
    let ev = format!("D:{}", h);
    if !arrive_while_pending {
        apply_event(&world, &ev);
    }
    let t = ex.spawn(async move {
        match reader.read_datagram().await {
            Ok(d) => format!("ok {} {}", d.stream_id().into_inner(), hex(d.payload().chunk())),
            Err(e) => {
                let s = stream_err(&e); // c:<code>:<variant> for a connection-level error
                let mut it = s.split(':');
                match (it.next(), it.next()) {
                    (Some("c"), Some(code)) => format!("err {}", code),
                    _ => format!("err not-a-connection-error:{}", s),
                }
            }
        }
    });
    ex.run();
    if arrive_while_pending {
        if ex.result(t).is_some() {
            return "err returned-before-any-datagram".into();
        }
        apply_event(&world, &ev);
        ex.run();
    }
    match ex.result(t) {
        Some(r) => format!("{} close {}", r, close_code(&world)),
        None => format!("pending close {}", close_code(&world)),
    }
}

/// Encodes and consumes the datagram as scripted.  Steps: cK (take <= K bytes of chunk()), aK (advance K),
/// bK (copy_to_bytes(min(K, remaining))), g (get_u8).  Final drain: d = chunk by chunk, B = copy_to_bytes(remaining())
/// (what h3-quinn's send_datagram does), P = BytesMut::put (has_remaining/chunk/advance loop of the bytes crate).
/// `has_remaining()` must agree with `remaining() != 0` at every observation point.
fn enc_case(sid: &str, pl: &str, steps: &str, drain: &str) -> String {
    use bytes::BufMut;
    let sid: u64 = sid.parse().unwrap();
    let chunks: Vec<Bytes> = if pl == "-" {
        vec![]
    } else {
        pl.split('.').map(|c| Bytes::from(unhex(c))).collect()
    };
    let id = StreamId::try_from(sid).unwrap();
    let dg = Datagram::new(id, ChunkBuf::new(chunks));
    let mut enc = dg.encode();
    let mut out = String::new();
    let rem = |e: &h3_datagram::datagram::EncodedDatagram<ChunkBuf>| -> String {
        if e.has_remaining() != (e.remaining() != 0) {
            format!("HR-MISMATCH{}", e.remaining())
        } else {
            format!("r{}", e.remaining())
        }
    };
    if steps != "-" {
        for st in steps.split(',') {
            out.push_str(&rem(&enc));
            out.push(':');
            if st == "g" {
                if enc.remaining() == 0 {
                    out.push_str("- ");
                    continue;
                }
                let b = enc.get_u8();
                out.push_str(&format!("{:02x} ", b));
                continue;
            }
            let k: usize = st[1..].parse().unwrap();
            if st.starts_with('c') {
                let c = enc.chunk();
                let n = k.min(c.len());
                out.push_str(&hex(&c[..n]));
                out.push(' ');
                enc.advance(n);
            } else if st.starts_with('b') {
                let n = k.min(enc.remaining());
                let b = enc.copy_to_bytes(n);
                out.push_str(&hex(&b));
                out.push(' ');
            } else {
                out.push_str(&format!("skip{} ", k));
                enc.advance(k);
            }
        }
    }
    match drain {
        "B" => {
            out.push_str(&rem(&enc));
            out.push(':');
            let n = enc.remaining();
            let b = enc.copy_to_bytes(n);
            out.push_str(&hex(&b));
            out.push(' ');
            out.push_str(&rem(&enc));
        }
        "P" => {
            out.push_str(&rem(&enc));
            out.push(':');
            let mut m = bytes::BytesMut::new();
            m.put(&mut enc);
            out.push_str(&hex(&m));
            out.push(' ');
            out.push_str(&rem(&enc));
        }
        _ => {
            let mut guard = 100000;
            while enc.remaining() != 0 && guard > 0 {
                guard -= 1;
                if !enc.has_remaining() {
                    return "HR-MISMATCH".into();
                }
                let c = enc.chunk();
                if c.is_empty() {
                    return "empty-chunk".into();
                }
                let n = c.len();
                out.push_str(&hex(c));
                out.push(' ');
                enc.advance(n);
            }
            if enc.has_remaining() {
                return "HR-MISMATCH".into();
            }
        }
    }
    format!("ok {}", out.trim())
}

fn main() {
    run_lines(|ws| match ws {
        ["dg.tx", sid, pl] => tx_case(sid, pl),
        ["dg.rx", h] => rx_case(h, false),
        ["dg.rxw", h] => rx_case(h, true),
        ["dg.enc", sid, pl, steps] => enc_case(sid, pl, steps, "d"),
        ["dg.enc", sid, pl, steps, drain] => enc_case(sid, pl, steps, drain),
        ["dg.dec", h] => {
            let b = Bytes::from(unhex(h));
            match Datagram::decode(b) {
                Ok(d) => format!("ok {} {}", d.stream_id().into_inner(), hex(d.payload().chunk())),
                Err(e) => format!("err {}", code_value(&format!("{:?}", e))),
            }
        }
        ["dg.decc", chunks] => {
            // the same datagram bytes as a non-contiguous Buf
            let cs: Vec<Bytes> = if *chunks == "-" { vec![] } else { chunks.split('.').map(|c| Bytes::from(unhex(c))).collect() };
            match Datagram::decode(ChunkBuf::new(cs)) {
                Ok(d) => {
                    // the payload is the buffer the decoder left behind: its chunks, boundaries included
                    let id = d.stream_id().into_inner();
                    let mut p = d.into_payload();
                    let mut parts: Vec<String> = Vec::new();
                    while p.has_remaining() {
                        let c = p.chunk().to_vec();
                        if c.is_empty() {
                            parts.push("EMPTY-CHUNK".into());
                            break;
                        }
                        parts.push(hex(&c));
                        p.advance(c.len());
                    }
                    format!("ok {} {}", id, if parts.is_empty() { "-".to_string() } else { parts.join(".") })
                }
                Err(e) => format!("err {}", code_value(&format!("{:?}", e))),
            }
        }
        _ => "driver-error unknown-case".into(),
    });
}
