//! C18: Datagram::{new, encode, decode} and the Buf impl of EncodedDatagram.
use bytes::{Buf, Bytes};
use h3::quic::StreamId;
use h3_datagram::datagram::Datagram;
use h3v::{code_value, hex, run_lines, unhex, ChunkBuf};
use std::convert::TryFrom;

/// Encodes and consumes the datagram as scripted.  Steps: cK (take <= K bytes of chunk()), aK (advance K),
/// bK (copy_to_bytes(min(K, remaining))), g (get_u8).  Final drain: d = chunk by chunk, B = copy_to_bytes(remaining())
/// (what h3-quinn's send_datagram does), P = BytesMut::put (has_remaining/chunk/advance loop of the bytes crate).
/// `has_remaining()` must agree with `remaining() != 0` at every observation point.
fn enc_case(sid: &str, pl: &str, steps: &str, drain: &str) -> String {
    use bytes::BufMut;
    let sid: u64 = sid.parse().unwrap();
    let chunks: Vec<Bytes> = if pl == "-" {
        vec![]
    } else {
        pl.split('.').map(|c| Bytes::from(unhex(c))).collect()
    };
    let id = StreamId::try_from(sid).unwrap();
    let dg = Datagram::new(id, ChunkBuf::new(chunks));
    let mut enc = dg.encode();
    let mut out = String::new();
    let rem = |e: &h3_datagram::datagram::EncodedDatagram<ChunkBuf>| -> String {
        if e.has_remaining() != (e.remaining() != 0) {
            format!("HR-MISMATCH{}", e.remaining())
        } else {
            format!("r{}", e.remaining())
        }
    };
    if steps != "-" {
        for st in steps.split(',') {
            out.push_str(&rem(&enc));
            out.push(':');
            if st == "g" {
                if enc.remaining() == 0 {
                    out.push_str("- ");
                    continue;
                }
                let b = enc.get_u8();
                out.push_str(&format!("{:02x} ", b));
                continue;
            }
            let k: usize = st[1..].parse().unwrap();
            if st.starts_with('c') {
                let c = enc.chunk();
                let n = k.min(c.len());
                out.push_str(&hex(&c[..n]));
                out.push(' ');
                enc.advance(n);
            } else if st.starts_with('b') {
                let n = k.min(enc.remaining());
                let b = enc.copy_to_bytes(n);
                out.push_str(&hex(&b));
                out.push(' ');
            } else {
                out.push_str(&format!("skip{} ", k));
                enc.advance(k);
            }
        }
    }
    match drain {
        "B" => {
            out.push_str(&rem(&enc));
            out.push(':');
            let n = enc.remaining();
            let b = enc.copy_to_bytes(n);
            out.push_str(&hex(&b));
            out.push(' ');
            out.push_str(&rem(&enc));
        }
        "P" => {
            out.push_str(&rem(&enc));
            out.push(':');
            let mut m = bytes::BytesMut::new();
            m.put(&mut enc);
            out.push_str(&hex(&m));
            out.push(' ');
            out.push_str(&rem(&enc));
        }
        _ => {
            let mut guard = 100000;
            while enc.remaining() != 0 && guard > 0 {
                guard -= 1;
                if !enc.has_remaining() {
                    return "HR-MISMATCH".into();
                }
                let c = enc.chunk();
                if c.is_empty() {
                    return "empty-chunk".into();
                }
                let n = c.len();
                out.push_str(&hex(c));
                out.push(' ');
                enc.advance(n);
            }
            if enc.has_remaining() {
                return "HR-MISMATCH".into();
            }
        }
    }
    format!("ok {}", out.trim())
}

fn main() {
    run_lines(|ws| match ws {
        ["dg.enc", sid, pl, steps] => enc_case(sid, pl, steps, "d"),
        ["dg.enc", sid, pl, steps, drain] => enc_case(sid, pl, steps, drain),
        ["dg.dec", h] => {
            let b = Bytes::from(unhex(h));
            match Datagram::decode(b) {
                Ok(d) => format!("ok {} {}", d.stream_id().into_inner(), hex(d.payload().chunk())),
                Err(e) => format!("err {}", code_value(&format!("{:?}", e))),
            }
        }
        ["dg.decc", chunks] => {
            // the same datagram bytes as a non-contiguous Buf
            let cs: Vec<Bytes> = chunks.split('.').map(|c| Bytes::from(unhex(c))).collect();
            match Datagram::decode(ChunkBuf::new(cs)) {
                Ok(d) => {
                    let id = d.stream_id().into_inner();
                    let mut p = d.into_payload();
                    let rest = p.copy_to_bytes(p.remaining());
                    format!("ok {} {}", id, hex(&rest))
                }
                Err(e) => format!("err {}", code_value(&format!("{:?}", e))),
            }
        }
        _ => "driver-error unknown-case".into(),
    });
}
