//! C18: Datagram::{new, encode, decode} and the Buf impl of EncodedDatagram.
use bytes::{Buf, Bytes};
use h3::quic::StreamId;
use h3_datagram::datagram::Datagram;
use h3v::{code_value, hex, run_lines, unhex, ChunkBuf};
use std::convert::TryFrom;

fn main() {
    run_lines(|ws| match ws {
        ["dg.enc", sid, pl, steps] => {
            let sid: u64 = sid.parse().unwrap();
            let chunks: Vec<Bytes> = if *pl == "-" {
                vec![]
            } else {
                pl.split('.').map(|c| Bytes::from(unhex(c))).collect()
            };
            let id = StreamId::try_from(sid).unwrap();
            let dg = Datagram::new(id, ChunkBuf::new(chunks));
            let mut enc = dg.encode();
            let mut out = String::new();
            if *steps != "-" {
                for st in steps.split(',') {
                    let k: usize = st[1..].parse().unwrap();
                    out.push_str(&format!("r{}:", enc.remaining()));
                    if st.starts_with('c') {
                        let c = enc.chunk();
                        let n = k.min(c.len());
                        out.push_str(&hex(&c[..n]));
                        out.push(' ');
                        enc.advance(n);
                    } else {
                        out.push_str(&format!("skip{} ", k));
                        enc.advance(k);
                    }
                }
            }
            let mut guard = 100000;
            while enc.remaining() != 0 && guard > 0 {
                guard -= 1;
                let c = enc.chunk();
                if c.is_empty() {
                    return "empty-chunk".into();
                }
                let n = c.len();
                out.push_str(&hex(c));
                out.push(' ');
                enc.advance(n);
            }
            format!("ok {}", out.trim())
        }
        ["dg.dec", h] => {
            let b = Bytes::from(unhex(h));
            match Datagram::decode(b) {
                Ok(d) => format!("ok {} {}", d.stream_id().into_inner(), hex(d.payload().chunk())),
                Err(e) => format!("err {}", code_value(&format!("{:?}", e))),
            }
        }
        ["dg.decc", chunks] => {
            // the same datagram bytes as a non-contiguous Buf
            let cs: Vec<Bytes> = chunks.split('.').map(|c| Bytes::from(unhex(c))).collect();
            match Datagram::decode(ChunkBuf::new(cs)) {
                Ok(d) => {
                    let id = d.stream_id().into_inner();
                    let mut p = d.into_payload();
                    let rest = p.copy_to_bytes(p.remaining());
                    format!("ok {} {}", id, hex(&rest))
                }
                Err(e) => format!("err {}", code_value(&format!("{:?}", e))),
            }
        }
        _ => "driver-error unknown-case".into(),
    });
}
