//! C20: the real stateful QPACK Encoder / Decoder of /repo connected through the encoder and decoder streams.
//! Case lines: see ocaml/C20_driver.ml (same format, same result words).
use h3::verif::qpack::tables::{
    ack_header, header_prefix_get, header_prefix_new, parse_block, parse_decoder_stream,
    parse_encoder_stream, stream_canceled, Fields, Snapshot, VDecInstr, VDecoder, VEncInstr,
    VEncoder, VRep,
};
use h3v::{run_lines, unhex};
use std::panic::{catch_unwind, AssertUnwindSafe};

fn hx(b: &[u8]) -> String {
    let mut s = String::with_capacity(b.len() * 2);
    for x in b {
        s.push_str(&format!("{:02x}", x));
    }
    s
}

fn unhx(s: &str) -> Vec<u8> {
    if s.is_empty() {
        Vec::new()
    } else {
        unhex(s)
    }
}

fn joinor(sep: &str, l: Vec<String>) -> String {
    if l.is_empty() {
        "-".to_string()
    } else {
        l.join(sep)
    }
}

fn fieldsstr(fs: &Fields) -> String {
    joinor(
        ".",
        fs.iter()
            .map(|(n, v)| format!("{}={}", hx(n), hx(v)))
            .collect(),
    )
}

/// error text without numeric payloads: `DynamicTable(BadRelativeIndex(3))` -> `DynamicTable(BadRelativeIndex)`
fn code(e: &str) -> String {
    if e.starts_with("BufSize") {
        return "BufSize".to_string();
    }
    let mut out = String::new();
    let b: Vec<char> = e.chars().collect();
    let mut i = 0;
    while i < b.len() {
        if b[i] == '(' {
            // numeric payload?
            let mut j = i + 1;
            if j < b.len() && b[j] == '-' {
                j += 1;
            }
            let st = j;
            while j < b.len() && b[j].is_ascii_digit() {
                j += 1;
            }
            if j > st && j < b.len() && b[j] == ')' {
                i = j + 1;
                continue;
            }
        }
        out.push(b[i]);
        i += 1;
    }
    out
}

fn dec_err_word(e: &str) -> String {
    if let Some(r) = e.strip_prefix("MissingRefs(") {
        return format!("blocked:{}", r.trim_end_matches(')'));
    }
    format!("err:{}", code(e))
}

fn repstr(r: &VRep) -> String {
    match r {
        VRep::IndexedStatic(i) => format!("S{}", i),
        VRep::IndexedDynamic(i) => format!("D{}", i),
        VRep::IndexedPostBase(i) => format!("P{}", i),
        VRep::LiteralStaticName(i, v) => format!("LS{}={}", i, hx(v)),
        VRep::LiteralDynamicName(i, v) => format!("LD{}={}", i, hx(v)),
        VRep::LiteralPostBaseName(i, v) => format!("LP{}={}", i, hx(v)),
        VRep::Literal(n, v) => format!("LL{}={}", hx(n), hx(v)),
    }
}

fn instrstr(i: &VEncInstr) -> String {
    match i {
        VEncInstr::SizeUpdate(n) => format!("Z{}", n),
        VEncInstr::InsertStaticName(i, v) => format!("IS{}={}", i, hx(v)),
        VEncInstr::InsertDynamicName(i, v) => format!("ID{}={}", i, hx(v)),
        VEncInstr::InsertLiteral(n, v) => format!("IL{}={}", hx(n), hx(v)),
        VEncInstr::Duplicate(i) => format!("U{}", i),
    }
}

fn dinstrstr(i: &VDecInstr) -> String {
    match i {
        VDecInstr::HeaderAck(s) => format!("A{}", s),
        VDecInstr::StreamCancel(s) => format!("X{}", s),
        VDecInstr::InsertCountIncrement(n) => format!("N{}", n),
    }
}

/// FNV-1a (32 bit) over the table contents: per entry len(name), name, len(value), value
fn digest(s: &Snapshot) -> String {
    let mut h: u32 = 2166136261;
    let mut step = |b: u8| {
        h = (h ^ b as u32).wrapping_mul(16777619);
    };
    for (n, v) in &s.fields {
        step(n.len() as u8);
        n.iter().for_each(|b| step(*b));
        step(v.len() as u8);
        v.iter().for_each(|b| step(*b));
    }
    format!("h{:08x}", h)
}

fn pairs(l: &[(usize, usize)]) -> String {
    joinor("+", l.iter().map(|(r, c)| format!("{}*{}", r, c)).collect())
}

fn estate(s: &Snapshot) -> String {
    // stream ids compare as decimal strings on the model side
    let mut blocks: Vec<(String, usize)> = s
        .track_blocks
        .iter()
        .map(|(sid, q)| (sid.to_string(), q.len()))
        .collect();
    blocks.sort();
    format!(
        "t{}.{}.{}.{}.{}.{}/{}/{}.{}.{}/{}",
        s.inserted,
        s.dropped,
        s.curr_size,
        s.max_size,
        s.fields.len(),
        digest(s),
        pairs(&s.track_map),
        s.blocked_count,
        s.largest_known_received,
        pairs(&s.blocked_streams),
        joinor("+", blocks.iter().map(|(sid, l)| format!("{}*{}", sid, l)).collect())
    )
}

fn dstate(s: &Snapshot) -> String {
    format!(
        "d{}.{}.{}.{}.{}.{}",
        s.inserted,
        s.dropped,
        s.curr_size,
        s.max_size,
        s.fields.len(),
        digest(s)
    )
}

/// `<i>=<hex>` after a mnemonic of k characters
fn idx_val(s: &str, k: usize) -> (u64, Vec<u8>) {
    let r = &s[k..];
    let i = r.find('=').unwrap();
    (r[..i].parse().unwrap(), unhx(&r[i + 1..]))
}

fn name_val(s: &str, k: usize) -> (Vec<u8>, Vec<u8>) {
    let r = &s[k..];
    let i = r.find('=').unwrap();
    (unhx(&r[..i]), unhx(&r[i + 1..]))
}

/// wire bytes of a hand-made field section `<eic>.<sign>.<delta>:<rep>;<rep>...`, composed from the crate's
/// prefix_int::encode / prefix_string::encode with the prefix sizes and patterns of block.rs
fn hostile_block(spec: &str) -> Vec<u8> {
    use h3::verif::qpack::strings::{prefix_int_encode as pi, prefix_string_encode as ps};
    let i = spec.find(':').unwrap();
    let p: Vec<&str> = spec[..i].split('.').collect();
    let mut b: Vec<u8> = Vec::new();
    pi(8, 0, p[0].parse().unwrap(), &mut b);
    pi(7, (p[1] == "1") as u8, p[2].parse().unwrap(), &mut b);
    for r in spec[i + 1..].split(';').filter(|r| !r.is_empty()) {
        if r.starts_with("LS") {
            let (x, v) = idx_val(r, 2);
            pi(4, 0b0101, x, &mut b);
            ps(8, 0, &v, &mut b).unwrap();
        } else if r.starts_with("LD") {
            let (x, v) = idx_val(r, 2);
            pi(4, 0b0100, x, &mut b);
            ps(8, 0, &v, &mut b).unwrap();
        } else if r.starts_with("LP") {
            let (x, v) = idx_val(r, 2);
            pi(3, 0b0000, x, &mut b);
            ps(8, 0, &v, &mut b).unwrap();
        } else if r.starts_with("LL") {
            let (n, v) = name_val(r, 2);
            ps(4, 0b0010, &n, &mut b).unwrap();
            ps(8, 0, &v, &mut b).unwrap();
        } else if let Some(x) = r.strip_prefix('S') {
            pi(6, 0b11, x.parse().unwrap(), &mut b);
        } else if let Some(x) = r.strip_prefix('D') {
            pi(6, 0b10, x.parse().unwrap(), &mut b);
        } else if let Some(x) = r.strip_prefix('P') {
            pi(4, 0b0001, x.parse().unwrap(), &mut b);
        } else {
            panic!("driver: rep");
        }
    }
    b
}

/// wire bytes of a hand-made encoder-stream instruction (prefix sizes and patterns of stream.rs)
fn hostile_instr(w: &str) -> Vec<u8> {
    use h3::verif::qpack::strings::{prefix_int_encode as pi, prefix_string_encode as ps};
    let mut b: Vec<u8> = Vec::new();
    if w.starts_with("IS") {
        let (x, v) = idx_val(w, 2);
        pi(6, 0b11, x, &mut b);
        ps(8, 0, &v, &mut b).unwrap();
    } else if w.starts_with("ID") {
        let (x, v) = idx_val(w, 2);
        pi(6, 0b10, x, &mut b);
        ps(8, 0, &v, &mut b).unwrap();
    } else if w.starts_with("IL") {
        let (n, v) = name_val(w, 2);
        ps(6, 0b01, &n, &mut b).unwrap();
        ps(8, 0, &v, &mut b).unwrap();
    } else if let Some(x) = w.strip_prefix('Z') {
        pi(5, 0b001, x.parse().unwrap(), &mut b);
    } else if let Some(x) = w.strip_prefix('U') {
        pi(5, 0, x.parse().unwrap(), &mut b);
    } else {
        panic!("driver: instr");
    }
    b
}

/// byte length of the first k instructions of a stream (all of it when there are fewer)
fn prefix_len(lens: &[usize], k: usize) -> usize {
    lens.iter().take(k).sum()
}

fn run_qs(cap: usize, blocked: usize, ops: &str) -> String {
    let (mut enc, mut dec) = match (VEncoder::new(cap, blocked), VDecoder::new(cap, blocked)) {
        (Ok(e), Ok(d)) => (e, d),
        _ => return "init-err".to_string(),
    };
    let mut eq: Vec<u8> = Vec::new(); // encoder stream, not yet handed over
    let mut dq: Vec<u8> = Vec::new(); // decoder stream, not yet handed over
    let mut etail: Vec<u8> = Vec::new(); // handed to the decoder, not consumed (incomplete instruction)
    let mut dtail: Vec<u8> = Vec::new(); // handed to the encoder, not consumed
    let mut secs: Vec<(u64, Vec<u8>, bool)> = Vec::new(); // stream, block, done
    let mut out: Vec<String> = Vec::new();
    for op in ops.split(',').filter(|o| !o.is_empty()) {
        let letter = match &op[..1] {
            "b" | "H" => "B".to_string(),
            "i" => "I".to_string(),
            "k" => "K".to_string(),
            x => x.to_string(),
        };
        let rest = &op[1..];
        let r = catch_unwind(AssertUnwindSafe(|| -> String {
            match &op[..1] {
                "E" => {
                    let i = rest.find(':').unwrap();
                    let sid: u64 = rest[..i].parse().unwrap();
                    let fs: Fields = rest[i + 1..]
                        .split('.')
                        .filter(|f| !f.is_empty())
                        .map(|f| {
                            let k = f.find('=').unwrap();
                            (unhx(&f[..k]), unhx(&f[k + 1..]))
                        })
                        .collect();
                    match enc.encode(sid, &fs) {
                        Ok(e) => {
                            let b = match parse_block(&e.block) {
                                Ok(b) => b,
                                Err(x) => return format!("E:unparsable-block:{}", code(&x)),
                            };
                            let ins = match parse_encoder_stream(&e.encoder_stream) {
                                Ok(v) => v,
                                Err(x) => return format!("E:unparsable-stream:{}", code(&x)),
                            };
                            if ins.iter().map(|(_, n)| n).sum::<usize>() != e.encoder_stream.len() {
                                return "E:incomplete-instruction".to_string();
                            }
                            eq.extend_from_slice(&e.encoder_stream);
                            secs.push((sid, e.block.clone(), false));
                            let wire = |w: &[u8]| if w.is_empty() { "-".to_string() } else { hx(w) };
                            format!(
                                "E:{}:{}.{}.{}:{}:{}:{}:{}:{}",
                                e.required_ref,
                                b.encoded_insert_count,
                                b.sign_negative as u8,
                                b.delta_base,
                                joinor(";", b.reps.iter().map(repstr).collect()),
                                joinor(";", ins.iter().map(|(i, _)| instrstr(i)).collect()),
                                wire(&e.block),
                                wire(&e.encoder_stream),
                                estate(&enc.snapshot())
                            )
                        }
                        Err(x) => format!("E:err:{}", code(&x)),
                    }
                }
                "I" | "i" => {
                    let k: usize = rest.parse().unwrap();
                    // everything the decoder may look at: the unconsumed tail, then the bytes still in flight
                    let mut all = etail.clone();
                    all.extend_from_slice(&eq);
                    let n = if &op[..1] == "I" {
                        let lens: Vec<usize> = parse_encoder_stream(&all)
                            .map(|v| v.iter().map(|(_, n)| *n).collect())
                            .unwrap_or_default();
                        prefix_len(&lens, k).max(etail.len())
                    } else {
                        (etail.len() + k).min(all.len())
                    };
                    let now: Vec<u8> = all[..n].to_vec();
                    eq.drain(..n - etail.len());
                    let (r, consumed, w) = dec.on_encoder_recv(&now);
                    match r {
                        Ok(ins) => {
                            if &op[..1] == "I" && k > 0 && consumed != now.len() {
                                return format!("I:consumed-{}-of-{}", consumed, now.len());
                            }
                            etail = now[consumed..].to_vec();
                            // an increment above 64 is not accepted by the crate's own decoder: read it as a bare integer
                            let written = match parse_decoder_stream(&w) {
                                Ok(d) => joinor(";", d.iter().map(|(i, _)| dinstrstr(i)).collect()),
                                Err(_) => match h3::verif::qpack::strings::prefix_int_decode(
                                    6,
                                    &mut std::io::Cursor::new(&w[..]),
                                ) {
                                    Ok((0, v)) => format!("N{}", v),
                                    _ => format!("raw{}", hx(&w)),
                                },
                            };
                            dq.extend_from_slice(&w);
                            let wh = if w.is_empty() { "-".to_string() } else { hx(&w) };
                            format!("I:{}:{}:{}:{}", ins, written, wh, dstate(&dec.snapshot()))
                        }
                        Err(x) => format!("I:{}", dec_err_word(&x)),
                    }
                }
                "B" | "b" => {
                    let j: usize = rest.parse().unwrap();
                    let honest = &op[..1] == "B";
                    let (sid, block, done) = match secs.get(j) {
                        None => return "B:nosuch".to_string(),
                        Some(x) => x.clone(),
                    };
                    if honest && done {
                        return "B:done".to_string();
                    }
                    if honest && secs[..j].iter().any(|(s, _, d)| *s == sid && !*d) {
                        return "B:held".to_string();
                    }
                    match dec.decode_header(&block) {
                        Ok(d) => {
                            let mut ack = "-".to_string();
                            if honest {
                                secs[j].2 = true;
                                if d.dyn_ref {
                                    let a = ack_header(sid);
                                    ack = hx(&a);
                                    dq.extend_from_slice(&a);
                                }
                            }
                            format!("B:ok:{}:{}:{}", fieldsstr(&d.fields), d.dyn_ref as u8, ack)
                        }
                        Err(x) => format!("B:{}", dec_err_word(&x)),
                    }
                }
                "K" | "k" => {
                    let k: usize = rest.parse().unwrap();
                    let mut all = dtail.clone();
                    all.extend_from_slice(&dq);
                    let n = if &op[..1] == "K" {
                        // when the crate's decoder cannot split the stream, everything is handed over
                        match parse_decoder_stream(&all) {
                            Ok(v) => prefix_len(&v.iter().map(|(_, n)| *n).collect::<Vec<usize>>(), k)
                                .max(dtail.len()),
                            Err(_) => all.len(),
                        }
                    } else {
                        (dtail.len() + k).min(all.len())
                    };
                    let now: Vec<u8> = all[..n].to_vec();
                    dq.drain(..n - dtail.len());
                    let (r, consumed) = enc.on_decoder_recv(&now);
                    match r {
                        Ok(()) => {
                            if &op[..1] == "K" && k > 0 && consumed != now.len() {
                                return format!("K:consumed-{}-of-{}", consumed, now.len());
                            }
                            dtail = now[consumed..].to_vec();
                            format!("K:ok:{}", estate(&enc.snapshot()))
                        }
                        Err(x) => format!("K:err:{}", code(&x)),
                    }
                }
                "H" => {
                    // a hand-made field section on the current decoder table; nothing is recorded
                    let block = hostile_block(rest);
                    let w = if block.is_empty() { "-".to_string() } else { hx(&block) };
                    match dec.decode_header(&block) {
                        Ok(d) => format!("B:w{}:ok:{}:{}:-", w, fieldsstr(&d.fields), d.dyn_ref as u8),
                        Err(x) => format!("B:w{}:{}", w, dec_err_word(&x)),
                    }
                }
                "J" => {
                    let w = hostile_instr(rest);
                    eq.extend_from_slice(&w);
                    format!("J:{}", hx(&w))
                }
                "C" => {
                    let sid: u64 = rest.parse().unwrap();
                    for x in secs.iter_mut() {
                        if x.0 == sid {
                            x.2 = true;
                        }
                    }
                    dq.extend_from_slice(&stream_canceled(sid));
                    "C:q".to_string()
                }
                "Z" => {
                    let n: usize = rest.parse().unwrap();
                    match enc.set_table_size(n) {
                        Ok(w) => {
                            eq.extend_from_slice(&w);
                            format!("Z:ok:{}", estate(&enc.snapshot()))
                        }
                        Err(x) => format!("Z:err:{}", code(&x)),
                    }
                }
                _ => "driver-error".to_string(),
            }
        }));
        match r {
            Ok(w) => out.push(w),
            Err(_) => {
                out.push(format!("{}:panic", letter));
                break;
            }
        }
    }
    let o = out.join(" ");
    let head = if o.contains(":panic") {
        "panic"
    } else if ["E:err", "I:err", "K:err", "Z:err"].iter().any(|x| o.contains(x)) {
        "err"
    } else {
        "ok"
    };
    format!("{} {}", head, o)
}

/// a ParseError / DecoderError / EncoderError Debug text without payloads that the property does not constrain
/// (bit-window positions of the Huffman decoder, the offending octet, TryFromIntError)
fn pcode(e: &str) -> String {
    let e = e.trim();
    for (pat, word) in [
        ("HuffmanDecoding(MissingBits", "Huffman(MissingBits)"),
        ("HuffmanDecoding(Unhandled", "Huffman(Unhandled)"),
        ("BufSize", "BufSize"),
    ] {
        if let Some(i) = e.find(pat) {
            // keep the wrappers in front of the pattern, close their parentheses
            let head = &e[..i];
            let depth = head.matches('(').count();
            return format!("{}{}{}", head, word, ")".repeat(depth));
        }
    }
    code(e)
}

/// chunk sizes: dot separated, `-` = none; what is left after the listed sizes is one more chunk
fn chunks_of(bytes: &[u8], cuts: &str) -> Vec<Vec<u8>> {
    let mut out = Vec::new();
    let mut pos = 0;
    if cuts != "-" {
        for c in cuts.split('.').filter(|c| !c.is_empty()) {
            let n: usize = c.parse().unwrap();
            let end = (pos + n).min(bytes.len());
            out.push(bytes[pos..end].to_vec());
            pos = end;
        }
    }
    if pos < bytes.len() || out.is_empty() {
        out.push(bytes[pos..].to_vec());
    }
    out
}

/// qp.e: raw encoder-stream bytes handed in pieces to the crate's instruction decoders (P: the stream.rs decoders
/// behind the first-octet dispatch, as wrapped by parse_encoder_stream) and to the real Decoder::on_encoder_recv (R:)
fn run_qpe(cap: usize, bytes: &[u8], cuts: &str) -> String {
    let mut dec = match VDecoder::new(cap, 100) {
        Ok(d) => d,
        Err(_) => return "init-err".to_string(),
    };
    let mut tail: Vec<u8> = Vec::new();
    let mut out: Vec<String> = Vec::new();
    let mut head = "ok";
    for c in chunks_of(bytes, cuts) {
        let mut buf = tail.clone();
        buf.extend_from_slice(&c);
        let r = catch_unwind(AssertUnwindSafe(|| -> (String, Option<usize>) {
            let p = match parse_encoder_stream(&buf) {
                Ok(v) => format!(
                    "P:{}:{}",
                    joinor(";", v.iter().map(|(i, _)| instrstr(i)).collect()),
                    v.iter().map(|(_, n)| n).sum::<usize>()
                ),
                Err(x) => format!("P:err:{}", pcode(&x)),
            };
            let (r, consumed, w) = dec.on_encoder_recv(&buf);
            match r {
                Ok(ins) => (
                    format!("{}/R:ok:{}:{}:{}:{}", p, ins, consumed, hx_or_dash(&w), dstate(&dec.snapshot())),
                    Some(consumed),
                ),
                Err(x) => (format!("{}/R:err:{}:{}", p, pcode(&x), dstate(&dec.snapshot())), None),
            }
        }));
        match r {
            Ok((w, Some(consumed))) => {
                out.push(w);
                tail = buf[consumed.min(buf.len())..].to_vec();
            }
            Ok((w, None)) => {
                out.push(w);
                head = "err";
                break;
            }
            Err(_) => {
                out.push("panic".to_string());
                head = "panic";
                break;
            }
        }
    }
    format!("{} {}", head, out.join(" "))
}

fn hx_or_dash(w: &[u8]) -> String {
    if w.is_empty() {
        "-".to_string()
    } else {
        hx(w)
    }
}

/// qp.d: raw decoder-stream bytes handed in pieces to the crate's instruction decoders (P:) and to the real
/// Encoder::on_decoder_recv (R:) of an encoder that has encoded the given sections
fn run_qpd(cap: usize, blocked: usize, eops: &str, bytes: &[u8], cuts: &str) -> String {
    let mut enc = match VEncoder::new(cap, blocked) {
        Ok(e) => e,
        Err(_) => return "init-err".to_string(),
    };
    if eops != "-" {
        for op in eops.split(',').filter(|o| !o.is_empty()) {
            let rest = &op[1..];
            let i = rest.find(':').unwrap();
            let sid: u64 = rest[..i].parse().unwrap();
            let fs: Fields = rest[i + 1..]
                .split('.')
                .filter(|f| !f.is_empty())
                .map(|f| {
                    let k = f.find('=').unwrap();
                    (unhx(&f[..k]), unhx(&f[k + 1..]))
                })
                .collect();
            if catch_unwind(AssertUnwindSafe(|| enc.encode(sid, &fs).is_ok())).unwrap_or(false) == false {
                return "setup-err".to_string();
            }
        }
    }
    let mut tail: Vec<u8> = Vec::new();
    let mut out: Vec<String> = vec![format!("S:{}", estate(&enc.snapshot()))];
    let mut head = "ok";
    for c in chunks_of(bytes, cuts) {
        let mut buf = tail.clone();
        buf.extend_from_slice(&c);
        let r = catch_unwind(AssertUnwindSafe(|| -> (String, Option<usize>) {
            let p = match parse_decoder_stream(&buf) {
                Ok(v) => format!(
                    "P:{}:{}",
                    joinor(";", v.iter().map(|(i, _)| dinstrstr(i)).collect()),
                    v.iter().map(|(_, n)| n).sum::<usize>()
                ),
                Err(x) => format!("P:err:{}", pcode(&x)),
            };
            let (r, consumed) = enc.on_decoder_recv(&buf);
            match r {
                Ok(()) => (format!("{}/R:ok:{}:{}", p, consumed, estate(&enc.snapshot())), Some(consumed)),
                Err(x) => (format!("{}/R:err:{}:{}", p, pcode(&x), estate(&enc.snapshot())), None),
            }
        }));
        match r {
            Ok((w, Some(consumed))) => {
                out.push(w);
                tail = buf[consumed.min(buf.len())..].to_vec();
            }
            Ok((w, None)) => {
                out.push(w);
                head = "err";
                break;
            }
            Err(_) => {
                out.push("panic".to_string());
                head = "panic";
                break;
            }
        }
    }
    format!("{} {}", head, out.join(" "))
}

fn main() {
    run_lines(|ws| match ws {
        ["qs" | "qz" | "qx" | "qc", cap, blocked, ops] => run_qs(cap.parse().unwrap(), blocked.parse().unwrap(), ops),
        ["qp.e", cap, h, cuts] => run_qpe(cap.parse().unwrap(), &unhex(h), cuts),
        ["qp.d", cap, blocked, eops, h, cuts] => {
            run_qpd(cap.parse().unwrap(), blocked.parse().unwrap(), eops, &unhex(h), cuts)
        }
        ["hp.new", r, b, t, m] => {
            let (e, s, d) = header_prefix_new(
                r.parse().unwrap(),
                b.parse().unwrap(),
                t.parse().unwrap(),
                m.parse().unwrap(),
            );
            format!("ok {} {} {}", e, s as u8, d)
        }
        ["hp.get", e, s, d, t, m] => {
            match header_prefix_get(
                e.parse().unwrap(),
                *s == "1",
                d.parse().unwrap(),
                t.parse().unwrap(),
                m.parse().unwrap(),
            ) {
                Ok((r, b)) => format!("ok {} {}", r, b),
                Err(x) => format!("err {}", code(&x)),
            }
        }
        _ => "driver-error unknown-case".into(),
    });
}
