//! C10: the field-section size limit at the six sites, on the REAL server / client over SimQuic (scripted peer).
//!
//! `lim.adv <srv|cli> <L>` -> `adv=<MAX_FIELD_SECTION_SIZE in the SETTINGS frame h3 wrote|->`
//! kinds of lim.rx: hdr | trl, then any of .split .clone0 .clone1 .nodata .pend .chunks .second (see struct Flags); P tokens may end in
//! @f @m @l @c: realistic SETTINGS with companion parameters, MAX_FIELD_SECTION_SIZE first / middle / last / absent
//! `lim.rx <srv|cli> <hdr|trl> <L> <P|-|none> <section-hex>`
//!     the endpoint is configured with max_field_section_size = L; the peer's control stream carries SETTINGS with
//!     MAX_FIELD_SECTION_SIZE = P (`-`: SETTINGS without that parameter, `none`: no SETTINGS at all); the peer then sends a
//!     HEADERS frame with that field section as request / response (`hdr`) or, after a minimal valid message, as trailers (`trl`).
//!     -> `res=<ok|err:<scope:code:variant>> tx=<payload of the HEADERS frame h3 wrote on that stream|-> log=<stop/reset/close entries|->`
//! `lim.tx <srv|cli> <own> <P|-> <ops>`   ops (comma separated):
//!     S      the peer's control stream with SETTINGS (MAX_FIELD_SECTION_SIZE = P, or without it for `-`) arrives and is processed
//!     H<k>   send_request / send_response whose field section has size exactly k
//!     T<k>   send_trailers of size exactly k on the last message stream
//!     -> one token per op: `S` | `H:ok:<payload>` | `H:err:<scope:code:variant>:<written payload|->` (same for T; `T:nostream`)
//! roles of lim.tx: cli | cli.clone0 | cli.clone1 | cli.split | cli.clone1.split | srv | srv.split (requests through a clone of SendRequest taken
//!     before any SETTINGS / right after S; trailers resp. response and trailers on the SEND half of split()); lim.txw: cli | cli.clone0
//! `lim.txw cli <own> <P|-> <k>`   back-pressure: send_request (size k) is started while the peer grants NO bidirectional stream
//!     credit, so the call parks in poll_open_bidi; the peer's SETTINGS then arrive and are processed by the driver; only then
//!     is credit granted.  -> `ok W:ok:<payload>` | `ok W:err:<scope:code:variant>:<written|->`
//! `site.enc <cli.req|cli.trl|srv.resp|srv.trl> <fields>`  the regular fields (name:value hex, comma separated) are sent as the header map of a
//!     GET https://a/ request / a 200 response / trailers through the REAL send site -> `ok <payload of the HEADERS frame written>`
//! (k is reached with one extra field `x: vvv..`; request base 167 = GET https://a/, response base 42 = 200, trailers base 0)
use bytes::Bytes;
use h3v::simquic::*;
use h3v::{hex, run_lines, unhex};
use std::cell::Cell;
use std::future::{poll_fn, Future};
use std::pin::Pin;
use std::rc::Rc;
use std::task::Poll;

const MIN_REQUEST: &str = "0000d1d7500161c1"; // :method GET, :scheme https, :authority a, :path /   (size 167)
const MIN_RESPONSE: &str = "0000d9"; // :status 200  (size 42)
const REQ_BASE: u64 = 167;
const RESP_BASE: u64 = 42;

fn varint(v: u64) -> Vec<u8> {
    if v < 1 << 6 {
        vec![v as u8]
    } else if v < 1 << 14 {
        ((v as u16) | 0x4000).to_be_bytes().to_vec()
    } else if v < 1 << 30 {
        ((v as u32) | 0x8000_0000).to_be_bytes().to_vec()
    } else {
        (v | 0xc000_0000_0000_0000).to_be_bytes().to_vec()
    }
}

fn frame(ty: u64, payload: &[u8]) -> Vec<u8> {
    let mut f = varint(ty);
    f.extend(varint(payload.len() as u64));
    f.extend_from_slice(payload);
    f
}

/// the peer's control stream for a P token: `none` (no SETTINGS at all) | `-` | `<n>`, optionally `@f`/`@m`/`@l`/`@c`:
/// the frame also carries QPACK_MAX_TABLE_CAPACITY, QPACK_BLOCKED_STREAMS, H3_DATAGRAM, ENABLE_CONNECT_PROTOCOL and a grease
/// parameter, with MAX_FIELD_SECTION_SIZE first / in the middle / last (`@c`: companions only)
fn parse_peer(s: &str) -> Option<Vec<u8>> {
    if s == "none" {
        return None;
    }
    let (v, layout) = match s.split_once('@') {
        Some((v, l)) => (v, l),
        None => (s, ""),
    };
    let p: Option<u64> = if v == "-" { None } else { Some(v.parse().unwrap()) };
    Some(control_stream_layout(p, layout))
}

fn control_stream_bytes(p: Option<u64>) -> Vec<u8> {
    control_stream_layout(p, "")
}

fn control_stream_layout(p: Option<u64>, layout: &str) -> Vec<u8> {
    let companions: Vec<(u64, u64)> = if layout.is_empty() {
        vec![]
    } else {
        vec![(0x01, 0), (0x07, 0), (0x33, 1), (0x08, 1), (0x1f * 3 + 0x21, 5)]
    };
    // layout u: the limit comes after twelve legal unknown / reserved-for-grease / extension entries (they take no
    // slot in h3's own list and must not count against any bound on what a peer may send)
    let companions: Vec<(u64, u64)> = if layout == "u" {
        (0..12u64).map(|k| if k % 3 == 0 { (0x1f * (k + 7) + 0x21, k) } else { (0x4d44 + k, 1 << (k % 30)) }).collect()
    } else {
        companions
    };
    let mut params: Vec<(u64, u64)> = companions.clone();
    if let Some(v) = p {
        let at = match layout {
            "f" | "" => 0,
            "m" => companions.len() / 2,
            _ => companions.len(),
        };
        params.insert(at, (6, v));
    }
    let mut payload = Vec::new();
    for (id, v) in params {
        payload.extend(varint(id));
        payload.extend(varint(v));
    }
    let mut b = vec![0u8]; // stream type: control
    b.extend(frame(4, &payload));
    b
}

/// the value of MAX_FIELD_SECTION_SIZE in the SETTINGS frame h3 itself wrote on its control stream
fn advertised(w: &Shared) -> String {
    let g = w.lock().unwrap();
    for (id, s) in g.streams.iter() {
        if !s.local || id & 2 == 0 || s.tx.first() != Some(&0u8) {
            continue;
        }
        let b = &s.tx[..];
        let mut pos = 1;
        if read_varint(b, &mut pos) != Some(4) {
            return "?no-settings-first".into();
        }
        let len = match read_varint(b, &mut pos) {
            Some(l) => l as usize,
            None => return "?".into(),
        };
        let end = (pos + len).min(b.len());
        let mut found: Vec<u64> = Vec::new();
        while pos < end {
            let k = read_varint(b, &mut pos);
            let v = read_varint(b, &mut pos);
            match (k, v) {
                (Some(6), Some(v)) => found.push(v),
                (Some(_), Some(_)) => {}
                _ => return "?truncated".into(),
            }
        }
        return match found.as_slice() {
            [] => "-".into(),
            [v] => v.to_string(),
            _ => "?duplicate".into(),
        };
    }
    "?no-control-stream".into()
}

fn read_varint(b: &[u8], pos: &mut usize) -> Option<u64> {
    let first = *b.get(*pos)?;
    let n = 1usize << (first >> 6);
    if *pos + n > b.len() {
        return None;
    }
    let mut v = (first & 0x3f) as u64;
    for i in 1..n {
        v = (v << 8) | b[*pos + i] as u64;
    }
    *pos += n;
    Some(v)
}

/// payload of the single HEADERS frame in `b` (frames of other types - grease - are skipped); `-` when no HEADERS frame was
/// written; `?..` otherwise
fn headers_payload(b: &[u8]) -> String {
    let mut pos = 0;
    let mut found: Vec<Vec<u8>> = Vec::new();
    while pos < b.len() {
        let ty = read_varint(b, &mut pos);
        let len = read_varint(b, &mut pos);
        match (ty, len) {
            (Some(t), Some(l)) if pos + l as usize <= b.len() => {
                if t == 1 {
                    found.push(b[pos..pos + l as usize].to_vec());
                } else if t < 0x21 || (t - 0x21) % 0x1f != 0 {
                    return format!("?{}", hex(b));
                }
                pos += l as usize;
            }
            _ => return format!("?{}", hex(b)),
        }
    }
    match found.len() {
        0 => "-".into(),
        1 => {
            if found[0].is_empty() {
                "e".into()
            } else {
                hex(&found[0])
            }
        }
        _ => format!("?{}", hex(b)),
    }
}

fn log_of(w: &Shared, id: u64) -> String {
    let g = w.lock().unwrap();
    let mut v = Vec::new();
    for l in g.log.iter() {
        let ws: Vec<&str> = l.split_whitespace().collect();
        match ws.as_slice() {
            ["stop", i, c] | ["reset", i, c] if i.parse::<u64>() == Ok(id) => v.push(format!("{}:{}", ws[0], c)),
            ["close", c, ..] => v.push(format!("close:{}", c)),
            _ => {}
        }
    }
    if v.is_empty() {
        "-".into()
    } else {
        v.join(";")
    }
}

async fn cancellable<F: Future>(f: F, cancel: &Rc<Cell<bool>>) -> Option<F::Output> {
    let mut f: Pin<Box<F>> = Box::pin(f);
    poll_fn(|cx| {
        if let Poll::Ready(x) = f.as_mut().poll(cx) {
            return Poll::Ready(Some(x));
        }
        if cancel.get() {
            cancel.set(false);
            return Poll::Ready(None);
        }
        Poll::Pending
    })
    .await
}

async fn poll_once<F: Future>(f: F) -> Option<F::Output> {
    let mut f: Pin<Box<F>> = Box::pin(f);
    poll_fn(|cx| match f.as_mut().poll(cx) {
        Poll::Ready(x) => Poll::Ready(Some(x)),
        Poll::Pending => Poll::Ready(None),
    })
    .await
}

fn ev(w: &Shared, e: String) {
    assert!(apply_event(w, &e), "event {}", e);
}

fn chunk_ev(w: &Shared, id: u64, b: &[u8]) {
    if !b.is_empty() {
        ev(w, format!("{}:c:{}", id, hex(b)));
    }
}

fn value_for(k: u64, base: u64) -> Option<String> {
    if k == base {
        None
    } else {
        assert!(k >= base + 33, "driver: size {} not reachable from base {}", k, base);
        Some("v".repeat((k - base - 33) as usize))
    }
}

/// SimOpener is not Clone (harness/src/simquic.rs is shared); SendRequest::clone needs a cloneable opener: thin delegating wrappers
struct CConn(SimConn);
#[derive(Clone)]
struct COpener {
    world: Shared,
}
impl h3::quic::OpenStreams<Bytes> for COpener {
    type BidiStream = SimBidi<Bytes>;
    type SendStream = SimSend<Bytes>;
    fn poll_open_bidi(&mut self, cx: &mut std::task::Context<'_>) -> Poll<Result<Self::BidiStream, h3::quic::StreamErrorIncoming>> {
        let mut o = SimOpener { world: self.world.clone() };
        <SimOpener as h3::quic::OpenStreams<Bytes>>::poll_open_bidi(&mut o, cx)
    }
    fn poll_open_send(&mut self, cx: &mut std::task::Context<'_>) -> Poll<Result<Self::SendStream, h3::quic::StreamErrorIncoming>> {
        let mut o = SimOpener { world: self.world.clone() };
        <SimOpener as h3::quic::OpenStreams<Bytes>>::poll_open_send(&mut o, cx)
    }
    fn close(&mut self, code: h3::error::Code, reason: &[u8]) {
        let mut o = SimOpener { world: self.world.clone() };
        <SimOpener as h3::quic::OpenStreams<Bytes>>::close(&mut o, code, reason)
    }
}
impl h3::quic::OpenStreams<Bytes> for CConn {
    type BidiStream = SimBidi<Bytes>;
    type SendStream = SimSend<Bytes>;
    fn poll_open_bidi(&mut self, cx: &mut std::task::Context<'_>) -> Poll<Result<Self::BidiStream, h3::quic::StreamErrorIncoming>> {
        <SimConn as h3::quic::OpenStreams<Bytes>>::poll_open_bidi(&mut self.0, cx)
    }
    fn poll_open_send(&mut self, cx: &mut std::task::Context<'_>) -> Poll<Result<Self::SendStream, h3::quic::StreamErrorIncoming>> {
        <SimConn as h3::quic::OpenStreams<Bytes>>::poll_open_send(&mut self.0, cx)
    }
    fn close(&mut self, code: h3::error::Code, reason: &[u8]) {
        <SimConn as h3::quic::OpenStreams<Bytes>>::close(&mut self.0, code, reason)
    }
}
impl h3::quic::Connection<Bytes> for CConn {
    type RecvStream = SimRecv;
    type OpenStreams = COpener;
    fn poll_accept_recv(&mut self, cx: &mut std::task::Context<'_>) -> Poll<Result<Self::RecvStream, h3::quic::ConnectionErrorIncoming>> {
        <SimConn as h3::quic::Connection<Bytes>>::poll_accept_recv(&mut self.0, cx)
    }
    fn poll_accept_bidi(&mut self, cx: &mut std::task::Context<'_>) -> Poll<Result<Self::BidiStream, h3::quic::ConnectionErrorIncoming>> {
        <SimConn as h3::quic::Connection<Bytes>>::poll_accept_bidi(&mut self.0, cx)
    }
    fn opener(&self) -> Self::OpenStreams {
        COpener { world: self.0.world.clone() }
    }
}

type SrvStream = h3::server::RequestStream<SimBidi<Bytes>, Bytes>;
type CliStream = h3::client::RequestStream<SimBidi<Bytes>, Bytes>;

// ------------------------------------------------------------------ receive side

#[derive(Clone, Copy, Default)]
struct Flags {
    trl: bool,
    split: bool,   // the stream is split() and the RECEIVE half is used
    clone0: bool,  // client: the request is sent through a clone of SendRequest taken BEFORE the peer's SETTINGS
    clone1: bool,  // ... taken AFTER the peer's SETTINGS were stored
    nodata: bool,  // trailers are asked for without a recv_data call first
    pend: bool,    // recv_trailers is first polled before the FIN has arrived (Pending: "save the trailers")
    chunks: bool,  // the HEADERS frame arrives in several chunks
    second: bool,  // the message under test travels on the second request stream of the connection
    data: bool,    // a DATA frame sits between the first HEADERS and the trailers (recv_data yields it first)
    after: bool,   // after the outcome, one more minimal message is exchanged on the next stream: `next=<outcome>`
    pchunk: bool,  // the peer's control stream (SETTINGS) arrives one octet at a time
    grease: bool,  // the endpoint is built with send_grease(true) (the default) instead of false
}

fn parse_flags(kind: &str) -> Flags {
    let mut f = Flags::default();
    for (i, t) in kind.split('.').enumerate() {
        match (i, t) {
            (0, "hdr") => {}
            (0, "trl") => f.trl = true,
            (_, "split") => f.split = true,
            (_, "clone0") => f.clone0 = true,
            (_, "clone1") => f.clone1 = true,
            (_, "nodata") => f.nodata = true,
            (_, "pend") => f.pend = true,
            (_, "chunks") => f.chunks = true,
            (_, "second") => f.second = true,
            (_, "data") => f.data = true,
            (_, "after") => f.after = true,
            (_, "pchunk") => f.pchunk = true,
            (_, "grease") => f.grease = true,
            _ => panic!("driver: kind {}", kind),
        }
    }
    f
}

fn deliver_control(w: &Shared, id: u64, bytes: &[u8], one_by_one: bool) {
    if one_by_one {
        for b in bytes {
            chunk_ev(w, id, &[*b]);
        }
    } else {
        chunk_ev(w, id, bytes);
    }
}

fn deliver(w: &Shared, id: u64, bytes: &[u8], chunks: bool) {
    if chunks && bytes.len() >= 3 {
        let m = 1 + (bytes.len() - 1) / 2;
        chunk_ev(w, id, &bytes[..1]);
        chunk_ev(w, id, &bytes[1..m]);
        chunk_ev(w, id, &bytes[m..]);
    } else {
        chunk_ev(w, id, bytes);
    }
}

/// the part after the first HEADERS: `recv_data` (unless nodata) then `recv_trailers`, with the FIN before or after the first poll
macro_rules! read_trailers {
    ($s:expr, $fl:expr, $w:expr, $id:expr, $cancel:expr) => {{
        let mut verdict: Option<String> = None;
        if !$fl.nodata {
            let mut pieces = 0;
            loop {
                match cancellable($s.recv_data(), &$cancel).await {
                    Some(Ok(None)) => break,
                    Some(Ok(Some(_))) => {
                        pieces += 1;
                        if !$fl.data || pieces > 8 {
                            verdict = Some("unexpected-data".into());
                            break;
                        }
                    }
                    Some(Err(e)) => {
                        verdict = Some(format!("data-err:{}", stream_err(&e)));
                        break;
                    }
                    None => {
                        verdict = Some("hang".into());
                        break;
                    }
                }
            }
        }
        match verdict {
            Some(v) => v,
            None => {
                let r = if $fl.pend {
                    let mut fut = Box::pin($s.recv_trailers());
                    let first = poll_fn(|cx| match fut.as_mut().poll(cx) {
                        Poll::Ready(x) => Poll::Ready(Some(x)),
                        Poll::Pending => Poll::Ready(None),
                    })
                    .await;
                    match first {
                        Some(r) => Some(r),
                        None => {
                            ev(&$w, format!("{}:F", $id));
                            cancellable(fut, &$cancel).await
                        }
                    }
                } else {
                    cancellable($s.recv_trailers(), &$cancel).await
                };
                match r {
                    Some(Ok(Some(_))) => "ok".to_string(),
                    Some(Ok(None)) => "none".to_string(),
                    Some(Err(e)) => format!("err:{}", stream_err(&e)),
                    None => "hang".into(),
                }
            }
        }
    }};
}

async fn rx_srv(w: Shared, fl: Flags, l: u64, p: Option<Vec<u8>>, section: Vec<u8>, cancel: Rc<Cell<bool>>) -> String {
    let mut b = h3::server::builder();
    b.send_grease(fl.grease).max_field_section_size(l);
    let mut conn: h3::server::Connection<SimConn, Bytes> = match cancellable(b.build(SimConn { world: w.clone() }), &cancel).await {
        Some(Ok(c)) => c,
        _ => return "build-err".into(),
    };
    if let Some(pp) = p {
        ev(&w, "U2".into());
        deliver_control(&w, 2, &pp, fl.pchunk);
        let _ = poll_once(conn.accept()).await;
    }
    let mut id = 0u64;
    if fl.second {
        // a complete first exchange on stream 0 (only when the minimal request fits)
        ev(&w, "B0".into());
        chunk_ev(&w, 0, &frame(1, &unhex(MIN_REQUEST)));
        ev(&w, "0:F".into());
        if let Some(Ok(Some(resolver))) = cancellable(conn.accept(), &cancel).await {
            if let Some(Ok((_r, s0))) = cancellable(resolver.resolve_request(), &cancel).await {
                std::mem::forget(s0);
            }
        }
        id = 4;
    }
    ev(&w, format!("B{}", id));
    if fl.trl {
        chunk_ev(&w, id, &frame(1, &unhex(MIN_REQUEST)));
        if fl.data {
            chunk_ev(&w, id, &frame(0, b"xy"));
        }
    }
    deliver(&w, id, &frame(1, &section), fl.chunks);
    if !fl.pend {
        ev(&w, format!("{}:F", id));
    }
    let res = match cancellable(conn.accept(), &cancel).await {
        Some(Ok(Some(resolver))) => match cancellable(resolver.resolve_request(), &cancel).await {
            Some(Ok((_req, mut s))) => {
                if !fl.trl {
                    std::mem::forget(s);
                    "ok".to_string()
                } else if fl.split {
                    let (send, mut recv) = s.split();
                    let r = read_trailers!(recv, fl, w, id, cancel);
                    std::mem::forget(send);
                    std::mem::forget(recv);
                    r
                } else {
                    let r = read_trailers!(s, fl, w, id, cancel);
                    std::mem::forget(s);
                    r
                }
            }
            Some(Err(e)) => format!("err:{}", stream_err(&e)),
            None => "hang".into(),
        },
        Some(Ok(None)) => "accept-none".into(),
        Some(Err(e)) => format!("err:{}", conn_err(&e)),
        None => "hang".into(),
    };
    let mut res = res;
    if fl.after {
        let nid = id + 4;
        ev(&w, format!("B{}", nid));
        chunk_ev(&w, nid, &frame(1, &unhex(MIN_REQUEST)));
        ev(&w, format!("{}:F", nid));
        let next = match cancellable(conn.accept(), &cancel).await {
            Some(Ok(Some(resolver))) => match cancellable(resolver.resolve_request(), &cancel).await {
                Some(Ok((_r, s2))) => {
                    std::mem::forget(s2);
                    "ok".to_string()
                }
                Some(Err(e)) => format!("err:{}", stream_err(&e)),
                None => "hang".into(),
            },
            Some(Ok(None)) => "accept-none".into(),
            Some(Err(e)) => format!("err:{}", conn_err(&e)),
            None => "hang".into(),
        };
        res = format!("{} next={}", res, next);
    }
    // let the connection driver act on what the stream reported (a connection error is closed there)
    let _ = poll_once(conn.accept()).await;
    std::mem::forget(conn);
    format!("{} id={}", res, id)
}

async fn rx_cli(w: Shared, fl: Flags, l: u64, p: Option<Vec<u8>>, section: Vec<u8>, cancel: Rc<Cell<bool>>) -> String {
    let mut b = h3::client::builder();
    b.send_grease(fl.grease).max_field_section_size(l);
    let (mut conn, mut sr): (h3::client::Connection<CConn, Bytes>, h3::client::SendRequest<COpener, Bytes>) =
        match cancellable(b.build(CConn(SimConn { world: w.clone() })), &cancel).await {
            Some(Ok(c)) => c,
            _ => return "build-err".into(),
        };
    let early_clone = if fl.clone0 { Some(sr.clone()) } else { None };
    if let Some(pp) = p {
        ev(&w, "U3".into());
        deliver_control(&w, 3, &pp, fl.pchunk);
        let _ = poll_once(poll_fn(|cx| conn.poll_close(cx))).await;
    }
    let mut sender = match early_clone {
        Some(c) => c,
        None if fl.clone1 => sr.clone(),
        None => sr.clone(),
    };
    // (the primary handle is used unless a clone flag is given)
    let use_primary = !(fl.clone0 || fl.clone1);
    if fl.second {
        let req = http::Request::builder().method("GET").uri("https://a/").body(()).unwrap();
        if let Some(Ok(mut s0)) = cancellable(sr.send_request(req), &cancel).await {
            let _ = cancellable(s0.finish(), &cancel).await;
            let id0 = s0.id().into_inner();
            chunk_ev(&w, id0, &frame(1, &unhex(MIN_RESPONSE)));
            ev(&w, format!("{}:F", id0));
            let _ = cancellable(s0.recv_response(), &cancel).await;
            std::mem::forget(s0);
        }
    }
    let req = http::Request::builder().method("GET").uri("https://a/").body(()).unwrap();
    let sent = if use_primary {
        cancellable(sr.send_request(req), &cancel).await
    } else {
        cancellable(sender.send_request(req), &cancel).await
    };
    let mut s: CliStream = match sent {
        Some(Ok(s)) => s,
        Some(Err(e)) => return format!("send-err:{} id=0", stream_err(&e)),
        None => return "hang id=0".into(),
    };
    let _ = cancellable(s.finish(), &cancel).await;
    let id = s.id().into_inner();
    if fl.trl {
        chunk_ev(&w, id, &frame(1, &unhex(MIN_RESPONSE)));
        if fl.data {
            chunk_ev(&w, id, &frame(0, b"xy"));
        }
    }
    deliver(&w, id, &frame(1, &section), fl.chunks);
    if !(fl.trl && fl.pend) {
        ev(&w, format!("{}:F", id));
    }
    macro_rules! tail {
        ($st:expr) => {{
            match cancellable($st.recv_response(), &cancel).await {
                Some(Ok(_)) => {
                    if fl.trl {
                        read_trailers!($st, fl, w, id, cancel)
                    } else {
                        "ok".to_string()
                    }
                }
                Some(Err(e)) => format!("err:{}", stream_err(&e)),
                None => "hang".into(),
            }
        }};
    }
    let res = if fl.split {
        let (send, mut recv) = s.split();
        let r = tail!(recv);
        std::mem::forget(send);
        std::mem::forget(recv);
        r
    } else {
        let r = tail!(s);
        std::mem::forget(s);
        r
    };
    let mut res = res;
    if fl.after {
        let req = http::Request::builder().method("GET").uri("https://a/").body(()).unwrap();
        let next = match cancellable(sr.send_request(req), &cancel).await {
            Some(Ok(mut s2)) => {
                let _ = cancellable(s2.finish(), &cancel).await;
                let id2 = s2.id().into_inner();
                chunk_ev(&w, id2, &frame(1, &unhex(MIN_RESPONSE)));
                ev(&w, format!("{}:F", id2));
                let r = match cancellable(s2.recv_response(), &cancel).await {
                    Some(Ok(_)) => "ok".to_string(),
                    Some(Err(e)) => format!("err:{}", stream_err(&e)),
                    None => "hang".into(),
                };
                std::mem::forget(s2);
                r
            }
            Some(Err(e)) => format!("send-err:{}", stream_err(&e)),
            None => "hang".into(),
        };
        res = format!("{} next={}", res, next);
    }
    let _ = poll_once(poll_fn(|cx| conn.poll_close(cx))).await;
    std::mem::forget(conn);
    std::mem::forget(sr);
    std::mem::forget(sender);
    format!("{} id={}", res, id)
}

// ------------------------------------------------------------------ send side

fn tx_len(w: &Shared, id: u64) -> usize {
    w.lock().unwrap().streams.get(&id).map(|s| s.tx.len()).unwrap_or(0)
}

fn tx_since(w: &Shared, id: u64, from: usize) -> String {
    let g = w.lock().unwrap();
    match g.streams.get(&id) {
        Some(s) => headers_payload(&s.tx[from.min(s.tx.len())..]),
        None => "-".into(),
    }
}

fn trailers_map(k: u64) -> http::HeaderMap {
    let mut m = http::HeaderMap::new();
    if let Some(v) = value_for(k, 0) {
        m.insert("x", http::HeaderValue::from_str(&v).unwrap());
    }
    m
}

async fn tx_srv(w: Shared, var: String, own: u64, p: Vec<u8>, ops: Vec<String>, cancel: Rc<Cell<bool>>) -> String {
    if var.contains("split") {
        return tx_srv_split(w, own, p, ops, cancel).await;
    }
    let mut b = h3::server::builder();
    b.send_grease(false).max_field_section_size(own);
    let mut conn: h3::server::Connection<SimConn, Bytes> = match cancellable(b.build(SimConn { world: w.clone() }), &cancel).await {
        Some(Ok(c)) => c,
        _ => return "build-err".into(),
    };
    // the request the responses belong to arrives first (before any SETTINGS of the peer)
    ev(&w, "B0".into());
    chunk_ev(&w, 0, &frame(1, &unhex(MIN_REQUEST)));
    ev(&w, "0:F".into());
    let mut s: SrvStream = match cancellable(conn.accept(), &cancel).await {
        Some(Ok(Some(resolver))) => match cancellable(resolver.resolve_request(), &cancel).await {
            Some(Ok((_r, s))) => s,
            Some(Err(e)) => return format!("resolve-err:{}", stream_err(&e)),
            None => return "hang".into(),
        },
        _ => return "accept-failed".into(),
    };
    let mut out: Vec<String> = Vec::new();
    for op in ops.iter() {
        let before = tx_len(&w, 0);
        match &op[..1] {
            "S" => {
                ev(&w, "U2".into());
                chunk_ev(&w, 2, &p);
                let _ = poll_once(conn.accept()).await;
                out.push("S".into());
            }
            "H" => {
                let k: u64 = op[1..].parse().unwrap();
                let mut rb = http::Response::builder().status(200);
                if let Some(v) = value_for(k, RESP_BASE) {
                    rb = rb.header("x", v);
                }
                match cancellable(s.send_response(rb.body(()).unwrap()), &cancel).await {
                    Some(Ok(())) => out.push(format!("H:ok:{}", tx_since(&w, 0, before))),
                    Some(Err(e)) => out.push(format!("H:err:{}:{}", stream_err(&e), tx_since(&w, 0, before))),
                    None => out.push("H:hang".into()),
                }
            }
            "T" => {
                let k: u64 = op[1..].parse().unwrap();
                match cancellable(s.send_trailers(trailers_map(k)), &cancel).await {
                    Some(Ok(())) => out.push(format!("T:ok:{}", tx_since(&w, 0, before))),
                    Some(Err(e)) => out.push(format!("T:err:{}:{}", stream_err(&e), tx_since(&w, 0, before))),
                    None => out.push("T:hang".into()),
                }
            }
            _ => out.push("?".into()),
        }
    }
    std::mem::forget(s);
    std::mem::forget(conn);
    out.join(" ")
}

async fn tx_srv_split(w: Shared, own: u64, p: Vec<u8>, ops: Vec<String>, cancel: Rc<Cell<bool>>) -> String {
    let mut b = h3::server::builder();
    b.send_grease(false).max_field_section_size(own);
    let mut conn: h3::server::Connection<SimConn, Bytes> = match cancellable(b.build(SimConn { world: w.clone() }), &cancel).await {
        Some(Ok(c)) => c,
        _ => return "build-err".into(),
    };
    // the request the responses belong to arrives first (before any SETTINGS of the peer)
    ev(&w, "B0".into());
    chunk_ev(&w, 0, &frame(1, &unhex(MIN_REQUEST)));
    ev(&w, "0:F".into());
    let s: SrvStream = match cancellable(conn.accept(), &cancel).await {
        Some(Ok(Some(resolver))) => match cancellable(resolver.resolve_request(), &cancel).await {
            Some(Ok((_r, s))) => s,
            Some(Err(e)) => return format!("resolve-err:{}", stream_err(&e)),
            None => return "hang".into(),
        },
        _ => return "accept-failed".into(),
    };
    // everything is sent on the SEND half of split()
    let (mut s, recv_half) = s.split();
    std::mem::forget(recv_half);
    let mut out: Vec<String> = Vec::new();
    for op in ops.iter() {
        let before = tx_len(&w, 0);
        match &op[..1] {
            "S" => {
                ev(&w, "U2".into());
                chunk_ev(&w, 2, &p);
                let _ = poll_once(conn.accept()).await;
                out.push("S".into());
            }
            "H" => {
                let k: u64 = op[1..].parse().unwrap();
                let mut rb = http::Response::builder().status(200);
                if let Some(v) = value_for(k, RESP_BASE) {
                    rb = rb.header("x", v);
                }
                match cancellable(s.send_response(rb.body(()).unwrap()), &cancel).await {
                    Some(Ok(())) => out.push(format!("H:ok:{}", tx_since(&w, 0, before))),
                    Some(Err(e)) => out.push(format!("H:err:{}:{}", stream_err(&e), tx_since(&w, 0, before))),
                    None => out.push("H:hang".into()),
                }
            }
            "T" => {
                let k: u64 = op[1..].parse().unwrap();
                match cancellable(s.send_trailers(trailers_map(k)), &cancel).await {
                    Some(Ok(())) => out.push(format!("T:ok:{}", tx_since(&w, 0, before))),
                    Some(Err(e)) => out.push(format!("T:err:{}:{}", stream_err(&e), tx_since(&w, 0, before))),
                    None => out.push("T:hang".into()),
                }
            }
            _ => out.push("?".into()),
        }
    }
    std::mem::forget(s);
    std::mem::forget(conn);
    out.join(" ")
}

async fn tx_cli(w: Shared, var: String, own: u64, p: Vec<u8>, ops: Vec<String>, cancel: Rc<Cell<bool>>) -> String {
    let (clone0, clone1, split) = (var.contains("clone0"), var.contains("clone1"), var.contains("split"));
    let mut b = h3::client::builder();
    b.send_grease(false).max_field_section_size(own);
    let (mut conn, mut sr): (h3::client::Connection<SimConn, Bytes>, h3::client::SendRequest<SimOpener, Bytes>) =
        match cancellable(b.build(SimConn { world: w.clone() }), &cancel).await {
            Some(Ok(c)) => c,
            _ => return "build-err".into(),
        };
    let mut cur: Option<CliStream> = None;
    let mut cur_send: Option<(u64, h3::client::RequestStream<SimSend<Bytes>, Bytes>)> = None;
    let mut old: Vec<CliStream> = Vec::new();
    let mut out: Vec<String> = Vec::new();
    // the handle requests go through: the primary SendRequest, or a clone taken before any SETTINGS / right after they were stored
    let mut via: Option<h3::client::SendRequest<SimOpener, Bytes>> = if clone0 { Some(sr.clone()) } else { None };
    for op in ops.iter() {
        match &op[..1] {
            "S" => {
                ev(&w, "U3".into());
                chunk_ev(&w, 3, &p);
                let _ = poll_once(poll_fn(|cx| conn.poll_close(cx))).await;
                if clone1 && via.is_none() {
                    via = Some(sr.clone());
                }
                out.push("S".into());
            }
            "H" => {
                let k: u64 = op[1..].parse().unwrap();
                let mut rb = http::Request::builder().method("GET").uri("https://a/");
                if let Some(v) = value_for(k, REQ_BASE) {
                    rb = rb.header("x", v);
                }
                // the stream this request will use is the next locally opened bidi stream
                let known: Vec<u64> = w.lock().unwrap().streams.keys().cloned().collect();
                let r = match via.as_mut() {
                    Some(c) => cancellable(c.send_request(rb.body(()).unwrap()), &cancel).await,
                    None => cancellable(sr.send_request(rb.body(()).unwrap()), &cancel).await,
                };
                let newid: Option<u64> = {
                    let g = w.lock().unwrap();
                    g.streams.keys().cloned().find(|i| !known.contains(i) && i & 3 == 0)
                };
                let written = match newid {
                    Some(i) => tx_since(&w, i, 0),
                    None => "-".into(),
                };
                match r {
                    Some(Ok(s)) => {
                        if let Some(o) = cur.take() {
                            old.push(o);
                        }
                        if let Some((_, o)) = cur_send.take() {
                            std::mem::forget(o);
                        }
                        if split {
                            let id = s.id().into_inner();
                            let (send, recv) = s.split();
                            std::mem::forget(recv);
                            cur_send = Some((id, send));
                        } else {
                            cur = Some(s);
                        }
                        out.push(format!("H:ok:{}", written));
                    }
                    Some(Err(e)) => out.push(format!("H:err:{}:{}", stream_err(&e), written)),
                    None => out.push("H:hang".into()),
                }
            }
            "T" => {
                let k: u64 = op[1..].parse().unwrap();
                if let Some((id, s)) = cur_send.as_mut() {
                    let id = *id;
                    let before = tx_len(&w, id);
                    match cancellable(s.send_trailers(trailers_map(k)), &cancel).await {
                        Some(Ok(())) => out.push(format!("T:ok:{}", tx_since(&w, id, before))),
                        Some(Err(e)) => out.push(format!("T:err:{}:{}", stream_err(&e), tx_since(&w, id, before))),
                        None => out.push("T:hang".into()),
                    }
                    continue;
                }
                match cur.as_mut() {
                    None => out.push("T:nostream".into()),
                    Some(s) => {
                        let id = s.id().into_inner();
                        let before = tx_len(&w, id);
                        match cancellable(s.send_trailers(trailers_map(k)), &cancel).await {
                            Some(Ok(())) => out.push(format!("T:ok:{}", tx_since(&w, id, before))),
                            Some(Err(e)) => out.push(format!("T:err:{}:{}", stream_err(&e), tx_since(&w, id, before))),
                            None => out.push("T:hang".into()),
                        }
                    }
                }
            }
            _ => out.push("?".into()),
        }
    }
    std::mem::forget(cur);
    std::mem::forget(cur_send);
    std::mem::forget(via);
    std::mem::forget(old);
    std::mem::forget(conn);
    std::mem::forget(sr);
    out.join(" ")
}

async fn txw_cli(w: Shared, var: String, own: u64, p: Vec<u8>, k: u64, cancel: Rc<Cell<bool>>) -> String {
    let mut b = h3::client::builder();
    b.send_grease(false).max_field_section_size(own);
    let (mut conn, mut sr): (h3::client::Connection<SimConn, Bytes>, h3::client::SendRequest<SimOpener, Bytes>) =
        match cancellable(b.build(SimConn { world: w.clone() }), &cancel).await {
            Some(Ok(c)) => c,
            _ => return "build-err".into(),
        };
    let mut rb = http::Request::builder().method("GET").uri("https://a/");
    if let Some(v) = value_for(k, REQ_BASE) {
        rb = rb.header("x", v);
    }
    let known: Vec<u64> = w.lock().unwrap().streams.keys().cloned().collect();
    let mut sender = if var.contains("clone0") { sr.clone() } else { sr };
    let mut fut = Box::pin(sender.send_request(rb.body(()).unwrap()));
    // 1. start the call: no stream credit, it must park
    let first = poll_fn(|cx| match fut.as_mut().poll(cx) {
        Poll::Ready(x) => Poll::Ready(Some(x)),
        Poll::Pending => Poll::Ready(None),
    })
    .await;
    let r = match first {
        Some(r) => {
            drop(fut);
            return format!("W:not-parked:{}", if r.is_ok() { "ok" } else { "err" });
        }
        None => {
            // 2. the peer's SETTINGS arrive and the driver stores them
            ev(&w, "U3".into());
            chunk_ev(&w, 3, &p);
            let _ = poll_once(poll_fn(|cx| conn.poll_close(cx))).await;
            // 3. credit for one bidirectional stream
            ev(&w, "H1".into());
            cancellable(fut, &cancel).await
        }
    };
    let newid: Option<u64> = {
        let g = w.lock().unwrap();
        g.streams.keys().cloned().find(|i| !known.contains(i) && i & 3 == 0)
    };
    let written = match newid {
        Some(i) => tx_since(&w, i, 0),
        None => "-".into(),
    };
    let out = match r {
        Some(Ok(s)) => {
            std::mem::forget(s);
            format!("W:ok:{}", written)
        }
        Some(Err(e)) => format!("W:err:{}:{}", stream_err(&e), written),
        None => "W:hang".into(),
    };
    std::mem::forget(conn);
    out
}

// ------------------------------------------------------------------ what the three real send sites write for a given field list

fn header_map(fields: &str) -> http::HeaderMap {
    let mut m = http::HeaderMap::new();
    if fields != "-" {
        for f in fields.split(',') {
            let (n, v) = f.split_once(':').expect("name:value");
            m.append(
                http::header::HeaderName::from_bytes(&unhex(n)).expect("driver: header name"),
                http::HeaderValue::from_bytes(&unhex(v)).expect("driver: header value"),
            );
        }
    }
    m
}

/// site: cli.req | cli.trl | srv.resp | srv.trl ; prints the payload of the HEADERS frame that site wrote
async fn site_enc(w: Shared, site: String, fields: String, cancel: Rc<Cell<bool>>) -> String {
    let map = header_map(&fields);
    if site.starts_with("cli") {
        let mut b = h3::client::builder();
        b.send_grease(false);
        let (conn, mut sr): (h3::client::Connection<SimConn, Bytes>, h3::client::SendRequest<SimOpener, Bytes>) =
            match cancellable(b.build(SimConn { world: w.clone() }), &cancel).await {
                Some(Ok(c)) => c,
                _ => return "build-err".into(),
            };
        let mut req = http::Request::builder().method("GET").uri("https://a/").body(()).unwrap();
        if site == "cli.req" {
            *req.headers_mut() = map.clone();
        }
        let r = cancellable(sr.send_request(req), &cancel).await;
        let out = match r {
            Some(Ok(mut s)) => {
                let id = s.id().into_inner();
                if site == "cli.req" {
                    format!("ok {}", tx_since(&w, id, 0))
                } else {
                    let before = tx_len(&w, id);
                    let r2 = cancellable(s.send_trailers(map), &cancel).await;
                    let o = match r2 {
                        Some(Ok(())) => format!("ok {}", tx_since(&w, id, before)),
                        Some(Err(e)) => format!("err {}", stream_err(&e)),
                        None => "hang".into(),
                    };
                    std::mem::forget(s);
                    o
                }
            }
            Some(Err(e)) => format!("err {}", stream_err(&e)),
            None => "hang".into(),
        };
        std::mem::forget(conn);
        std::mem::forget(sr);
        out
    } else {
        let mut b = h3::server::builder();
        b.send_grease(false);
        let mut conn: h3::server::Connection<SimConn, Bytes> = match cancellable(b.build(SimConn { world: w.clone() }), &cancel).await {
            Some(Ok(c)) => c,
            _ => return "build-err".into(),
        };
        ev(&w, "B0".into());
        chunk_ev(&w, 0, &frame(1, &unhex(MIN_REQUEST)));
        ev(&w, "0:F".into());
        let mut s: SrvStream = match cancellable(conn.accept(), &cancel).await {
            Some(Ok(Some(resolver))) => match cancellable(resolver.resolve_request(), &cancel).await {
                Some(Ok((_r, s))) => s,
                _ => return "resolve-failed".into(),
            },
            _ => return "accept-failed".into(),
        };
        let mut resp = http::Response::builder().status(200).body(()).unwrap();
        if site == "srv.resp" {
            *resp.headers_mut() = map.clone();
        }
        let before = tx_len(&w, 0);
        let mut out = match cancellable(s.send_response(resp), &cancel).await {
            Some(Ok(())) => format!("ok {}", tx_since(&w, 0, before)),
            Some(Err(e)) => format!("err {}", stream_err(&e)),
            None => "hang".into(),
        };
        if site == "srv.trl" {
            let before = tx_len(&w, 0);
            out = match cancellable(s.send_trailers(map), &cancel).await {
                Some(Ok(())) => format!("ok {}", tx_since(&w, 0, before)),
                Some(Err(e)) => format!("err {}", stream_err(&e)),
                None => "hang".into(),
            };
        }
        std::mem::forget(s);
        std::mem::forget(conn);
        out
    }
}

fn drive<F: Future<Output = String> + 'static>(mk: impl FnOnce(Shared, Rc<Cell<bool>>) -> F, side: Side) -> (String, Shared) {
    drive_with(mk, side, 1000)
}

fn drive_with<F: Future<Output = String> + 'static>(mk: impl FnOnce(Shared, Rc<Cell<bool>>) -> F, side: Side, bidi_credit: u64) -> (String, Shared) {
    let w = World::new(side, 1000, bidi_credit, None);
    let cancel = Rc::new(Cell::new(false));
    let mut ex = Exec::new();
    let t = ex.spawn(mk(w.clone(), cancel.clone()));
    let mut rounds = 0;
    loop {
        if !ex.run() {
            return ("livelock".into(), w);
        }
        if ex.done(t) {
            break;
        }
        rounds += 1;
        if rounds > 1000 {
            return ("harness-gave-up".into(), w);
        }
        // the task is pending at quiescence: make the innermost await give up and report `hang`
        cancel.set(true);
        ex.poll(t);
    }
    (ex.result(t).cloned().unwrap_or_default(), w)
}

fn main() {
    run_lines(|ws| match ws {
        ["lim.rx", role, kind, l, p, section] => {
            let l: u64 = l.parse().unwrap();
            let p = parse_peer(p);
            let fl = parse_flags(kind);
            let sec = unhex(section);
            let (res, w) = if *role == "srv" {
                drive(move |w, c| rx_srv(w, fl, l, p, sec, c), Side::Server)
            } else {
                drive(move |w, c| rx_cli(w, fl, l, p, sec, c), Side::Client)
            };
            // the task reports the stream the message under test travelled on
            let (res, id) = match res.rsplit_once(" id=") {
                Some((r, i)) => (r.to_string(), i.parse::<u64>().unwrap_or(0)),
                None => (res.clone(), 0),
            };
            // what h3 wrote on the message stream in reaction (the client's own request is skipped)
            let tx = {
                let g = w.lock().unwrap();
                let all = g.streams.get(&id).map(|s| s.tx.clone()).unwrap_or_default();
                if *role == "cli" {
                    // skip everything up to and including the request's own HEADERS frame
                    let mut pos = 0;
                    loop {
                        let ty = read_varint(&all, &mut pos);
                        let len = read_varint(&all, &mut pos).unwrap_or(0) as usize;
                        pos = (pos + len).min(all.len());
                        if ty == Some(1) || ty.is_none() || pos >= all.len() {
                            break;
                        }
                    }
                    headers_payload(&all[pos..])
                } else {
                    headers_payload(&all)
                }
            };
            format!("res={} tx={} log={}", res, tx, log_of(&w, id))
        }
        // what the endpoint tells its peer: the MAX_FIELD_SECTION_SIZE of its own SETTINGS frame
        ["lim.adv", role, l] => {
            let l: u64 = l.parse().unwrap();
            let (_r, w) = if *role == "srv" {
                drive(
                    move |w, c| async move {
                        let mut b = h3::server::builder();
                        b.send_grease(false).max_field_section_size(l);
                        let conn: Option<Result<h3::server::Connection<SimConn, Bytes>, _>> = cancellable(b.build(SimConn { world: w.clone() }), &c).await;
                        std::mem::forget(conn);
                        String::new()
                    },
                    Side::Server,
                )
            } else {
                drive(
                    move |w, c| async move {
                        let mut b = h3::client::builder();
                        b.send_grease(false).max_field_section_size(l);
                        let conn: Option<Result<(h3::client::Connection<SimConn, Bytes>, h3::client::SendRequest<SimOpener, Bytes>), _>> =
                            cancellable(b.build(SimConn { world: w.clone() }), &c).await;
                        std::mem::forget(conn);
                        String::new()
                    },
                    Side::Client,
                )
            };
            format!("adv={}", advertised(&w))
        }
        ["lim.tx", role, own, p, ops] => {
            let own: u64 = own.parse().unwrap();
            let p: Vec<u8> = parse_peer(p).expect("driver: lim.tx needs a SETTINGS description");
            let ops: Vec<String> = ops.split(',').map(|s| s.to_string()).collect();
            let var = role.to_string();
            let (res, _w) = if role.starts_with("srv") {
                drive(move |w, c| tx_srv(w, var, own, p, ops, c), Side::Server)
            } else {
                drive(move |w, c| tx_cli(w, var, own, p, ops, c), Side::Client)
            };
            format!("ok {}", res)
        }
        ["site.enc", site, fields] => {
            let (site, fields) = (site.to_string(), fields.to_string());
            let side = if site.starts_with("cli") { Side::Client } else { Side::Server };
            let (res, _w) = drive(move |w, c| site_enc(w, site, fields, c), side);
            res
        }
        ["lim.txw", role, own, p, k] if role.starts_with("cli") => {
            let var = role.to_string();
            let own: u64 = own.parse().unwrap();
            let p: Vec<u8> = parse_peer(p).expect("driver: lim.txw needs a SETTINGS description");
            let k: u64 = k.parse().unwrap();
            let (res, _w) = drive_with(move |w, c| txw_cli(w, var, own, p, k, c), Side::Client, 0);
            format!("ok {}", res)
        }
        _ => "driver-error unknown-case".into(),
    });
}
