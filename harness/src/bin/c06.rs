//! C06: no peer behaviour makes h3 panic or leaves a call pending forever.
//!
//! The REAL `h3::server::Connection` / `h3::client::Connection` run over SimQuic; the harness plays an
//! adversarial peer from the case line and an application that follows the documented call pattern.
//!
//! `run <role> <opts> <ev>,<ev>,... [tag]`   (the optional tag names the generator family; it is ignored here)
//! * role `srv`: task `a` = build, then `accept()` in a loop; 4 worker tasks `w0..w3` each take the next resolver and do
//!   pattern `pa`: resolve_request -> recv_data* (until None) -> recv_trailers -> send_response -> send_data -> finish
//!   pattern `pb`: resolve_request -> send_response -> send_data -> finish -> recv_data* -> recv_trailers
//!   The application stops using a stream at the first error (the `?` of the documented examples).
//! * role `cli`: task `d` = build, then the driver `poll_close`; `r0..r(N-1)` = request tasks:
//!   pattern `pa`: send_request -> [send_data] -> finish -> recv_response -> recv_data* -> recv_trailers
//!   pattern `pb`: send_request -> recv_response -> recv_data* -> recv_trailers -> finish
//! * role `wts`: WebTransport server: build -> accept -> resolve_request (extended CONNECT) -> WebTransportSession::accept
//!   -> accept_uni (or accept_bi with `ab`) -> read the stream to its end through futures AsyncRead (`r<k>`, k-byte buffer)
//!   or tokio AsyncRead (`o<k>`).
//! * opts: comma-free word list joined by `+`: `pa`|`pb`, `n<k>` number of client requests (default 1), `g` grease on,
//!   `m<limit>` max_field_section_size, `w` enable webtransport/extended connect/datagram settings, `b` client sends a body,
//!   `q<k>` write budget of every stream (back-pressure; grants by `W<id>:<k>` events), `u<k>` / `h<k>` initial credit for
//!   opening uni / bidi streams (grants by `G<n>` / `H<n>`), `t` send_trailers, `x` stop_sending after the first recv_data
//!   result, `y` stop_stream instead of finish, `k<n>` server calls shutdown(n) after the first accepted request and keeps
//!   accepting, `s` split() the request stream, `d` client drops its SendRequest handle after the last request, `c` every client
//!   request task uses its own clone of the SendRequest handle (with `d`: original and clones are dropped early),
//!   `e` (exploration only, NOT the documented pattern) recv_data once and then recv_trailers,
//!   `i` client driver awaits wait_idle(), `z` client calls shutdown(0) then wait_idle(), `N` h3::client::new /
//!   server::Connection::new instead of the builders, `D` a datagram task (read_datagram loop answering with send_datagram;
//!   `D:<hex>` events deliver QUIC datagrams), `O` (wts) open_uni / open_bi towards the client and write on them.
//! * events: the SimQuic mini-language (`U<id>`, `B<id>`, `<id>:c:<hex>`, `<id>:F`, `<id>:R<code>`, `<id>:S<code>`,
//!   `X<code>`, `T`, `I`) plus `~` = run the executor to quiescence now, and `<id>:z:<byte>x<count>` = a chunk of
//!   `count` copies of one byte (for large inputs).  The executor also runs at the end of the script.
//!
//! Result (one line):
//!   `ok calls=<t>;<t>.. pend=<p>;<p>.. stuck=<t>;.. world=c:<0|1>,<id>:<-|F|R>,.. | close calls=.. pend=..`
//!   call token `<task>.<api>@<target>=<result>[*<repeat>]`, result = ok | none | some | interim | err:<scope>:<code>:<variant>;
//!   pend token `<task>.<api>@<target>`: the call is still pending at quiescence.  target = `c` (waits on the
//!   connection), `n` (waits on nothing the peer controls: must never be pending), the stream id whose receive side
//!   it waits on, `w<id>` (a send call: waits on the peer's flow-control credit for stream id; ended by STOP_SENDING) or
//!   `wc` (waits on credit to open streams / to write h3's own unidirectional streams).  `stuck` = calls that completed only when the harness polled their (un-woken) task once more at
//!   quiescence: a lost wake-up (must be `-`).  `world` is the terminal state of every stream the script mentions, as SimQuic recorded it (`s` appended: the peer sent STOP_SENDING for our send half).
//!   The part after `| close` is what happened after the harness finally closed the connection (`X256`): every call
//!   must have completed by then.
//!   `panic <location> <message> @ev<k> | <calls so far>` when any h3 call panicked; `livelock` when the executor did
//!   not reach quiescence.  A call that never returns (spin inside one poll) trips the watchdog
//!   (`C06_CASE_TIMEOUT_S`, default 300): the process exits with code 3 and the check reports `crash` for that case.
use bytes::{Buf, Bytes};
use h3v::simquic::*;
use h3v::unhex;
use std::cell::RefCell;
use std::collections::{BTreeMap, VecDeque};
use std::future::poll_fn;
use std::panic::{catch_unwind, AssertUnwindSafe};
use std::rc::Rc;
use std::sync::Mutex;
use std::task::{Poll, Waker};

static PANIC_LOC: Mutex<String> = Mutex::new(String::new());

#[derive(Default)]
struct LogInner {
    done: Vec<(String, u32)>,
    cur: BTreeMap<String, String>,
}

#[derive(Clone, Default)]
struct Log(Rc<RefCell<LogInner>>);

impl Log {
    fn begin(&self, task: &str, label: String) {
        self.0.borrow_mut().cur.insert(task.to_string(), label);
    }
    fn end(&self, task: &str, result: &str) {
        let mut g = self.0.borrow_mut();
        let label = g.cur.remove(task).unwrap_or_default();
        let tok = format!("{}.{}={}", task, label, result);
        if let Some(last) = g.done.last_mut() {
            if last.0 == tok {
                last.1 += 1;
                return;
            }
        }
        g.done.push((tok, 1));
    }
    fn take_calls(&self) -> String {
        let mut g = self.0.borrow_mut();
        let v: Vec<String> = g
            .done
            .drain(..)
            .map(|(t, n)| if n > 1 { format!("{}*{}", t, n) } else { t })
            .collect();
        if v.is_empty() {
            "-".into()
        } else {
            v.join(";")
        }
    }
    fn pending(&self) -> String {
        let g = self.0.borrow();
        let v: Vec<String> = g.cur.iter().map(|(t, l)| format!("{}.{}", t, l)).collect();
        if v.is_empty() {
            "-".into()
        } else {
            v.join(";")
        }
    }
}

/// `call!(log, task, api, target, future)` evaluates the future with the call registered as pending.
macro_rules! call {
    ($log:expr, $task:expr, $api:expr, $target:expr, $fut:expr) => {{
        $log.begin($task, format!("{}@{}", $api, $target));
        $fut.await
    }};
}

struct QueueInner<T> {
    items: VecDeque<T>,
    wakers: Vec<Waker>,
}
struct Queue<T>(Rc<RefCell<QueueInner<T>>>);
impl<T> Clone for Queue<T> {
    fn clone(&self) -> Self {
        Queue(self.0.clone())
    }
}
impl<T> Queue<T> {
    fn new() -> Self {
        Queue(Rc::new(RefCell::new(QueueInner { items: VecDeque::new(), wakers: Vec::new() })))
    }
    fn put(&self, t: T) {
        let mut g = self.0.borrow_mut();
        g.items.push_back(t);
        for w in g.wakers.drain(..) {
            w.wake();
        }
    }
    async fn take(&self) -> T {
        poll_fn(|cx| {
            let mut g = self.0.borrow_mut();
            match g.items.pop_front() {
                Some(t) => Poll::Ready(t),
                None => {
                    g.wakers.push(cx.waker().clone());
                    Poll::Pending
                }
            }
        })
        .await
    }
}

#[derive(Clone, Copy)]
struct Opts {
    pattern_b: bool,
    nreq: usize,
    grease: bool,
    max_fs: Option<u64>,
    wt: bool,
    body: bool,
    /// default write budget of every stream (None = unlimited): back-pressure
    budget: Option<u64>,
    uni_credit: u64,
    bidi_credit: u64,
    trailers: bool,
    /// stop_sending after the first recv_data result instead of draining the body
    stop_recv: bool,
    /// stop_stream instead of finish
    stop_send: bool,
    /// server: shutdown(n) after the first accepted request, then keep accepting
    shutdown: Option<usize>,
    split: bool,
    /// client: the SendRequest handle is dropped after the last request was sent
    drop_sr: bool,
    /// client: every request task works on its own clone of the SendRequest handle
    clone_sr: bool,
    /// NOT the documented pattern (exploration only): recv_data once, then recv_trailers
    early_trailers: bool,
    /// WebTransport server role: read mode r<k> futures AsyncRead / o<k> tokio AsyncRead, on accept_uni (default) or accept_bi
    read_futures: Option<usize>,
    read_tokio: Option<usize>,
    wt_bidi: bool,
    /// client driver: await wait_idle() instead of polling poll_close
    wait_idle: bool,
    /// client driver: shutdown(0) first, then wait_idle()
    cli_shutdown: bool,
    /// h3::client::new / h3::server::Connection::new instead of the builders
    plain_new: bool,
    /// a datagram task: read_datagram in a loop, every datagram is answered with send_datagram
    datagrams: bool,
    /// WebTransport server: open_uni and open_bi towards the client and write on them
    wt_open: bool,
}

fn parse_opts(s: &str) -> Option<Opts> {
    let mut o = Opts {
        pattern_b: false,
        nreq: 1,
        grease: false,
        max_fs: None,
        wt: false,
        body: false,
        budget: None,
        uni_credit: 100,
        bidi_credit: 100,
        trailers: false,
        stop_recv: false,
        stop_send: false,
        shutdown: None,
        split: false,
        drop_sr: false,
        clone_sr: false,
        early_trailers: false,
        read_futures: None,
        read_tokio: None,
        wt_bidi: false,
        wait_idle: false,
        cli_shutdown: false,
        plain_new: false,
        datagrams: false,
        wt_open: false,
    };
    for w in s.split('+') {
        match w {
            "pa" | "-" => {}
            "pb" => o.pattern_b = true,
            "g" => o.grease = true,
            "w" => o.wt = true,
            "b" => o.body = true,
            "t" => o.trailers = true,
            "x" => o.stop_recv = true,
            "y" => o.stop_send = true,
            "s" => o.split = true,
            "d" => o.drop_sr = true,
            "c" => o.clone_sr = true,
            "e" => o.early_trailers = true,
            "ab" => o.wt_bidi = true,
            "i" => o.wait_idle = true,
            "z" => o.cli_shutdown = true,
            "N" => o.plain_new = true,
            "D" => o.datagrams = true,
            "O" => o.wt_open = true,
            _ => {
                let num = |r: &str| r.parse::<u64>().ok();
                if let Some(r) = w.strip_prefix('n') {
                    o.nreq = r.parse().ok()?;
                } else if let Some(r) = w.strip_prefix('m') {
                    o.max_fs = Some(num(r)?);
                } else if let Some(r) = w.strip_prefix('q') {
                    o.budget = Some(num(r)?);
                } else if let Some(r) = w.strip_prefix('u') {
                    o.uni_credit = num(r)?;
                } else if let Some(r) = w.strip_prefix('h') {
                    o.bidi_credit = num(r)?;
                } else if let Some(r) = w.strip_prefix('k') {
                    o.shutdown = Some(r.parse().ok()?);
                } else if let Some(r) = w.strip_prefix('r') {
                    o.read_futures = Some(r.parse().ok()?);
                } else if let Some(r) = w.strip_prefix('o') {
                    o.read_tokio = Some(r.parse().ok()?);
                } else {
                    return None;
                }
            }
        }
    }
    Some(o)
}

type CliStream = h3::client::RequestStream<SimBidi<Bytes>, Bytes>;

/// Everything an application can do with an error without touching the transport is evaluated here, inside the
/// catch_unwind of the case: Debug (in stream_err / conn_err), Display, is_h3_no_error, source().
fn serr(e: &h3::error::StreamError) -> String {
    let _ = e.to_string();
    let _ = e.is_h3_no_error();
    let _ = std::error::Error::source(e).map(|x| x.to_string());
    stream_err(e)
}
fn cerr(e: &h3::error::ConnectionError) -> String {
    let _ = e.to_string();
    let _ = e.is_h3_no_error();
    let _ = std::error::Error::source(e).map(|x| x.to_string());
    conn_err(e)
}

fn res_unit<E>(r: &Result<(), E>, f: impl Fn(&E) -> String) -> String {
    match r {
        Ok(()) => "ok".into(),
        Err(e) => format!("err:{}", f(e)),
    }
}

fn trailer_map() -> http::HeaderMap {
    let mut m = http::HeaderMap::new();
    m.insert("x-t", http::HeaderValue::from_static("1"));
    m
}

/// recv_data until None / error, then recv_trailers; false = the application gives up on the stream
macro_rules! recv_part {
    ($log:expr, $task:expr, $st:expr, $id:expr, $o:expr) => {{
        let mut good = true;
        let mut stopped = false;
        loop {
            let r = call!($log, $task, "recv_data", $id, $st.recv_data());
            match r {
                Ok(Some(mut d)) => {
                    let n = d.remaining();
                    d.advance(n);
                    drop(d);
                    $log.end($task, "some");
                }
                Ok(None) => {
                    $log.end($task, "none");
                    break;
                }
                Err(e) => {
                    $log.end($task, &format!("err:{}", serr(&e)));
                    good = false;
                    break;
                }
            }
            if $o.stop_recv {
                // the application is not interested in the rest of the body
                $st.stop_sending(h3::error::Code::H3_NO_ERROR);
                stopped = true;
                break;
            }
            if $o.early_trailers {
                break;
            }
        }
        if good && !stopped {
            let r = call!($log, $task, "recv_trailers", $id, $st.recv_trailers());
            match r {
                Ok(Some(_)) => $log.end($task, "some"),
                Ok(None) => $log.end($task, "none"),
                Err(e) => {
                    $log.end($task, &format!("err:{}", serr(&e)));
                    good = false;
                }
            }
        }
        good
    }};
}

/// send_response -> send_data -> [send_trailers] -> finish | stop_stream; false = gave up at the first error.
/// Send calls wait on the peer's flow-control credit for stream `id` (target `w<id>`).
macro_rules! srv_send_part {
    ($log:expr, $task:expr, $st:expr, $id:expr, $o:expr) => {{
        let tgt = format!("w{}", $id);
        let resp = http::Response::builder().status(200).header("x-a", "b").body(()).unwrap();
        let r = call!($log, $task, "send_response", tgt, $st.send_response(resp));
        $log.end($task, &res_unit(&r, serr));
        let mut good = r.is_ok();
        if good {
            let r = call!($log, $task, "send_data", tgt, $st.send_data(Bytes::from_static(b"hello, this is the body")));
            $log.end($task, &res_unit(&r, serr));
            good = r.is_ok();
        }
        if good && $o.trailers {
            let r = call!($log, $task, "send_trailers", tgt, $st.send_trailers(trailer_map()));
            $log.end($task, &res_unit(&r, serr));
            good = r.is_ok();
        }
        if good {
            if $o.stop_send {
                $st.stop_stream(h3::error::Code::H3_REQUEST_CANCELLED);
            } else {
                let r = call!($log, $task, "finish", tgt, $st.finish());
                $log.end($task, &res_unit(&r, serr));
                good = r.is_ok();
            }
        }
        good
    }};
}

fn srv_builder(o: Opts) -> h3::server::Builder {
    let mut b = h3::server::builder();
    b.send_grease(o.grease);
    if let Some(m) = o.max_fs {
        b.max_field_section_size(m);
    }
    if o.wt {
        b.enable_webtransport(true).enable_extended_connect(true).enable_datagram(true).max_webtransport_sessions(1);
    }
    b
}

type DgPair = (
    h3_datagram::datagram_handler::DatagramReader<SimDgramRecv>,
    h3_datagram::datagram_handler::DatagramSender<SimDgramSend, Bytes>,
);

/// read_datagram in a loop (waits on the connection); every datagram received is answered with send_datagram
fn spawn_datagram_task(ex: &mut Exec, dq: Queue<DgPair>, log: &Log) {
    let log = log.clone();
    ex.spawn(async move {
        let (mut rd, mut tx) = dq.take().await;
        loop {
            let r = call!(log, "g", "read_datagram", "c", rd.read_datagram());
            match r {
                Ok(d) => {
                    log.end("g", "some");
                    let mut p = d.into_payload();
                    let n = p.remaining();
                    let payload = p.copy_to_bytes(n);
                    let r = tx.send_datagram(payload);
                    log.begin("g", "send_datagram@n".into());
                    match r {
                        Ok(()) => log.end("g", "ok"),
                        Err(e) => {
                            let _ = e.to_string();
                            log.end("g", "err:c:-:Datagram");
                        }
                    }
                }
                Err(e) => {
                    log.end("g", &format!("err:{}", serr(&e)));
                    break;
                }
            }
        }
        std::future::pending::<()>().await;
        drop(tx);
        String::new()
    });
}

fn spawn_server(ex: &mut Exec, w: &Shared, o: Opts, log: &Log) {
    let queue: Queue<h3::server::RequestResolver<SimConn, Bytes>> = Queue::new();
    let dq: Queue<DgPair> = Queue::new();
    if o.datagrams {
        spawn_datagram_task(ex, dq.clone(), log);
    }
    {
        let w2 = w.clone();
        let log = log.clone();
        let q = queue.clone();
        let dq = dq.clone();
        ex.spawn(async move {
            let b = srv_builder(o);
            let r = if o.plain_new {
                call!(log, "a", "build", "wc", h3::server::Connection::<SimConn, Bytes>::new(SimConn { world: w2 }))
            } else {
                call!(log, "a", "build", "wc", b.build::<SimConn, Bytes>(SimConn { world: w2 }))
            };
            let mut conn = match r {
                Ok(c) => {
                    log.end("a", "ok");
                    c
                }
                Err(e) => {
                    log.end("a", &format!("err:{}", cerr(&e)));
                    return String::new();
                }
            };
            if o.datagrams {
                use h3_datagram::datagram_handler::HandleDatagramsExt;
                let sid = h3::quic::StreamId::try_from(0u64).unwrap();
                dq.put((conn.get_datagram_reader(), conn.get_datagram_sender(sid)));
            }
            let mut accepted = 0usize;
            loop {
                let r = call!(log, "a", "accept", "c", conn.accept());
                match r {
                    Ok(Some(res)) => {
                        log.end("a", "some");
                        q.put(res);
                        accepted += 1;
                    }
                    Ok(None) => {
                        log.end("a", "none");
                        break;
                    }
                    Err(e) => {
                        log.end("a", &format!("err:{}", cerr(&e)));
                        break;
                    }
                }
                if accepted == 1 {
                    if let Some(n) = o.shutdown {
                        // graceful shutdown, then keep serving what is still allowed
                        let r = call!(log, "a", "shutdown", "wc", conn.shutdown(n));
                        log.end("a", &res_unit(&r, cerr));
                        if r.is_err() {
                            break;
                        }
                    }
                }
            }
            // the connection object stays alive until the case is over
            std::future::pending::<()>().await;
            drop(conn);
            String::new()
        });
    }
    for i in 0..4 {
        let log = log.clone();
        let q = queue.clone();
        let task = format!("w{}", i);
        ex.spawn(async move {
            let task = task.as_str();
            loop {
                let res = q.take().await;
                let id = res.frame_stream.id().into_inner();
                let r = call!(log, task, "resolve_request", id, res.resolve_request());
                let (_req, mut st) = match r {
                    Ok(x) => {
                        log.end(task, "ok");
                        x
                    }
                    Err(e) => {
                        log.end(task, &format!("err:{}", serr(&e)));
                        continue;
                    }
                };
                if o.split {
                    let (mut tx, mut rx) = st.split();
                    if o.pattern_b {
                        if srv_send_part!(log, task, tx, id, o) {
                            let _ = recv_part!(log, task, rx, id, o);
                        }
                    } else if recv_part!(log, task, rx, id, o) {
                        let _ = srv_send_part!(log, task, tx, id, o);
                    }
                    drop(rx);
                    drop(tx);
                } else {
                    if o.pattern_b {
                        if srv_send_part!(log, task, st, id, o) {
                            let _ = recv_part!(log, task, st, id, o);
                        }
                    } else if recv_part!(log, task, st, id, o) {
                        let _ = srv_send_part!(log, task, st, id, o);
                    }
                    drop(st);
                }
            }
        });
    }
}

/// WebTransport server: build -> accept -> resolve_request (extended CONNECT) -> WebTransportSession::accept ->
/// accept_uni | accept_bi -> read the stream through futures / tokio AsyncRead with a k-byte buffer
fn spawn_wt_server(ex: &mut Exec, w: &Shared, mut o: Opts, log: &Log) {
    use h3_webtransport::server::{AcceptedBi, WebTransportSession};
    use std::pin::Pin;
    o.wt = true;
    let w2 = w.clone();
    let log = log.clone();
    ex.spawn(async move {
        let b = srv_builder(o);
        let r = call!(log, "a", "build", "wc", b.build::<SimConn, Bytes>(SimConn { world: w2 }));
        let mut conn = match r {
            Ok(c) => {
                log.end("a", "ok");
                c
            }
            Err(e) => {
                log.end("a", &format!("err:{}", cerr(&e)));
                return String::new();
            }
        };
        let r = call!(log, "a", "accept", "c", conn.accept());
        let res = match r {
            Ok(Some(res)) => {
                log.end("a", "some");
                res
            }
            Ok(None) => {
                log.end("a", "none");
                std::future::pending::<()>().await;
                drop(conn);
                return String::new();
            }
            Err(e) => {
                log.end("a", &format!("err:{}", cerr(&e)));
                std::future::pending::<()>().await;
                drop(conn);
                return String::new();
            }
        };
        let id = res.frame_stream.id().into_inner();
        let r = call!(log, "a", "resolve_request", id, res.resolve_request());
        let (req, st) = match r {
            Ok(x) => {
                log.end("a", "ok");
                x
            }
            Err(e) => {
                log.end("a", &format!("err:{}", serr(&e)));
                std::future::pending::<()>().await;
                drop(conn);
                return String::new();
            }
        };
        let r = call!(log, "a", "wt_accept", format!("w{}", id), WebTransportSession::accept(req, st, conn));
        let session: WebTransportSession<SimConn, Bytes> = match r {
            Ok(s) => {
                log.end("a", "ok");
                s
            }
            Err(e) => {
                log.end("a", &format!("err:{}", serr(&e)));
                return String::new();
            }
        };
        macro_rules! read_all {
            ($s:expr, $sid:expr) => {{
                loop {
                    if let Some(k) = o.read_tokio {
                        let mut raw = vec![0u8; k.max(1)];
                        let mut rb = tokio::io::ReadBuf::new(&mut raw[..]);
                        let r = call!(log, "a", "read_tokio", $sid, poll_fn(|cx| tokio::io::AsyncRead::poll_read(Pin::new(&mut $s), cx, &mut rb)));
                        match r {
                            Ok(()) if rb.filled().is_empty() => {
                                log.end("a", "none");
                                break;
                            }
                            Ok(()) => log.end("a", "some"),
                            Err(e) => {
                                let _ = e.to_string();
                                log.end("a", "err:s:-:Io");
                                break;
                            }
                        }
                    } else {
                        let k = o.read_futures.unwrap_or(16).max(1);
                        let mut buf = vec![0u8; k];
                        let r = call!(log, "a", "read", $sid, poll_fn(|cx| futures_util::io::AsyncRead::poll_read(Pin::new(&mut $s), cx, &mut buf[..])));
                        match r {
                            Ok(0) => {
                                log.end("a", "none");
                                break;
                            }
                            Ok(_) => log.end("a", "some"),
                            Err(e) => {
                                let _ = e.to_string();
                                log.end("a", "err:s:-:Io");
                                break;
                            }
                        }
                    }
                }
            }};
        }
        if o.wt_open {
            use h3::quic::{SendStream as _, SendStreamUnframed as _};
            let r = call!(log, "a", "open_uni", "wc", session.open_uni(session.session_id()));
            match r {
                Ok(mut s) => {
                    log.end("a", "ok");
                    let sid = s.send_id().into_inner();
                    let mut data = Bytes::from_static(b"webtransport uni payload");
                    let mut good = true;
                    while good && data.has_remaining() {
                        let r = call!(log, "a", "wt_write", format!("w{}", sid), poll_fn(|cx| s.poll_send(cx, &mut data)));
                        match r {
                            Ok(_) => log.end("a", "ok"),
                            Err(e) => {
                                let _ = e.to_string();
                                log.end("a", "err:s:-:Quic");
                                good = false;
                            }
                        }
                    }
                    if good {
                        let r = call!(log, "a", "wt_finish", format!("w{}", sid), poll_fn(|cx| s.poll_finish(cx)));
                        log.end("a", if r.is_ok() { "ok" } else { "err:s:-:Quic" });
                    }
                }
                Err(e) => log.end("a", &format!("err:{}", serr(&e))),
            }
            let r = call!(log, "a", "open_bi", "wc", session.open_bi(session.session_id()));
            match r {
                Ok(mut s) => {
                    log.end("a", "ok");
                    let sid = s.send_id().into_inner();
                    let mut data = Bytes::from_static(b"webtransport bidi payload");
                    let mut good = true;
                    while good && data.has_remaining() {
                        let r = call!(log, "a", "wt_write", format!("w{}", sid), poll_fn(|cx| s.poll_send(cx, &mut data)));
                        match r {
                            Ok(_) => log.end("a", "ok"),
                            Err(e) => {
                                let _ = e.to_string();
                                log.end("a", "err:s:-:Quic");
                                good = false;
                            }
                        }
                    }
                    if good {
                        let r = call!(log, "a", "wt_finish", format!("w{}", sid), poll_fn(|cx| s.poll_finish(cx)));
                        log.end("a", if r.is_ok() { "ok" } else { "err:s:-:Quic" });
                    }
                    // keep the stream: dropping it is not part of the scenario
                    std::mem::drop(s);
                }
                Err(e) => log.end("a", &format!("err:{}", serr(&e))),
            }
        }
        if o.wt_bidi {
            let r = call!(log, "a", "accept_bi", "c", session.accept_bi());
            match r {
                Ok(Some(AcceptedBi::BidiStream(_sid, mut s))) => {
                    log.end("a", "some");
                    let sid = h3::quic::RecvStream::recv_id(&s).into_inner();
                    read_all!(s, sid);
                    std::future::pending::<()>().await;
                    drop(s);
                }
                Ok(Some(AcceptedBi::Request(..))) => log.end("a", "request"),
                Ok(None) => log.end("a", "none"),
                Err(e) => log.end("a", &format!("err:{}", serr(&e))),
            }
        } else {
            let r = call!(log, "a", "accept_uni", "c", session.accept_uni());
            match r {
                Ok(Some((_sid, mut s))) => {
                    log.end("a", "some");
                    let sid = h3::quic::RecvStream::recv_id(&s).into_inner();
                    read_all!(s, sid);
                    std::future::pending::<()>().await;
                    drop(s);
                }
                Ok(None) => log.end("a", "none"),
                Err(e) => log.end("a", &format!("err:{}", cerr(&e))),
            }
        }
        // never drop the session: its Drop closes the connection, which is not part of the scenario
        std::future::pending::<()>().await;
        drop(session);
        String::new()
    });
}

fn spawn_client(ex: &mut Exec, w: &Shared, o: Opts, log: &Log) {
    let queue: Queue<h3::client::SendRequest<SimOpener, Bytes>> = Queue::new();
    let dq: Queue<DgPair> = Queue::new();
    if o.datagrams {
        spawn_datagram_task(ex, dq.clone(), log);
    }
    {
        let w2 = w.clone();
        let log = log.clone();
        let q = queue.clone();
        let dq = dq.clone();
        ex.spawn(async move {
            let mut b = h3::client::builder();
            b.send_grease(o.grease);
            if let Some(m) = o.max_fs {
                b.max_field_section_size(m);
            }
            if o.wt {
                b.enable_extended_connect(true).enable_datagram(true);
            }
            let r = if o.plain_new {
                call!(log, "d", "build", "wc", h3::client::new::<SimConn, SimOpener>(SimConn { world: w2 }))
            } else {
                call!(log, "d", "build", "wc", b.build::<SimConn, SimOpener, Bytes>(SimConn { world: w2 }))
            };
            let (mut conn, sr) = match r {
                Ok(x) => {
                    log.end("d", "ok");
                    x
                }
                Err(e) => {
                    log.end("d", &format!("err:{}", cerr(&e)));
                    return String::new();
                }
            };
            if o.clone_sr {
                // one clone per request task; the original is dropped right away (`d`) or kept to the end
                for _ in 0..o.nreq {
                    q.put(sr.clone());
                }
                if !o.drop_sr {
                    q.put(sr);
                }
            } else {
                // the single SendRequest handle is passed from request task to request task and finally stays in the
                // queue (dropping the last handle closes the connection locally)
                q.put(sr);
            }
            if o.datagrams {
                use h3_datagram::datagram_handler::HandleDatagramsExt;
                let sid = h3::quic::StreamId::try_from(0u64).unwrap();
                dq.put((conn.get_datagram_reader(), conn.get_datagram_sender(sid)));
            }
            if o.cli_shutdown {
                let r = call!(log, "d", "shutdown", "wc", conn.shutdown(0));
                log.end("d", &res_unit(&r, cerr));
            }
            if o.wait_idle || o.cli_shutdown {
                let e = call!(log, "d", "wait_idle", "c", conn.wait_idle());
                log.end("d", &format!("err:{}", cerr(&e)));
            } else {
                let e = call!(log, "d", "poll_close", "c", poll_fn(|cx| conn.poll_close(cx)));
                log.end("d", &format!("err:{}", cerr(&e)));
            }
            std::future::pending::<()>().await;
            drop(conn);
            String::new()
        });
    }
    for i in 0..o.nreq {
        let log = log.clone();
        let q = queue.clone();
        let task = format!("r{}", i);
        let last = i + 1 == o.nreq;
        ex.spawn(async move {
            let task = task.as_str();
            let mut sr = q.take().await;
            let rq = http::Request::builder().method(if o.body { "POST" } else { "GET" }).uri("https://a/p").body(()).unwrap();
            let r = call!(log, task, "send_request", "wc", sr.send_request(rq));
            let mut keep = None;
            if o.clone_sr {
                if o.drop_sr {
                    drop(sr); // each clone is dropped as soon as its request is on its way
                } else {
                    keep = Some(sr); // the clone lives as long as the task
                }
            } else if last && o.drop_sr {
                drop(sr);
            } else {
                q.put(sr);
            }
            let st: CliStream = match r {
                Ok(s) => {
                    log.end(task, "ok");
                    s
                }
                Err(e) => {
                    log.end(task, &format!("err:{}", serr(&e)));
                    return String::new();
                }
            };
            let id = st.id().into_inner();
            macro_rules! client_flow {
                ($tx:expr, $rx:expr) => {{
                    let tgt = format!("w{}", id);
                    let mut good = true;
                    macro_rules! send_side {
                        () => {{
                            if o.body {
                                let r = call!(log, task, "send_data", tgt, $tx.send_data(Bytes::from_static(b"request body bytes")));
                                log.end(task, &res_unit(&r, serr));
                                good = r.is_ok();
                            }
                            if good && o.trailers {
                                let r = call!(log, task, "send_trailers", tgt, $tx.send_trailers(trailer_map()));
                                log.end(task, &res_unit(&r, serr));
                                good = r.is_ok();
                            }
                            if good {
                                if o.stop_send {
                                    $tx.stop_stream(h3::error::Code::H3_REQUEST_CANCELLED);
                                } else {
                                    let r = call!(log, task, "finish", tgt, $tx.finish());
                                    log.end(task, &res_unit(&r, serr));
                                    good = r.is_ok();
                                }
                            }
                        }};
                    }
                    if !o.pattern_b {
                        send_side!();
                    }
                    // interim (1xx) responses are followed by another response head
                    let mut heads = 0;
                    while good && heads < 4 {
                        heads += 1;
                        let r = call!(log, task, "recv_response", id, $rx.recv_response());
                        match r {
                            Ok(resp) => {
                                if resp.status().is_informational() {
                                    log.end(task, "interim");
                                } else {
                                    log.end(task, "ok");
                                    break;
                                }
                            }
                            Err(e) => {
                                log.end(task, &format!("err:{}", serr(&e)));
                                good = false;
                            }
                        }
                    }
                    if good {
                        good = recv_part!(log, task, $rx, id, o);
                    }
                    if good && o.pattern_b {
                        send_side!();
                    }
                    let _ = good;
                }};
            }
            if o.split {
                let (mut tx, mut rx) = st.split();
                client_flow!(tx, rx);
                drop(tx);
                drop(rx);
            } else {
                let mut st = st;
                client_flow!(st, st);
                drop(st);
            }
            if keep.is_some() {
                std::future::pending::<()>().await;
            }
            drop(keep);
            String::new()
        });
    }
}

/// ids mentioned by the script, in order of first mention
fn script_ids(evs: &[&str]) -> Vec<u64> {
    let mut v: Vec<u64> = Vec::new();
    for e in evs {
        let id = if let Some(r) = e.strip_prefix('U').or_else(|| e.strip_prefix('B')) {
            r.parse::<u64>().ok()
        } else if e.contains(':') {
            e.split(':').next().and_then(|x| x.parse::<u64>().ok())
        } else {
            None
        };
        if let Some(i) = id {
            if !v.contains(&i) {
                v.push(i);
            }
        }
    }
    v.sort();
    v
}

fn world_summary(w: &Shared, ids: &[u64]) -> String {
    let g = w.lock().unwrap();
    let mut v = vec![format!("c:{}", if g.conn_lost.is_some() { 1 } else { 0 })];
    for id in ids {
        let t = match g.streams.get(id).and_then(|s| s.rx.back().cloned()) {
            Some(Ev::Fin) => "F",
            Some(Ev::Reset(_)) => "R",
            // `<id>:K`: the receive half failed with StreamErrorIncoming::Unknown: terminal like a reset
            Some(Ev::Unknown) => "R",
            _ => "-",
        };
        // `s` = the peer sent STOP_SENDING for our send half of this stream
        let st = if g.streams.get(id).map(|s| s.peer_stop.is_some()).unwrap_or(false) { "s" } else { "" };
        v.push(format!("{}:{}{}", id, t, st));
    }
    v.join(",")
}

fn apply(w: &Shared, ev: &str) -> bool {
    // <id>:z:<byte>x<count>
    let mut it = ev.splitn(3, ':');
    if let (Some(id), Some("z"), Some(rest)) = (it.next(), it.next(), it.next()) {
        let id: u64 = match id.parse() {
            Ok(i) => i,
            Err(_) => return false,
        };
        let mut p = rest.splitn(2, 'x');
        let b = match p.next().map(unhex) {
            Some(b) if b.len() == 1 => b[0],
            _ => return false,
        };
        let n: usize = match p.next().and_then(|x| x.parse().ok()) {
            Some(n) if n > 0 && n <= (1 << 30) => n,
            _ => return false,
        };
        w.lock().unwrap().push(id, Ev::Chunk(Bytes::from(vec![b; n])));
        return true;
    }
    apply_event(w, ev)
}

fn run_case(role: &str, o: Opts, evs: &[&str], log: &Log, progress: &RefCell<usize>) -> String {
    let side = match role {
        "srv" | "wts" => Side::Server,
        "cli" => Side::Client,
        _ => return "driver-error bad-role".into(),
    };
    let w = World::new(side, o.uni_credit, o.bidi_credit, o.budget);
    let mut ex = Exec::new();
    match role {
        "srv" => spawn_server(&mut ex, &w, o, log),
        "wts" => spawn_wt_server(&mut ex, &w, o, log),
        _ => spawn_client(&mut ex, &w, o, log),
    }
    let mut live = true;
    for (k, ev) in evs.iter().enumerate() {
        *progress.borrow_mut() = k;
        if *ev == "~" {
            live &= ex.run();
        } else if !apply(&w, ev) {
            return format!("driver-error bad-event {}", ev);
        }
    }
    *progress.borrow_mut() = evs.len();
    live &= ex.run();
    let ids = script_ids(evs);
    let calls1 = log.take_calls();
    let pend1 = log.pending();
    // lost-wakeup probe: at quiescence no task is flagged.  Poll every unfinished task once anyway: a call that
    // completes now was able to make progress without any new peer event, i.e. it was parked without a wake-up.
    *progress.borrow_mut() = evs.len() + 1;
    for i in 0..ex.len() {
        if !ex.done(i) {
            ex.poll(i);
        }
    }
    live &= ex.run();
    let stuck = log.take_calls();
    let first = format!("calls={} pend={} stuck={} world={}", calls1, pend1, stuck, world_summary(&w, &ids));
    // final phase: the peer closes the connection; everything must complete
    *progress.borrow_mut() = evs.len() + 2;
    apply_event(&w, "X256");
    live &= ex.run();
    let second = format!("calls={} pend={}", log.take_calls(), log.pending());
    // drop the h3 objects (a panic in a destructor is a panic of h3 too)
    *progress.borrow_mut() = evs.len() + 3;
    drop(ex);
    if !live {
        return format!("livelock {} | close {}", first, second);
    }
    format!("ok {} | close {}", first, second)
}

/// One case line -> one result line.
fn handle(ws: &[&str]) -> String {
    match ws {
        ["run", role, opts, script] | ["run", role, opts, script, _] => {
            let o = match parse_opts(opts) {
                Some(o) => o,
                None => return "driver-error bad-opts".into(),
            };
            let evs: Vec<&str> = if *script == "-" { vec![] } else { script.split(',').collect() };
            let log = Log::default();
            let progress = RefCell::new(0usize);
            let r = catch_unwind(AssertUnwindSafe(|| run_case(role, o, &evs, &log, &progress)));
            match r {
                Ok(s) => s,
                Err(e) => {
                    let msg = if let Some(s) = e.downcast_ref::<&str>() {
                        s.to_string()
                    } else if let Some(s) = e.downcast_ref::<String>() {
                        s.clone()
                    } else {
                        "?".to_string()
                    };
                    let loc = PANIC_LOC.lock().map(|g| g.clone()).unwrap_or_default();
                    let msg: String = msg.replace('\n', " ").chars().take(120).collect();
                    format!(
                        "panic {} {} @ev{} | calls={} pend={}",
                        loc,
                        msg.replace(' ', "_"),
                        progress.borrow(),
                        log.take_calls(),
                        log.pending()
                    )
                }
            }
        }
        _ => "driver-error unknown-case".into(),
    }
}

/// (start of the case being run, its text); None while idle
static CURRENT: Mutex<Option<(std::time::Instant, String)>> = Mutex::new(None);

fn main() {
    use std::io::{BufRead, Write};
    std::panic::set_hook(Box::new(|info| {
        let loc = info
            .location()
            .map(|l| {
                // keep the last three path components (crate/src/file.rs or src/dir/file.rs)
                let parts: Vec<&str> = l.file().split('/').collect();
                let k = parts.len().saturating_sub(3);
                format!("{}:{}", parts[k..].join("/"), l.line())
            })
            .unwrap_or_else(|| "?".into());
        if let Ok(mut g) = PANIC_LOC.lock() {
            *g = loc;
        }
    }));
    // watchdog: a single h3 call that never returns (a spin inside one poll) cannot be observed by the executor;
    // the process is killed and the check reports `crash` for exactly that case (every earlier line is flushed)
    let limit: u64 = std::env::var("C06_CASE_TIMEOUT_S").ok().and_then(|v| v.parse().ok()).unwrap_or(300);
    std::thread::spawn(move || loop {
        std::thread::sleep(std::time::Duration::from_millis(500));
        if let Ok(g) = CURRENT.lock() {
            if let Some((t0, case)) = g.as_ref() {
                if t0.elapsed().as_secs() >= limit {
                    let c: String = case.chars().take(160).collect();
                    eprintln!("watchdog: an h3 call did not return within {}s (spin inside one poll) in: {}", limit, c);
                    std::process::exit(3);
                }
            }
        }
    });
    let stdin = std::io::stdin();
    let stdout = std::io::stdout();
    for line in stdin.lock().lines() {
        let line = line.expect("stdin");
        let ws: Vec<&str> = line.split_whitespace().collect();
        if let Ok(mut g) = CURRENT.lock() {
            *g = Some((std::time::Instant::now(), line.clone()));
        }
        let r = handle(&ws);
        if let Ok(mut g) = CURRENT.lock() {
            *g = None;
        }
        let mut out = stdout.lock();
        writeln!(out, "{}", r).unwrap();
        out.flush().unwrap();
    }
}
