//! C07: faults confined to one request never harm the connection or other requests.
//!
//! The REAL h3 server (`sf s`) or client (`sf c`) runs over SimQuic against a scripted peer; 1..n requests each have
//! their own application task; the case line carries every request's peer script and the complete schedule of
//! event deliveries and task polls (see ocaml/C07_driver.ml for the grammar).  Printed per request: result class +
//! code, body bytes delivered, frames written, reset/stop_sending/finish calls; per connection: what the driver
//! returned and every `close`; and whether each request, re-run ALONE under the projected schedule, shows the same.
use bytes::{Buf, Bytes};
use h3::qpack::HeaderField;
use h3v::simquic::*;
use h3v::{hex, run_lines, unhex};
use std::cell::RefCell;
use std::collections::VecDeque;
use std::future::Future;
use std::pin::Pin;
use std::rc::Rc;
use std::task::{Context, Poll};

const MAX_FIELD_SECTION: u64 = 400;

// ------------------------------------------------------------------ wire helpers (the scripted peer)
fn varint(v: u64) -> Vec<u8> {
    if v < 1 << 6 {
        vec![v as u8]
    } else if v < 1 << 14 {
        ((v as u16) | 0x4000).to_be_bytes().to_vec()
    } else if v < 1 << 30 {
        ((v as u32) | 0x8000_0000).to_be_bytes().to_vec()
    } else {
        (v | 0xc000_0000_0000_0000).to_be_bytes().to_vec()
    }
}

fn frame(ty: u64, payload: &[u8]) -> Vec<u8> {
    let mut v = varint(ty);
    v.extend(varint(payload.len() as u64));
    v.extend_from_slice(payload);
    v
}

/// validly QPACK-encoded field section (h3's own stateless encoder) and its RFC 9114 4.2.2 size
fn section(fields: &[(&str, Vec<u8>)]) -> (Vec<u8>, u64) {
    let fs: Vec<HeaderField> = fields.iter().map(|(n, v)| HeaderField::new(n.as_bytes().to_vec(), v.clone())).collect();
    let mut block = bytes::BytesMut::new();
    let size = h3::qpack::encode_stateless(&mut block, fs).expect("encode");
    (block.to_vec(), size)
}

#[derive(Clone, Copy, PartialEq)]
enum Role {
    Server,
    Client,
}

/// the HEADERS frame the peer sends: kind = "h" good, "hm<j>" malformed, "ho" oversized, "hq" undecodable
fn peer_headers(role: Role, kind: &str) -> Vec<u8> {
    let mut f: Vec<(&str, Vec<u8>)> = match role {
        // we are the server: the peer sends a request
        Role::Server => vec![
            (":method", b"POST".to_vec()),
            (":scheme", b"https".to_vec()),
            (":authority", b"a".to_vec()),
            (":path", b"/".to_vec()),
        ],
        Role::Client => vec![(":status", b"200".to_vec())],
    };
    match kind {
        "h" => {}
        "hm0" => f.push(("X-Up", b"1".to_vec())), // uppercase field name
        "hm1" => {
            f.remove(0); // missing :method / :status
        }
        "hm2" => f.push((":bogus", b"1".to_vec())), // undefined pseudo-header field
        "hm3" => f.push(("x-v", vec![b'a', 0, b'b'])), // NUL in a field value (InvalidHeaderValue)
        "hm4" => match role {
            // request without :authority and host (MissingAuthority) / response with an unparsable :status
            Role::Server => f.retain(|(n, _)| *n != ":authority"),
            Role::Client => f[0].1 = b"2x0".to_vec(),
        },
        "hm5" => match role {
            // :authority and host disagree (ContradictedAuthority) / :status out of range
            Role::Server => f.push(("host", b"b".to_vec())),
            Role::Client => f[0].1 = b"99".to_vec(),
        },
        "hm6" => match role {
            // an empty host instead of :authority: the URI cannot be built (InvalidRequest)
            Role::Server => {
                f.retain(|(n, _)| *n != ":authority");
                f.push(("host", Vec::new()));
            }
            Role::Client => f.push(("X-Up", b"1".to_vec())),
        },
        // sections RFC 9114 calls malformed but h3's gate (C12) accepts: tolerated, they are healthy messages here
        "hk0" => {
            let p = f.remove(0); // a pseudo-header field after a regular field
            f.push(("x-a", b"1".to_vec()));
            f.push(p);
        }
        "hk1" => match role {
            Role::Server => f.push((":status", b"200".to_vec())), // response pseudo-header in a request
            Role::Client => f.push((":method", b"GET".to_vec())),
        },
        "hk2" => f.push(("connection", b"close".to_vec())), // connection-specific field
        "hk3" => {
            let p = f[0].clone(); // duplicated pseudo-header field
            f.push(p);
        }
        "ho" => f.push(("x-big", vec![b'b'; MAX_FIELD_SECTION as usize])),
        "hq" => return frame(1, &[0, 0, 0xff, 0x89, 0x01]), // static index 200
        _ => panic!("driver: headers kind {}", kind),
    }
    frame(1, &section(&f).0)
}

/// the trailer HEADERS frame the peer sends: "t" good, "tm<j>" malformed, "to" oversized, "tq" undecodable
fn peer_trailers(kind: &str) -> Vec<u8> {
    let f: Vec<(&str, Vec<u8>)> = match kind {
        "t" => vec![("x-t", b"1".to_vec())],
        "tk0" => vec![("x-t", b"1".to_vec()), (":status", b"200".to_vec())], // pseudo-header field in trailers: tolerated by h3
        "tm0" => vec![("X-T", b"1".to_vec())],            // uppercase field name
        "tm1" => vec![("x-t", vec![b'a', 0, b'b'])],       // NUL in the field value
        "tm2" => vec![("x-t", b"1".to_vec()), (":bogus", b"1".to_vec())], // undefined pseudo-header field
        "tm3" => vec![("x t", b"1".to_vec())],            // not a token
        "to" => vec![("x-big", vec![b'b'; MAX_FIELD_SECTION as usize])],
        "tq" => return frame(1, &[0, 0, 0xff, 0x89, 0x01]),
        _ => panic!("driver: trailers kind {}", kind),
    };
    frame(1, &section(&f).0)
}

/// bytes of one script event; None for FIN / RESET
fn event_bytes(role: Role, t: &str) -> Option<Vec<u8>> {
    if t == "F" || t == "K" || t.starts_with('R') {
        return None;
    }
    if let Some(n) = t.strip_prefix("hp") {
        let full = peer_headers(role, "h");
        let n: usize = n.parse().unwrap();
        let n = 1 + (n.max(1) - 1) % (full.len() - 1);
        return Some(full[..n].to_vec());
    }
    if let Some(n) = t.strip_prefix("tp") {
        let full = peer_trailers("t");
        let n: usize = n.parse().unwrap();
        let n = 1 + (n.max(1) - 1) % (full.len() - 1);
        return Some(full[..n].to_vec());
    }
    if t.starts_with('t') {
        return Some(peer_trailers(t));
    }
    if let Some(tot) = t.strip_prefix("dq") {
        let tot: u64 = tot.parse().unwrap();
        let mut h = vec![0u8];
        let l = varint(tot);
        h.extend_from_slice(&l[..l.len() - 1]);
        return Some(h);
    }
    if t.starts_with('h') {
        return Some(peer_headers(role, t));
    }
    if let Some(r) = t.strip_prefix('m') {
        return Some(unhex(r));
    }
    if let Some(r) = t.strip_prefix('d') {
        let mut it = r.splitn(2, ':');
        let tot: u64 = it.next().unwrap().parse().unwrap();
        let part = unhex(it.next().unwrap());
        let mut v = vec![0u8];
        v.extend(varint(tot));
        v.extend(part);
        return Some(v);
    }
    panic!("driver: event {}", t)
}

/// `<event>*<n>`: the event's bytes reach h3 cut into n transport chunks; `<event>+`: in ONE chunk together with the
/// next event's bytes (a chunk spanning the end of a payload and the following frame).  Returns how many script events
/// were consumed.
fn deliver_decorated(w: &Shared, id: u64, role: Role, evs: &[String], k: usize) -> usize {
    let t = &evs[k];
    if let Some(base) = t.strip_suffix('+') {
        let mut b = event_bytes(role, base).expect("driver: joined event");
        let next = evs.get(k + 1).expect("driver: joined event without successor");
        let nb = next.split('*').next().unwrap().trim_end_matches('+');
        b.extend(event_bytes(role, nb).expect("driver: joined with a non-chunk"));
        w.lock().unwrap().push(id, Ev::Chunk(Bytes::from(b)));
        return 2;
    }
    if let Some((base, n)) = t.split_once('*') {
        let n: usize = n.parse().unwrap();
        let b = event_bytes(role, base).expect("driver: split event");
        let n = n.clamp(1, b.len());
        let mut g = w.lock().unwrap();
        let mut from = 0;
        for j in 1..=n {
            // data events are cut inside the frame header only (after the type byte): payload pieces are the model's business
            let to = if base.starts_with('d') { if j == 1 { 1 } else { b.len() } } else { j * b.len() / n };
            if to > from {
                g.push(id, Ev::Chunk(Bytes::copy_from_slice(&b[from..to])));
            }
            from = to;
            if to == b.len() {
                break;
            }
        }
        return 1;
    }
    deliver(w, id, role, t);
    1
}

fn deliver(w: &Shared, id: u64, role: Role, t: &str) {
    let mut g = w.lock().unwrap();
    if t == "F" {
        g.push(id, Ev::Fin);
    } else if t == "K" {
        g.push(id, Ev::Unknown);
    } else if let Some(c) = t.strip_prefix('R') {
        g.push(id, Ev::Reset(c.parse().unwrap()));
    } else {
        g.push(id, Ev::Chunk(Bytes::from(event_bytes(role, t).unwrap())));
    }
}

// ------------------------------------------------------------------ application tasks
struct YieldNow(bool);
impl Future for YieldNow {
    type Output = ();
    fn poll(mut self: Pin<&mut Self>, cx: &mut Context<'_>) -> Poll<()> {
        if self.0 {
            Poll::Ready(())
        } else {
            self.0 = true;
            cx.waker().wake_by_ref();
            Poll::Pending
        }
    }
}
fn yield_now() -> YieldNow {
    YieldNow(false)
}

#[derive(Default)]
struct Obs {
    res: Option<String>,
    /// split(): result of the task driving the send half; the future of that task, handed to the harness to spawn
    sres: Option<String>,
    send_task: Option<Task>,
    split: bool,
    /// persistent pattern: scopes of the results of the calls made AFTER the first error (o = ok, s = stream, c = connection)
    persist: bool,
    later: String,
    /// a connection-level error was reported: a persistent task stops there (the connection is gone)
    conn_dead: bool,
    data: Vec<u8>,
    trailers: bool,
    sid: Option<u64>,
}
type ObsRef = Rc<RefCell<Obs>>;

fn fail(o: &ObsRef, api: &str, e: &h3::error::StreamError) -> String {
    o.borrow_mut().res = Some(format!("err:{}:{}", api, stream_err(e)));
    String::new()
}

fn fail_s(o: &ObsRef, api: &str, e: &h3::error::StreamError) -> String {
    o.borrow_mut().sres = Some(format!("err:{}:{}", api, stream_err(e)));
    String::new()
}

fn pad_header(pad: usize) -> Option<(http::HeaderName, http::HeaderValue)> {
    if pad == 0 {
        None
    } else {
        Some((
            http::HeaderName::from_static("x-p"),
            http::HeaderValue::from_bytes(&vec![b'p'; pad]).unwrap(),
        ))
    }
}

macro_rules! recv_body {
    ($stream:expr, $o:expr) => {
        loop {
            match $stream.recv_data().await {
                Ok(Some(mut d)) => {
                    let b = d.copy_to_bytes(d.remaining());
                    $o.borrow_mut().data.extend_from_slice(&b);
                }
                Ok(None) => break,
                Err(e) => return fail(&$o, "recv", &e),
            }
        }
    };
}

fn our_trailers(tz: Option<u64>) -> Option<http::HeaderMap> {
    tz.map(|z| {
        let mut m = http::HeaderMap::new();
        m.insert(
            http::HeaderName::from_static("x-t"),
            http::HeaderValue::from_bytes(&vec![b't'; (z - 35) as usize]).unwrap(),
        );
        m
    })
}

macro_rules! recv_trl {
    ($stream:expr, $o:expr) => {
        match $stream.recv_trailers().await {
            Ok(Some(_)) => $o.borrow_mut().trailers = true,
            Ok(None) => {}
            Err(e) => return fail(&$o, "recvtrl", &e),
        }
    };
}

async fn server_task(resolver: h3::server::RequestResolver<SimConn, Bytes>, o: ObsRef, body: Vec<u8>, pad: usize, tz: Option<u64>) -> String {
    let (_req, mut stream) = match resolver.resolve_request().await {
        Ok(x) => x,
        Err(e) => return fail(&o, "resolve", &e),
    };
    recv_body!(stream, o);
    recv_trl!(stream, o);
    yield_now().await;
    let mut resp = http::Response::builder().status(200).body(()).unwrap();
    if let Some((n, v)) = pad_header(pad) {
        resp.headers_mut().insert(n, v);
    }
    if let Err(e) = stream.send_response(resp).await {
        return fail(&o, "sendresp", &e);
    }
    yield_now().await;
    if let Err(e) = stream.send_data(Bytes::from(body)).await {
        return fail(&o, "senddata", &e);
    }
    yield_now().await;
    if let Some(m) = our_trailers(tz) {
        if let Err(e) = stream.send_trailers(m).await {
            return fail(&o, "sendtrl", &e);
        }
        yield_now().await;
    }
    if let Err(e) = stream.finish().await {
        return fail(&o, "finish", &e);
    }
    o.borrow_mut().res = Some("ok".into());
    String::new()
}

type Sender = Rc<RefCell<h3::client::SendRequest<SimOpener, Bytes>>>;

async fn client_task(sr: Sender, o: ObsRef, body: Vec<u8>, pad: usize, tz: Option<u64>) -> String {
    let mut req = http::Request::builder().method("POST").uri("https://a/").body(()).unwrap();
    if let Some((n, v)) = pad_header(pad) {
        req.headers_mut().insert(n, v);
    }
    let sent = {
        // never pending on SimQuic (stream credit is plentiful, writes are accepted at once): the borrow ends in this poll
        let mut g = sr.borrow_mut();
        g.send_request(req).await
    };
    let mut stream = match sent {
        Ok(s) => s,
        Err(e) => return fail(&o, "sendreq", &e),
    };
    o.borrow_mut().sid = Some(stream.id().into_inner());
    yield_now().await;
    if let Err(e) = stream.send_data(Bytes::from(body)).await {
        return fail(&o, "senddata", &e);
    }
    yield_now().await;
    if let Some(m) = our_trailers(tz) {
        if let Err(e) = stream.send_trailers(m).await {
            return fail(&o, "sendtrl", &e);
        }
        yield_now().await;
    }
    if let Err(e) = stream.finish().await {
        return fail(&o, "finish", &e);
    }
    if let Err(e) = stream.recv_response().await {
        return fail(&o, "recvresp", &e);
    }
    recv_body!(stream, o);
    recv_trl!(stream, o);
    o.borrow_mut().res = Some("ok".into());
    String::new()
}

// ------------------------------------------------------------------ other application patterns (family sfx: checked against the
// specification table, the solo run and the completion bound; the Coq model has the receive-everything-then-answer pattern only)
fn response(pad: usize) -> http::Response<()> {
    let mut resp = http::Response::builder().status(200).body(()).unwrap();
    if let Some((n, v)) = pad_header(pad) {
        resp.headers_mut().insert(n, v);
    }
    resp
}

/// early response: the server answers before the request body is drained
async fn server_task_early(resolver: h3::server::RequestResolver<SimConn, Bytes>, o: ObsRef, body: Vec<u8>, pad: usize, tz: Option<u64>) -> String {
    let (_req, mut stream) = match resolver.resolve_request().await {
        Ok(x) => x,
        Err(e) => return fail(&o, "resolve", &e),
    };
    if let Err(e) = stream.send_response(response(pad)).await {
        return fail(&o, "sendresp", &e);
    }
    recv_body!(stream, o);
    recv_trl!(stream, o);
    yield_now().await;
    if let Err(e) = stream.send_data(Bytes::from(body)).await {
        return fail(&o, "senddata", &e);
    }
    yield_now().await;
    if let Some(m) = our_trailers(tz) {
        if let Err(e) = stream.send_trailers(m).await {
            return fail(&o, "sendtrl", &e);
        }
    }
    if let Err(e) = stream.finish().await {
        return fail(&o, "finish", &e);
    }
    o.borrow_mut().res = Some("ok".into());
    String::new()
}

/// split(): the two halves are driven by separate tasks
async fn server_task_split(resolver: h3::server::RequestResolver<SimConn, Bytes>, o: ObsRef, body: Vec<u8>, pad: usize, tz: Option<u64>) -> String {
    let (_req, stream) = match resolver.resolve_request().await {
        Ok(x) => x,
        Err(e) => return fail(&o, "resolve", &e),
    };
    let (mut send, mut recv) = stream.split();
    let o2 = o.clone();
    let fut: Task = Box::pin(async move {
        if let Err(e) = send.send_response(response(pad)).await {
            return fail_s(&o2, "sendresp", &e);
        }
        yield_now().await;
        if let Err(e) = send.send_data(Bytes::from(body)).await {
            return fail_s(&o2, "senddata", &e);
        }
        yield_now().await;
        if let Some(m) = our_trailers(tz) {
            if let Err(e) = send.send_trailers(m).await {
                return fail_s(&o2, "sendtrl", &e);
            }
        }
        if let Err(e) = send.finish().await {
            return fail_s(&o2, "finish", &e);
        }
        o2.borrow_mut().sres = Some("ok".into());
        String::new()
    });
    o.borrow_mut().send_task = Some(fut);
    recv_body!(recv, o);
    recv_trl!(recv, o);
    o.borrow_mut().res = Some("ok".into());
    String::new()
}

/// persistent pattern: the application does not give up at the first error, it keeps calling the API on the request
fn note(o: &ObsRef, api: &str, r: Result<(), &h3::error::StreamError>) {
    let mut g = o.borrow_mut();
    match r {
        Ok(()) => {
            if g.res.is_some() {
                g.later.push('o');
            }
        }
        Err(e) => {
            let se = stream_err(e);
            if se.starts_with("c:") {
                g.conn_dead = true;
            }
            if g.res.is_none() {
                g.res = Some(format!("err:{}:{}", api, se));
            } else {
                g.later.push(if se.starts_with("c:") { 'c' } else { 's' });
            }
        }
    }
}

macro_rules! recv_persist {
    ($stream:expr, $o:expr) => {{
        let mut clean = true;
        loop {
            match $stream.recv_data().await {
                Ok(Some(mut d)) => {
                    let b = d.copy_to_bytes(d.remaining());
                    if $o.borrow().res.is_none() {
                        $o.borrow_mut().data.extend_from_slice(&b);
                    }
                }
                Ok(None) => break,
                Err(e) => {
                    note(&$o, "recv", Err(&e));
                    clean = false;
                    // ask again, twice: the error must stay on the stream
                    for _ in 0..2 {
                        if $o.borrow().conn_dead {
                            break;
                        }
                        match $stream.recv_data().await {
                            Ok(_) => note(&$o, "recv", Ok(())),
                            Err(e) => note(&$o, "recv", Err(&e)),
                        }
                    }
                    break;
                }
            }
        }
        if clean {
            // (after a failed recv_data the frame reader may be inside a payload: recv_trailers is not a legal call then)
            for _ in 0..2 {
                if $o.borrow().conn_dead {
                    break;
                }
                match $stream.recv_trailers().await {
                    Ok(Some(_)) => {
                        if $o.borrow().res.is_none() {
                            $o.borrow_mut().trailers = true;
                        }
                        note(&$o, "recvtrl", Ok(()))
                    }
                    Ok(None) => note(&$o, "recvtrl", Ok(())),
                    Err(e) => note(&$o, "recvtrl", Err(&e)),
                }
            }
        }
    }};
}

async fn server_task_persist(resolver: h3::server::RequestResolver<SimConn, Bytes>, o: ObsRef, body: Vec<u8>, pad: usize, tz: Option<u64>) -> String {
    let (_req, mut stream) = match resolver.resolve_request().await {
        Ok(x) => x,
        Err(e) => return fail(&o, "resolve", &e),
    };
    recv_persist!(stream, o);
    if o.borrow().conn_dead {
        return String::new();
    }
    yield_now().await;
    note(&o, "sendresp", stream.send_response(response(pad)).await.as_ref().map(|_| ()));
    yield_now().await;
    note(&o, "senddata", stream.send_data(Bytes::from(body)).await.as_ref().map(|_| ()));
    if let Some(m) = our_trailers(tz) {
        note(&o, "sendtrl", stream.send_trailers(m).await.as_ref().map(|_| ()));
    }
    note(&o, "finish", stream.finish().await.as_ref().map(|_| ()));
    if o.borrow().res.is_none() {
        o.borrow_mut().res = Some("ok".into());
    }
    String::new()
}

async fn client_task_persist(mut sr: h3::client::SendRequest<SimOpener, Bytes>, o: ObsRef, body: Vec<u8>, pad: usize, tz: Option<u64>) -> String {
    let mut stream = match sr.send_request(request(pad)).await {
        Ok(s) => s,
        Err(e) => return fail(&o, "sendreq", &e),
    };
    o.borrow_mut().sid = Some(stream.id().into_inner());
    yield_now().await;
    note(&o, "senddata", stream.send_data(Bytes::from(body)).await.as_ref().map(|_| ()));
    if let Some(m) = our_trailers(tz) {
        note(&o, "sendtrl", stream.send_trailers(m).await.as_ref().map(|_| ()));
    }
    note(&o, "finish", stream.finish().await.as_ref().map(|_| ()));
    match stream.recv_response().await {
        Ok(_) => note(&o, "recvresp", Ok(())),
        Err(e) => note(&o, "recvresp", Err(&e)),
    }
    recv_persist!(stream, o);
    if o.borrow().res.is_none() {
        o.borrow_mut().res = Some("ok".into());
    }
    String::new()
}

fn request(pad: usize) -> http::Request<()> {
    let mut req = http::Request::builder().method("POST").uri("https://a/").body(()).unwrap();
    if let Some((n, v)) = pad_header(pad) {
        req.headers_mut().insert(n, v);
    }
    req
}

/// early response on the client: it finishes sending only after the response headers arrived
async fn client_task_early(mut sr: h3::client::SendRequest<SimOpener, Bytes>, o: ObsRef, body: Vec<u8>, pad: usize, tz: Option<u64>) -> String {
    let mut stream = match sr.send_request(request(pad)).await {
        Ok(s) => s,
        Err(e) => return fail(&o, "sendreq", &e),
    };
    o.borrow_mut().sid = Some(stream.id().into_inner());
    yield_now().await;
    if let Err(e) = stream.send_data(Bytes::from(body)).await {
        return fail(&o, "senddata", &e);
    }
    if let Err(e) = stream.recv_response().await {
        return fail(&o, "recvresp", &e);
    }
    if let Some(m) = our_trailers(tz) {
        if let Err(e) = stream.send_trailers(m).await {
            return fail(&o, "sendtrl", &e);
        }
    }
    if let Err(e) = stream.finish().await {
        return fail(&o, "finish", &e);
    }
    recv_body!(stream, o);
    recv_trl!(stream, o);
    o.borrow_mut().res = Some("ok".into());
    String::new()
}

async fn client_task_plain(mut sr: h3::client::SendRequest<SimOpener, Bytes>, o: ObsRef, body: Vec<u8>, pad: usize, tz: Option<u64>) -> String {
    let mut stream = match sr.send_request(request(pad)).await {
        Ok(s) => s,
        Err(e) => return fail(&o, "sendreq", &e),
    };
    o.borrow_mut().sid = Some(stream.id().into_inner());
    yield_now().await;
    if let Err(e) = stream.send_data(Bytes::from(body)).await {
        return fail(&o, "senddata", &e);
    }
    yield_now().await;
    if let Some(m) = our_trailers(tz) {
        if let Err(e) = stream.send_trailers(m).await {
            return fail(&o, "sendtrl", &e);
        }
    }
    if let Err(e) = stream.finish().await {
        return fail(&o, "finish", &e);
    }
    if let Err(e) = stream.recv_response().await {
        return fail(&o, "recvresp", &e);
    }
    recv_body!(stream, o);
    recv_trl!(stream, o);
    o.borrow_mut().res = Some("ok".into());
    String::new()
}

async fn client_task_split(mut sr: h3::client::SendRequest<SimOpener, Bytes>, o: ObsRef, body: Vec<u8>, pad: usize, tz: Option<u64>) -> String {
    let stream = match sr.send_request(request(pad)).await {
        Ok(s) => s,
        Err(e) => return fail(&o, "sendreq", &e),
    };
    o.borrow_mut().sid = Some(stream.id().into_inner());
    let (mut send, mut recv) = stream.split();
    let o2 = o.clone();
    let fut: Task = Box::pin(async move {
        if let Err(e) = send.send_data(Bytes::from(body)).await {
            return fail_s(&o2, "senddata", &e);
        }
        yield_now().await;
        if let Some(m) = our_trailers(tz) {
            if let Err(e) = send.send_trailers(m).await {
                return fail_s(&o2, "sendtrl", &e);
            }
        }
        if let Err(e) = send.finish().await {
            return fail_s(&o2, "finish", &e);
        }
        o2.borrow_mut().sres = Some("ok".into());
        String::new()
    });
    o.borrow_mut().send_task = Some(fut);
    if let Err(e) = recv.recv_response().await {
        return fail(&o, "recvresp", &e);
    }
    recv_body!(recv, o);
    recv_trl!(recv, o);
    o.borrow_mut().res = Some("ok".into());
    String::new()
}

// ------------------------------------------------------------------ one run of a case
struct ReqSpec {
    events: Vec<String>,
    stop: Option<u64>,
    pad: usize,
    hsize: u64,
    body: Vec<u8>,
    trl: Option<u64>,
    /// application pattern: n = receive everything then answer (modelled), e = early response, s = split()
    mode: char,
}

fn parse_req(s: &str) -> ReqSpec {
    let f: Vec<&str> = s.split(';').collect();
    assert!(f.len() == 6 || f.len() == 7, "driver: request spec");
    ReqSpec {
        events: if f[0] == "-" { vec![] } else { f[0].split('.').map(|x| x.to_string()).collect() },
        stop: if f[1] == "-" { None } else { Some(f[1].parse().unwrap()) },
        pad: f[2].parse().unwrap(),
        hsize: f[3].parse().unwrap(),
        body: unhex(f[4]),
        trl: if f[5] == "-" { None } else { Some(f[5].parse().unwrap()) },
        mode: f.get(6).and_then(|m| m.chars().next()).unwrap_or('n'),
    }
}

/// frames h3 wrote on a request stream, summarised
fn tx_items(role: Role, tx: &[u8]) -> String {
    let mut out: Vec<String> = Vec::new();
    let mut b = Bytes::copy_from_slice(tx);
    fn rd(b: &mut Bytes) -> Option<u64> {
        if !b.has_remaining() {
            return None;
        }
        let first = b.chunk()[0];
        let l = 1usize << (first >> 6);
        if b.remaining() < l {
            return None;
        }
        let mut v = (first & 0x3f) as u64;
        b.advance(1);
        for _ in 1..l {
            v = (v << 8) | b.get_u8() as u64;
        }
        Some(v)
    }
    while b.has_remaining() {
        let (ty, l) = match (rd(&mut b), rd(&mut b)) {
            (Some(t), Some(l)) => (t, l as usize),
            _ => {
                out.push("trunc".into());
                break;
            }
        };
        if b.remaining() < l {
            out.push("trunc".into());
            break;
        }
        let mut p = b.split_to(l);
        match ty {
            0 => out.push(format!("d{}", hex(&p))),
            1 => {
                // the first HEADERS frame on a stream is the message header, a later one the trailer section
                let first = !out.iter().any(|x| x.starts_with('h'));
                let item = match h3::qpack::decode_stateless(&mut p, u64::MAX) {
                    Ok(d) => {
                        let status = d.fields.iter().find(|f| &f.name[..] == b":status").map(|f| String::from_utf8_lossy(&f.value).to_string());
                        let pseudo = d.fields.iter().any(|f| f.name.first() == Some(&b':'));
                        match (role, first, status, pseudo) {
                            (Role::Server, true, Some(s), _) => format!("h{}", s),
                            (Role::Client, true, None, true) => "h0".to_string(),
                            (_, false, None, false) => "t".to_string(),
                            _ => "h?".to_string(),
                        }
                    }
                    Err(_) => "h?".into(),
                };
                out.push(item);
            }
            t if t >= 0x21 && (t - 0x21) % 0x1f == 0 => out.push("g".into()),
            t => out.push(format!("x{}", t)),
        }
    }
    if out.is_empty() {
        "-".into()
    } else {
        out.join(".")
    }
}

fn expected_hsize(role: Role, pad: usize) -> u64 {
    let mut f: Vec<(&str, Vec<u8>)> = match role {
        Role::Server => vec![(":status", b"200".to_vec())],
        Role::Client => vec![
            (":method", b"POST".to_vec()),
            (":scheme", b"https".to_vec()),
            (":authority", b"a".to_vec()),
            (":path", b"/".to_vec()),
        ],
    };
    if pad > 0 {
        f.push(("x-p", vec![b'p'; pad]));
    }
    section(&f).1
}

struct Outcome {
    reqs: Vec<String>,
    conn: String,
}

fn run_case(role: Role, reqs: &[ReqSpec], sched: &[&str], grease: bool, unk: bool, budget: Option<u64>, ext: bool) -> Outcome {
    let n = reqs.len();
    let side = if role == Role::Server { Side::Server } else { Side::Client };
    let w = World::new(side, 1000, 1000, None);
    // a STOP_SENDING seen while finishing is reported: as StreamTerminated, or (h3-quinn) as a transport-specific error
    assert!(apply_event(&w, if unk { "ZU" } else { "ZS" }));
    let mut ex = Exec::new();
    let obs: Vec<ObsRef> = (0..n).map(|_| Rc::new(RefCell::new(Obs::default()))).collect();
    let mut next_ev = vec![0usize; n];
    let mut task: Vec<Option<usize>> = vec![None; n];
    let mut task_q: Vec<Option<usize>> = vec![None; n]; // split(): the send-half tasks
    let mut early_grant: Vec<u64> = vec![0; n];
    // client role: events / stop that arrive before the request has a stream
    let mut early: Vec<Vec<usize>> = vec![Vec::new(); n];
    let mut early_stop: Vec<Option<u64>> = vec![None; n];
    let mut dead = vec![false; n]; // client request that ended without ever opening a stream
    let accepted: Rc<RefCell<VecDeque<h3::server::RequestResolver<SimConn, Bytes>>>> = Rc::new(RefCell::new(VecDeque::new()));
    let mut sender: Option<Sender> = None;
    // a connection whose driver returned stays alive until the observations are taken (dropping it calls close)
    let keep: Rc<RefCell<Vec<Box<dyn std::any::Any>>>> = Rc::new(RefCell::new(Vec::new()));
    let driver;
    let peer_ctl: u64 = if role == Role::Server { 2 } else { 3 };
    let mut ctl_open = false;

    match role {
        Role::Server => {
            let w2 = w.clone();
            let acc = accepted.clone();
            let keep2 = keep.clone();
            driver = ex.spawn(async move {
                let mut conn: h3::server::Connection<SimConn, Bytes> = match h3::server::builder()
                    .max_field_section_size(MAX_FIELD_SECTION)
                    .send_grease(grease)
                    .build(SimConn { world: w2 })
                    .await
                {
                    Ok(c) => c,
                    Err(e) => return format!("build:{}", conn_err(&e)),
                };
                let r = loop {
                    match conn.accept().await {
                        Ok(Some(r)) => acc.borrow_mut().push_back(r),
                        Ok(None) => break "end".to_string(),
                        Err(e) => break conn_err(&e).split(':').nth(1).unwrap_or("?").to_string(),
                    }
                };
                keep2.borrow_mut().push(Box::new(conn));
                r
            });
            ex.run();
        }
        Role::Client => {
            let slot: Rc<RefCell<Option<(h3::client::Connection<SimConn, Bytes>, h3::client::SendRequest<SimOpener, Bytes>)>>> =
                Rc::new(RefCell::new(None));
            let s2 = slot.clone();
            let w2 = w.clone();
            let b = ex.spawn(async move {
                match h3::client::builder()
                    .max_field_section_size(MAX_FIELD_SECTION)
                    .send_grease(grease)
                    .build::<_, _, Bytes>(SimConn { world: w2 })
                    .await
                {
                    Ok(p) => {
                        *s2.borrow_mut() = Some(p);
                        "ok".into()
                    }
                    Err(e) => format!("build:{}", conn_err(&e)),
                }
            });
            ex.run();
            assert!(ex.done(b), "driver: client build did not complete");
            let (mut conn, sr) = slot.borrow_mut().take().expect("driver: client build failed");
            let keep2 = keep.clone();
            driver = ex.spawn(async move {
                let e = std::future::poll_fn(|cx| conn.poll_close(cx)).await;
                keep2.borrow_mut().push(Box::new(conn));
                conn_err(&e).split(':').nth(1).unwrap_or("?").to_string()
            });
            ex.poll(driver);
            if ext {
                for i in 0..n {
                    let (o, b, p, t) = (obs[i].clone(), reqs[i].body.clone(), reqs[i].pad, reqs[i].trl);
                    obs[i].borrow_mut().split = reqs[i].mode == 's';
                    obs[i].borrow_mut().persist = reqs[i].mode == 'p';
                    task[i] = Some(match reqs[i].mode {
                        'p' => ex.spawn(client_task_persist(sr.clone(), o, b, p, t)),
                        'e' => ex.spawn(client_task_early(sr.clone(), o, b, p, t)),
                        's' => ex.spawn(client_task_split(sr.clone(), o, b, p, t)),
                        _ => ex.spawn(client_task_plain(sr.clone(), o, b, p, t)),
                    });
                }
                keep.borrow_mut().push(Box::new(sr)); // the last SendRequest must outlive the run (its drop closes the connection)
            } else {
                let sr: Sender = Rc::new(RefCell::new(sr));
                for i in 0..n {
                    task[i] = Some(ex.spawn(client_task(sr.clone(), obs[i].clone(), reqs[i].body.clone(), reqs[i].pad, reqs[i].trl)));
                }
                sender = Some(sr);
            }
        }
    }

    if let Some(b) = budget {
        // write back-pressure on the request streams only (the connection's own streams were opened during setup)
        assert!(apply_event(&w, &format!("W*:{}", b)));
    }
    let poll_driver = |ex: &mut Exec, k: usize| {
        for _ in 0..k {
            ex.poll(driver);
        }
    };

    for a in sched {
        if *a == "pd" {
            poll_driver(&mut ex, 1);
            continue;
        }
        if let Some(v) = a.strip_prefix("gS") {
            let v: u64 = v.parse().unwrap();
            assert!(!ctl_open, "driver: second SETTINGS");
            ctl_open = true;
            let mut payload = varint(6);
            payload.extend(varint(v));
            let mut bytes = vec![0u8];
            bytes.extend(frame(4, &payload));
            {
                let mut g = w.lock().unwrap();
                g.new_peer_uni(peer_ctl);
                g.push(peer_ctl, Ev::Chunk(Bytes::from(bytes)));
            }
            poll_driver(&mut ex, 3);
            continue;
        }
        if *a == "gG" {
            assert!(ctl_open && role == Role::Client, "driver: GOAWAY needs the control stream (client role)");
            w.lock().unwrap().push(peer_ctl, Ev::Chunk(Bytes::from(frame(7, &varint(4000)))));
            poll_driver(&mut ex, 3);
            continue;
        }
        if let Some(r) = a.strip_prefix('w') {
            // w<i>:<k>: the transport accepts k more bytes on request i's stream
            let (i, k) = r.split_once(':').expect("driver: grant");
            let (i, k): (usize, u64) = (i.parse().unwrap(), k.parse().unwrap());
            let sid = match role {
                Role::Server => Some(4 * i as u64),
                Role::Client => obs[i].borrow().sid,
            };
            match sid {
                Some(id) => w.lock().unwrap().grant_write(id, k),
                None => early_grant[i] += k,
            }
            continue;
        }
        let i: usize = a[1..].parse().unwrap();
        assert!(i < n, "driver: request index");
        match (&a[..1], role) {
            ("o", Role::Server) => {
                w.lock().unwrap().new_peer_bidi(4 * i as u64);
                poll_driver(&mut ex, 1);
                if task[i].is_none() {
                    if let Some(r) = accepted.borrow_mut().pop_front() {
                        obs[i].borrow_mut().sid = Some(4 * i as u64);
                        let (o, b, p, t) = (obs[i].clone(), reqs[i].body.clone(), reqs[i].pad, reqs[i].trl);
                        obs[i].borrow_mut().split = reqs[i].mode == 's';
                        obs[i].borrow_mut().persist = reqs[i].mode == 'p';
                        task[i] = Some(match reqs[i].mode {
                            'p' => ex.spawn(server_task_persist(r, o, b, p, t)),
                            'e' => ex.spawn(server_task_early(r, o, b, p, t)),
                            's' => ex.spawn(server_task_split(r, o, b, p, t)),
                            _ => ex.spawn(server_task(r, o, b, p, t)),
                        });
                    }
                }
            }
            ("o", Role::Client) => {}
            ("e", _) => {
                if next_ev[i] < reqs[i].events.len() {
                    let k = next_ev[i];
                    let sid = match role {
                        Role::Server => Some(4 * i as u64),
                        Role::Client => obs[i].borrow().sid,
                    };
                    match sid {
                        Some(id) => next_ev[i] += deliver_decorated(&w, id, role, &reqs[i].events, k),
                        None => {
                            // client request without a stream yet: kept until its first poll
                            let n = if reqs[i].events[k].ends_with('+') { 2 } else { 1 };
                            if !dead[i] {
                                early[i].push(k);
                            }
                            next_ev[i] += n;
                        }
                    }
                }
            }
            ("s", _) => {
                let c = reqs[i].stop.expect("driver: stop without code");
                match role {
                    Role::Server => w.lock().unwrap().peer_stop(4 * i as u64, c),
                    Role::Client => match obs[i].borrow().sid {
                        Some(id) => w.lock().unwrap().peer_stop(id, c),
                        None => {
                            if early_stop[i].is_none() {
                                early_stop[i] = Some(c)
                            }
                        }
                    },
                }
            }
            ("p", _) => {
                if let Some(t) = task[i] {
                    if role == Role::Client && obs[i].borrow().sid.is_none() && !dead[i] && !ex.done(t) {
                        // first poll: the stream this task is about to open gets what the peer "already sent"
                        let id = w.lock().unwrap().next_bidi;
                        for k in early[i].drain(..) {
                            deliver_decorated(&w, id, role, &reqs[i].events, k);
                        }
                        if let Some(c) = early_stop[i].take() {
                            w.lock().unwrap().peer_stop(id, c);
                        }
                        if early_grant[i] > 0 {
                            w.lock().unwrap().grant_write(id, early_grant[i]);
                            early_grant[i] = 0;
                        }
                        ex.poll(t);
                        let opened = w.lock().unwrap().next_bidi != id;
                        if !opened {
                            w.lock().unwrap().streams.remove(&id);
                            dead[i] = true;
                        } else if obs[i].borrow().sid.is_none() {
                            // opened, but send_request failed afterwards: the stream is known to the harness only
                            obs[i].borrow_mut().sid = Some(id);
                        }
                    } else {
                        ex.poll(t);
                    }
                    // split(): the task has created the future that drives the send half
                    if task_q[i].is_none() {
                        let fut = obs[i].borrow_mut().send_task.take();
                        if let Some(f) = fut {
                            task_q[i] = Some(ex.spawn(f));
                        }
                    }
                }
            }
            ("q", _) => {
                if let Some(t) = task_q[i] {
                    ex.poll(t);
                }
            }
            _ => panic!("driver: action {}", a),
        }
    }

    // observations (before anything is dropped: dropping the server connection closes with H3_NO_ERROR)
    let g = w.lock().unwrap();
    let mut out = Vec::new();
    for i in 0..n {
        let o = obs[i].borrow();
        let mut res = o.res.clone().unwrap_or_else(|| "run".into());
        if o.split {
            // <receive half>&<send half>; `-`: the halves were never created (the request ended before split())
            let sres = match (&o.sres, task_q[i].is_some() || o.send_task.is_some()) {
                (Some(x), _) => x.clone(),
                (None, true) => "run".to_string(),
                (None, false) => "-".to_string(),
            };
            res = format!("{}&{}", res, sres);
        }
        let (t, c) = match o.sid {
            Some(id) => {
                let mut calls: Vec<String> = Vec::new();
                for l in &g.log {
                    let ws: Vec<&str> = l.split(' ').collect();
                    match ws.as_slice() {
                        ["reset", s, code] if s.parse::<u64>() == Ok(id) => calls.push(format!("R{}", code)),
                        ["stop", s, code] if s.parse::<u64>() == Ok(id) => calls.push(format!("S{}", code)),
                        ["fin", s] if s.parse::<u64>() == Ok(id) => calls.push("F".into()),
                        _ => {}
                    }
                }
                (tx_items(role, &g.tx_of(id)), if calls.is_empty() { "-".into() } else { calls.join(".") })
            }
            None => ("-".to_string(), "-".to_string()),
        };
        let later = if o.persist { format!(";l={}", if o.later.is_empty() { "-" } else { &o.later }) } else { String::new() };
        out.push(format!("{};d={};tr={};t={};c={}{}", res, hex(&o.data), if o.trailers { 1 } else { 0 }, t, c, later));
    }
    let closes: Vec<String> = g.log.iter().filter_map(|l| l.strip_prefix("close ")).map(|r| r.split(' ').next().unwrap().to_string()).collect();
    let conn = format!(
        "conn={};close={}",
        match ex.result(driver) {
            None => "ok".to_string(),
            Some(s) => s.clone(),
        },
        if closes.is_empty() { "-".into() } else { closes.join(".") }
    );
    drop(g);
    drop(sender);
    drop(keep);
    Outcome { reqs: out, conn }
}

fn touches(j: usize, a: &str) -> bool {
    if let Some(r) = a.strip_prefix('w') {
        return r.split(':').next().and_then(|x| x.parse::<usize>().ok()) == Some(j);
    }
    a == "pd" || a.starts_with('g') || a[1..].parse::<usize>() == Ok(j)
}

fn main() {
    run_lines(|ws| match ws {
        ["sf" | "sfx", role, cf, rs, sc] if cf.starts_with("cfg=") && rs.starts_with("r=") && sc.starts_with("sched=") => {
            let role = match *role {
                "s" => Role::Server,
                "c" => Role::Client,
                _ => return "driver-error role".into(),
            };
            let reqs: Vec<ReqSpec> = rs[2..].split('/').map(parse_req).collect();
            for r in &reqs {
                if expected_hsize(role, r.pad) != r.hsize {
                    return format!("driver-error hsize {} != {}", expected_hsize(role, r.pad), r.hsize);
                }
                if let Some(z) = r.trl {
                    if z < 35 || section(&[("x-t", vec![b't'; (z - 35) as usize])]).1 != z {
                        return format!("driver-error trailer size {}", z);
                    }
                }
            }
            let sched: Vec<&str> = if &sc[6..] == "-" { vec![] } else { sc[6..].split(',').collect() };
            // cfg=g<i|->,u<0|1>: which request carries the connection's grease frame (- = grease off); finish error kind
            let mut it = cf[4..].split(',');
            let holder: Option<usize> = it.next().and_then(|x| x.strip_prefix('g')).and_then(|x| x.parse().ok());
            let unk = it.next() == Some("u1");
            let budget: Option<u64> = it.next().and_then(|x| x.strip_prefix('b')).and_then(|x| x.parse().ok());
            let ext = ws[0] == "sfx";
            let full = run_case(role, &reqs, &sched, holder.is_some(), unk, budget, ext);
            let mut diffs: Vec<String> = Vec::new();
            for j in 0..reqs.len() {
                let sj: Vec<&str> = sched.iter().copied().filter(|a| touches(j, a)).collect();
                let solo = run_case(role, &reqs, &sj, holder == Some(j), unk, budget, ext);
                if solo.reqs[j] != full.reqs[j] {
                    diffs.push(j.to_string());
                }
            }
            let words: Vec<String> = full.reqs.iter().enumerate().map(|(i, r)| format!("r{}={}", i, r)).collect();
            format!(
                "ok {} {} {}",
                words.join(" "),
                full.conn,
                if diffs.is_empty() { "solo=same".to_string() } else { format!("solo=diff{}", diffs.join(".")) }
            )
        }
        _ => "driver-error unknown-case".into(),
    });
}
