//! Shared helpers of the correspondence harness: hex codec, line loop, panic capture.
use std::io::{BufRead, Write};
use std::panic::{catch_unwind, AssertUnwindSafe};

pub fn unhex(s: &str) -> Vec<u8> {
    if s == "-" {
        return Vec::new();
    }
    let b = s.as_bytes();
    (0..b.len() / 2)
        .map(|i| {
            let h = (b[2 * i] as char).to_digit(16).expect("hex");
            let l = (b[2 * i + 1] as char).to_digit(16).expect("hex");
            (h * 16 + l) as u8
        })
        .collect()
}

pub fn hex(b: &[u8]) -> String {
    if b.is_empty() {
        return "-".to_string();
    }
    let mut s = String::with_capacity(b.len() * 2);
    for x in b {
        s.push_str(&format!("{:02x}", x));
    }
    s
}

/// Calls `f` on the whitespace-separated words of every stdin line and prints one result line.
/// A panic inside `f` is an observable result `panic <message>`.
pub fn run_lines<F: FnMut(&[&str]) -> String>(mut f: F) {
    std::panic::set_hook(Box::new(|_| {}));
    let stdin = std::io::stdin();
    let stdout = std::io::stdout();
    let mut out = std::io::BufWriter::new(stdout.lock());
    for line in stdin.lock().lines() {
        let line = line.expect("stdin");
        let ws: Vec<&str> = line.split_whitespace().collect();
        let r = catch_unwind(AssertUnwindSafe(|| f(&ws)));
        let s = match r {
            Ok(s) => s,
            Err(e) => {
                let msg = if let Some(s) = e.downcast_ref::<&str>() {
                    s.to_string()
                } else if let Some(s) = e.downcast_ref::<String>() {
                    s.clone()
                } else {
                    "?".to_string()
                };
                format!("panic {}", msg.replace('\n', " "))
            }
        };
        writeln!(out, "{}", s).unwrap();
    }
    out.flush().unwrap();
}
