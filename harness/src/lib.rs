//! Shared helpers of the correspondence harness: hex codec, line loop, panic capture.
use std::io::{BufRead, Write};
use std::panic::{catch_unwind, AssertUnwindSafe};

pub fn unhex(s: &str) -> Vec<u8> {
    if s == "-" {
        return Vec::new();
    }
    let b = s.as_bytes();
    (0..b.len() / 2)
        .map(|i| {
            let h = (b[2 * i] as char).to_digit(16).expect("hex");
            let l = (b[2 * i + 1] as char).to_digit(16).expect("hex");
            (h * 16 + l) as u8
        })
        .collect()
}

pub fn hex(b: &[u8]) -> String {
    if b.is_empty() {
        return "-".to_string();
    }
    let mut s = String::with_capacity(b.len() * 2);
    for x in b {
        s.push_str(&format!("{:02x}", x));
    }
    s
}

/// Calls `f` on the whitespace-separated words of every stdin line and prints one result line.
/// A panic inside `f` is an observable result `panic <message>`.  A case that does not return within
/// `H3V_CASE_TIMEOUT` seconds (default 30) - a spin or a blocking wait inside h3 - makes a watchdog thread
/// abort the process with exit code 3 and a message naming the case; results of earlier cases were flushed.
pub fn run_lines<F: FnMut(&[&str]) -> String>(mut f: F) {
    use std::sync::atomic::{AtomicU64, Ordering};
    use std::sync::{Arc, Mutex};
    std::panic::set_hook(Box::new(|_| {}));
    let limit: u64 = std::env::var("H3V_CASE_TIMEOUT").ok().and_then(|v| v.parse().ok()).unwrap_or(30);
    let started = Arc::new(AtomicU64::new(0)); // 0 = idle, else ms since t0 (+1)
    let current = Arc::new(Mutex::new(String::new()));
    let t0 = std::time::Instant::now();
    {
        let started = started.clone();
        let current = current.clone();
        std::thread::spawn(move || loop {
            std::thread::sleep(std::time::Duration::from_millis(500));
            let s = started.load(Ordering::SeqCst);
            if s != 0 && (t0.elapsed().as_millis() as u64 + 1).saturating_sub(s) > limit * 1000 {
                let c = current.lock().map(|g| g.clone()).unwrap_or_default();
                eprintln!("watchdog: case did not return within {}s (spin or blocking wait inside h3): {}", limit, c);
                std::process::exit(3);
            }
        });
    }
    let stdin = std::io::stdin();
    let stdout = std::io::stdout();
    let mut out = std::io::BufWriter::new(stdout.lock());
    let mut last_flush = std::time::Instant::now();
    for line in stdin.lock().lines() {
        let line = line.expect("stdin");
        let ws: Vec<&str> = line.split_whitespace().collect();
        if let Ok(mut g) = current.lock() {
            g.clear();
            g.push_str(&line);
        }
        // everything already computed reaches the parent before a possibly hanging case starts
        if last_flush.elapsed().as_millis() > 200 {
            out.flush().unwrap();
            last_flush = std::time::Instant::now();
        }
        started.store(t0.elapsed().as_millis() as u64 + 1, Ordering::SeqCst);
        let _ = simquic::take_lost_wakeups();
        let r = catch_unwind(AssertUnwindSafe(|| f(&ws)));
        started.store(0, Ordering::SeqCst);
        let lost = simquic::take_lost_wakeups();
        let s = match r {
            Ok(s) => s,
            Err(e) => {
                let msg = if let Some(s) = e.downcast_ref::<&str>() {
                    s.to_string()
                } else if let Some(s) = e.downcast_ref::<String>() {
                    s.clone()
                } else {
                    "?".to_string()
                };
                format!("panic {}", msg.replace('\n', " "))
            }
        };
        if lost > 0 {
            // only with H3V_LOSTWAKE=1: some task answered Pending without leaving its waker anywhere
            writeln!(out, "{} LOST-WAKEUP", s).unwrap();
        } else {
            writeln!(out, "{}", s).unwrap();
        }
    }
    out.flush().unwrap();
}

/// A `Buf` made of several chunks (to exercise code generic over `B: Buf` with non-contiguous payloads).
#[derive(Debug, Clone)]
pub struct ChunkBuf {
    chunks: std::collections::VecDeque<bytes::Bytes>,
}

impl ChunkBuf {
    pub fn new(chunks: Vec<bytes::Bytes>) -> Self {
        Self {
            chunks: chunks.into_iter().filter(|c| !c.is_empty()).collect(),
        }
    }
}

impl bytes::Buf for ChunkBuf {
    fn remaining(&self) -> usize {
        self.chunks.iter().map(|c| c.len()).sum()
    }
    fn chunk(&self) -> &[u8] {
        self.chunks.front().map(|c| &c[..]).unwrap_or(&[])
    }
    fn advance(&mut self, mut cnt: usize) {
        while cnt > 0 {
            let front = self.chunks.front_mut().expect("advance past the end of ChunkBuf");
            if cnt < front.len() {
                bytes::Buf::advance(front, cnt);
                return;
            }
            cnt -= front.len();
            self.chunks.pop_front();
        }
    }
}

/// Numeric value of the `Code` named in a Debug rendering such as
/// `InternalConnectionError { code: H3_DATAGRAM_ERROR, .. }` or `... code: 0x1234 ...`.
/// The number comes from the working tree's own `Code::NAME.value()`.
pub fn code_value(debug: &str) -> String {
    use h3::error::Code;
    let table: &[(&str, Code)] = &[
        ("H3_DATAGRAM_ERROR", Code::H3_DATAGRAM_ERROR),
        ("H3_NO_ERROR", Code::H3_NO_ERROR),
        ("H3_GENERAL_PROTOCOL_ERROR", Code::H3_GENERAL_PROTOCOL_ERROR),
        ("H3_INTERNAL_ERROR", Code::H3_INTERNAL_ERROR),
        ("H3_STREAM_CREATION_ERROR", Code::H3_STREAM_CREATION_ERROR),
        ("H3_CLOSED_CRITICAL_STREAM", Code::H3_CLOSED_CRITICAL_STREAM),
        ("H3_FRAME_UNEXPECTED", Code::H3_FRAME_UNEXPECTED),
        ("H3_FRAME_ERROR", Code::H3_FRAME_ERROR),
        ("H3_EXCESSIVE_LOAD", Code::H3_EXCESSIVE_LOAD),
        ("H3_ID_ERROR", Code::H3_ID_ERROR),
        ("H3_SETTINGS_ERROR", Code::H3_SETTINGS_ERROR),
        ("H3_MISSING_SETTINGS", Code::H3_MISSING_SETTINGS),
        ("H3_REQUEST_REJECTED", Code::H3_REQUEST_REJECTED),
        ("H3_REQUEST_CANCELLED", Code::H3_REQUEST_CANCELLED),
        ("H3_REQUEST_INCOMPLETE", Code::H3_REQUEST_INCOMPLETE),
        ("H3_MESSAGE_ERROR", Code::H3_MESSAGE_ERROR),
        ("H3_CONNECT_ERROR", Code::H3_CONNECT_ERROR),
        ("H3_VERSION_FALLBACK", Code::H3_VERSION_FALLBACK),
        ("QPACK_DECOMPRESSION_FAILED", Code::QPACK_DECOMPRESSION_FAILED),
        ("QPACK_ENCODER_STREAM_ERROR", Code::QPACK_ENCODER_STREAM_ERROR),
        ("QPACK_DECODER_STREAM_ERROR", Code::QPACK_DECODER_STREAM_ERROR),
    ];
    if let Some(i) = debug.find("code: ") {
        let rest = &debug[i + 6..];
        let end = rest.find(|c: char| !(c.is_alphanumeric() || c == '_')).unwrap_or(rest.len());
        let name = &rest[..end];
        for (n, c) in table {
            if *n == name {
                return c.value().to_string();
            }
        }
        if let Some(h) = name.strip_prefix("0x") {
            if let Ok(v) = u64::from_str_radix(h, 16) {
                return v.to_string();
            }
        }
        return format!("?{}", name);
    }
    "?nocode".to_string()
}

pub mod simquic;
