//! F24 reproduction: the peer's STOP_SENDING on one request, then the application writes to that request twice
use std::time::Duration;

use bytes::{Bytes, BytesMut};
use http::{Request, Response, StatusCode};

use crate::{
    error::ConnectionError,
    proto::{coding::Encode, frame::Frame},
    qpack, server,
};

use super::h3_quinn;
use super::{init_tracing, Pair};

#[tokio::test]
async fn write_after_stop_sending_stays_a_stream_error() {
    init_tracing();
    let mut pair = Pair::default();
    let mut server = pair.server();

    let client_fut = async {
        let connection = pair.client_inner().await;
        let (mut driver, mut send) = crate::client::new(h3_quinn::Connection::new(connection.clone()))
            .await
            .unwrap();
        // request 1: raw stream, complete GET, then STOP_SENDING on the response direction
        let (mut req_send, mut req_recv) = connection.open_bi().await.unwrap();
        let mut buf = BytesMut::new();
        let req = Request::get("http://localhost/one").body(()).unwrap();
        let (parts, _) = req.into_parts();
        let header = crate::proto::headers::Header::request(parts.method, parts.uri, parts.headers, Default::default()).unwrap();
        let mut block = BytesMut::new();
        qpack::encode_stateless(&mut block, header).unwrap();
        Frame::headers(block.freeze()).encode_with_payload(&mut buf);
        req_send.write_all(&buf[..]).await.unwrap();
        req_send.finish().unwrap();
        req_recv.stop(h3_quinn::quinn::VarInt::from_u32(0x10c)).unwrap();

        let drive = async {
            let _ = std::future::poll_fn(|cx| driver.poll_close(cx)).await;
        };
        let second = async {
            tokio::time::sleep(Duration::from_millis(600)).await;
            // request 2: healthy, through the h3 client
            let mut s = send.send_request(Request::get("http://localhost/two").body(()).unwrap()).await?;
            s.finish().await?;
            let resp = s.recv_response().await?;
            drop(send);
            Ok::<_, crate::error::StreamError>(resp.status())
        };
        tokio::select! { _ = drive => Err(None), r = second => r.map_err(Some) }
    };

    let server_fut = async {
        let conn = server.next().await;
        let mut incoming = server::Connection::new(conn).await.unwrap();
        let mut log = Vec::new();
        let mut n = 0;
        loop {
            match incoming.accept().await {
                Ok(Some(resolver)) => {
                    let (_req, mut stream) = resolver.resolve_request().await.unwrap();
                    n += 1;
                    if n == 1 {
                        tokio::time::sleep(Duration::from_millis(200)).await;
                        let r0 = stream.send_response(Response::builder().status(StatusCode::OK).body(()).unwrap()).await;
                        log.push(format!("r1 send_response: {:?}", r0.err()));
                        let r1 = stream.send_data(Bytes::from_static(b"hello")).await;
                        log.push(format!("r1 send_data#1: {:?}", r1.err()));
                        let r2 = stream.send_data(Bytes::from_static(b"world")).await;
                        log.push(format!("r1 send_data#2: {:?}", r2.err()));
                        let r3 = stream.finish().await;
                        log.push(format!("r1 finish: {:?}", r3.err()));
                    } else {
                        let r = stream.send_response(Response::builder().status(StatusCode::OK).body(()).unwrap()).await;
                        log.push(format!("r2 send_response: {:?}", r.err()));
                        let r = stream.finish().await;
                        log.push(format!("r2 finish: {:?}", r.err()));
                    }
                }
                Ok(None) => { log.push("accept: none".into()); break; }
                Err(e) => { log.push(format!("accept: err {:?}", e)); break; }
            }
        }
        log
    };

    let (log, client) = tokio::join!(server_fut, client_fut);
    for l in &log { println!("{}", l); }
    println!("client second request: {:?}", client);
    assert!(!log.iter().any(|l| l.contains("ConnectionError")), "a stream-scoped STOP_SENDING became a connection error");
    assert!(matches!(client, Ok(StatusCode::OK)), "the healthy request did not complete: {:?}", client);
    let _ = ConnectionError::Timeout;
}
