//! F23 reproduction (drop into h3/src/tests/, add `mod reset_sticky;` to h3/src/tests/mod.rs, run
//! `cargo test -p h3 --lib --offline read_after_reset -- --nocapture`).
//! Before the fix (h3-quinn RecvStream without the `reset` memo) the server's reads were
//!   ["data:3", "err:RemoteTerminate { code: H3_REQUEST_CANCELLED }",
//!    "err:ConnectionError(Local { error: Application { code: H3_FRAME_ERROR, reason: \"received incomplete frame\" } })", ...]
//! and the server driver ended with Err(Local { Application { code: H3_FRAME_ERROR, .. } }): the peer's RESET of ONE
//! request closed the whole connection as soon as the application read that request once more.
//! After the fix every read at and after the reset is RemoteTerminate(H3_REQUEST_CANCELLED) and the connection stays up.
use std::time::Duration;

use bytes::{Buf, BytesMut};
use http::Request;

use crate::{
    error::ConnectionError,
    proto::{coding::Encode, frame::Frame},
    qpack, server,
};

use super::h3_quinn;
use super::{init_tracing, Pair};

#[tokio::test]
async fn read_after_reset_stays_a_stream_error() {
    init_tracing();
    let mut pair = Pair::default();
    let mut server = pair.server();

    let client_fut = async {
        let connection = pair.client_inner().await;
        let (mut driver, send) = crate::client::new(h3_quinn::Connection::new(connection.clone()))
            .await
            .unwrap();
        let (mut req_send, _req_recv) = connection.open_bi().await.unwrap();
        let mut buf = BytesMut::new();
        let req = Request::get("http://localhost/salut").body(()).unwrap();
        let (parts, _) = req.into_parts();
        let header = crate::proto::headers::Header::request(parts.method, parts.uri, parts.headers, Default::default()).unwrap();
        let mut block = BytesMut::new();
        qpack::encode_stateless(&mut block, header).unwrap();
        Frame::headers(block.freeze()).encode_with_payload(&mut buf);
        // DATA frame announcing 10 bytes, only 3 sent
        buf.extend_from_slice(&[0x00, 0x0a, b'a', b'b', b'c']);
        req_send.write_all(&buf[..]).await.unwrap();
        tokio::time::sleep(Duration::from_millis(100)).await;
        req_send.reset(h3_quinn::quinn::VarInt::from_u32(0x10c)).unwrap();
        tokio::time::sleep(Duration::from_millis(400)).await;
        drop(send);
        std::future::poll_fn(|cx| driver.poll_close(cx)).await
    };

    let server_fut = async {
        let conn = server.next().await;
        let mut incoming = server::Connection::new(conn).await.unwrap();
        let resolver = incoming.accept().await.unwrap().expect("request");
        let driver = async move { incoming.accept().await.map(|_| ()) };
        let stream = async {
            let (_, mut stream) = resolver.resolve_request().await.unwrap();
            let mut results = Vec::new();
            for _ in 0..4 {
                match stream.recv_data().await {
                    Ok(Some(mut b)) => results.push(format!("data:{}", b.copy_to_bytes(b.remaining()).len())),
                    Ok(None) => results.push("end".to_string()),
                    Err(e) => results.push(format!("err:{:?}", e)),
                }
            }
            results
        };
        tokio::join!(driver, stream)
    };

    let ((server_driver, results), client_driver) = tokio::join!(server_fut, client_fut);
    println!("server reads: {:?}", results);
    println!("server driver: {:?}", server_driver);
    println!("client driver: {:?}", client_driver);
    let first_err = results.iter().position(|r| r.starts_with("err:")).expect("the reset must be reported");
    for r in &results[first_err..] {
        assert!(r.contains("RemoteTerminate"), "read after the reset: {}", r);
    }
    assert!(!matches!(server_driver, Err(ConnectionError::Local { .. })), "connection closed by the server: {:?}", server_driver);
}
