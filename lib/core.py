"""Orchestration shared by all property checks.  See DESIGN.md sections 2, 4, 5."""
import fcntl
import hashlib
import importlib
import json
import os
import random
import re
import shutil
import subprocess
import sys
import time

ROOT = os.path.dirname(os.path.dirname(os.path.abspath(__file__)))
REPO = os.environ.get('VERIF_REPO', '/repo')
CACHE = os.path.join(ROOT, '.cache')
COQ = os.path.join(ROOT, 'coq')
COVERAGE = os.environ.get('VERIF_COVERAGE')   # directory for .profraw files; measurement mode of tools/coverage.py
sys.path.insert(0, os.path.join(ROOT, 'translate'))
sys.path.insert(0, os.path.join(ROOT, 'lib'))

HYGIENE_RE = re.compile(r'\b(Admitted|admit|Axiom|Axioms|Parameter|Parameters|Conjecture|Hypothesis|Variable|Variables|Hypotheses)\b|Unset Guard|bypass_check|type-in-type|impredicative-set|Admit Obligations')

TRUSTED_BASE_COMMON = [
    'Coq 8.16.1 kernel via coqc (full .vo build, no -vos); vm_compute used for finite table facts and examples; no native_compute',
    'no axioms: every pinned theorem must print "Closed under the global context" (checked on every run)',
    'source-fact translator translate/*.py (regex-level reader of the named Rust items)',
    'extraction with ExtrOcamlBasic only (bool, option, list, prod, unit, sumbool mapped to OCaml); N/positive stay extracted datatypes; no Extract Constant',
    'OCaml 4.13.1 + ocaml/common.ml + per-property driver (parsing/printing)',
    'Rust harness harness/ (h3v) built against /repo working tree with --cfg h3_verif, rustc/cargo',
    'hand-written Gallina model of the Rust control flow is tied to the code by the correspondence run only',
]


def log(*a):
    print(*a, file=sys.stderr, flush=True)


class CheckError(Exception):
    """Infrastructure failure (exit 2, no verdict)."""


class Lock:
    def __init__(self, name):
        os.makedirs(CACHE, exist_ok=True)
        self.path = os.path.join(CACHE, name + '.lock')

    def __enter__(self):
        self.f = open(self.path, 'w')
        fcntl.flock(self.f, fcntl.LOCK_EX)
        return self

    def __exit__(self, *a):
        fcntl.flock(self.f, fcntl.LOCK_UN)
        self.f.close()


def run(cmd, cwd=None, timeout=None, env=None, input_bytes=None):
    e = dict(os.environ)
    e.update({'CARGO_NET_OFFLINE': 'true'})
    if env:
        e.update(env)
    p = subprocess.run(cmd, cwd=cwd, env=e, input=input_bytes, stdout=subprocess.PIPE,
                       stderr=subprocess.STDOUT, timeout=timeout, shell=isinstance(cmd, str))
    return p.returncode, p.stdout.decode('utf-8', 'replace')


# ------------------------------------------------------------------ translate

def write_if_changed(path, text):
    try:
        if open(path).read() == text:
            return False
    except FileNotFoundError:
        pass
    os.makedirs(os.path.dirname(path), exist_ok=True)
    with open(path, 'w') as f:
        f.write(text)
    return True


def all_gen_modules():
    d = os.path.join(ROOT, 'translate')
    return sorted(f[:-3] for f in os.listdir(d) if f.startswith('gen_') and f.endswith('.py'))


def translate(gen_modules):
    """Regenerate coq/Gen/<Name>.v from the working tree.  Returns info per module."""
    info = {}
    for modname in gen_modules:
        try:
            mod = importlib.import_module(modname)
            if not hasattr(mod, 'NAME'):
                continue
        except Exception:
            continue
        out = os.path.join(COQ, 'Gen', mod.NAME + '.v')
        snap = os.path.join(ROOT, 'translate', 'snapshots', mod.NAME + '.v')
        entry = {'module': modname, 'anchor_lost': None, 'differs_from_snapshot': False}
        try:
            from rustsrc import AnchorLost
            facts, spans = mod.extract(REPO)
            text = mod.render(facts)
            entry['spans'] = {k: list(v) for k, v in spans.items()}
        except Exception as ex:  # AnchorLost or a parse surprise: soft failure
            entry['anchor_lost'] = '%s: %s' % (type(ex).__name__, ex)
            text = open(snap).read()
        write_if_changed(out, text)
        try:
            snaptext = open(snap).read()
            if snaptext != text:
                entry['differs_from_snapshot'] = True
                import difflib
                entry['diff'] = '\n'.join(list(difflib.unified_diff(
                    snaptext.splitlines(), text.splitlines(), 'snapshot', 'generated', lineterm='', n=0))[:60])
        except FileNotFoundError:
            entry['differs_from_snapshot'] = None
        info[mod.NAME] = entry
    return info


# ------------------------------------------------------------------ coq

def mkproject():
    rc, out = run([os.path.join(ROOT, 'tools', 'mkproject.sh')])
    if rc != 0:
        raise CheckError('mkproject failed: ' + out)


def coq_make(targets, timeout=1500, jobs=16):
    mkproject()
    rc, out = run(['make', '-j%d' % jobs] + targets, cwd=COQ, timeout=timeout)
    return rc, out


def parse_assumptions(out):
    """Count Print Assumptions results in make output."""
    closed = len(re.findall(r'^Closed under the global context', out, re.M))
    axioms = re.findall(r'^Axioms:\n((?:.+\n)+?)(?=^\S|\Z)', out, re.M)
    return closed, axioms


def theorem_names(vfile):
    txt = open(vfile).read()
    # strip comments
    txt = re.sub(r'\(\*.*?\*\)', '', txt, flags=re.S)
    return re.findall(r'^\s*(?:Theorem|Example|Lemma|Corollary)\s+(\w+)', txt, re.M)


def printed_names(vfile):
    txt = open(vfile).read()
    return re.findall(r'^\s*Print Assumptions\s+(\w+)\.', txt, re.M)


def hygiene(files):
    bad = []
    for f in files:
        txt = open(f).read()
        txt2 = re.sub(r'\(\*.*?\*\)', lambda m: ' ' * len(m.group(0)), txt, flags=re.S)
        for i, line in enumerate(txt2.splitlines(), 1):
            m = HYGIENE_RE.search(line)
            if m:
                # Variable/Hypothesis are allowed inside a Section only
                if m.group(1) in ('Variable', 'Variables', 'Hypothesis', 'Hypotheses'):
                    if in_section(txt2, i):
                        continue
                bad.append('%s:%d: %s' % (os.path.relpath(f, ROOT), i, line.strip()[:100]))
    return bad


def in_section(txt, lineno):
    depth = 0
    for i, line in enumerate(txt.splitlines(), 1):
        if i >= lineno:
            break
        if re.match(r'\s*Section\s+\w+', line):
            depth += 1
        elif re.match(r'\s*End\s+\w+', line) and depth > 0:
            depth -= 1
    return depth > 0


def coq_deps(vo_targets):
    """Transitive .v closure of the given targets using the Makefile's dependency file."""
    dep = {}
    dfile = os.path.join(COQ, '.Makefile.d')
    if os.path.exists(dfile):
        for line in open(dfile):
            if ':' not in line:
                continue
            lhs, rhs = line.split(':', 1)
            outs = [x for x in lhs.split() if x.endswith('.vo')]
            ins = [x for x in rhs.split() if x.endswith('.vo') or x.endswith('.v')]
            for o in outs:
                dep[o] = ins
    seen, stack = set(), list(vo_targets)
    while stack:
        t = stack.pop()
        if t in seen:
            continue
        seen.add(t)
        for d in dep.get(t, []):
            if d.endswith('.vo'):
                stack.append(d)
    return sorted(os.path.join(COQ, t[:-1]) for t in seen if os.path.exists(os.path.join(COQ, t[:-1])))


# ------------------------------------------------------------------ ocaml model

def build_model(pid, extract_v, driver_ml):
    """Extract (coqc) and compile the OCaml model driver; cached on input hash."""
    with Lock('ocaml-' + pid):
        return _build_model(pid, extract_v, driver_ml)


def _build_model(pid, extract_v, driver_ml):
    d = os.path.join(CACHE, 'ocaml', pid)
    os.makedirs(d, exist_ok=True)
    exe = os.path.join(d, 'h3model')
    # hash: extraction file + driver + common + all .vo the extraction depends on (approximated by coq/Model,Spec,Base,Gen .v)
    h = hashlib.sha256()
    srcs = [extract_v, driver_ml, os.path.join(ROOT, 'ocaml', 'common.ml')]
    for sub in ('Base', 'Gen', 'Spec', 'Model'):
        for fn in sorted(os.listdir(os.path.join(COQ, sub))):
            if fn.endswith('.v'):
                srcs.append(os.path.join(COQ, sub, fn))
    for s in srcs:
        h.update(s.encode())
        h.update(open(s, 'rb').read())
    stamp = os.path.join(d, 'stamp')
    digest = h.hexdigest()
    if os.path.exists(exe) and os.path.exists(stamp) and open(stamp).read() == digest:
        return exe
    with Lock('build'):
        # bring every .vo the extraction file imports up to date first (a regenerated Gen fact that no pinned
        # theorem depends on would otherwise leave a stale .vo behind: "inconsistent assumptions")
        rcd, outd = run(['coqdep', '-Q', '.', 'H3V', os.path.relpath(extract_v, COQ)], cwd=COQ, timeout=120)
        deps = sorted(set(re.findall(r'(\S+\.vo)\b', outd.split(':', 1)[1] if ':' in outd else '')))
        deps = [x for x in deps if not x.startswith('/') and not x.endswith(os.path.basename(extract_v) + 'o')]
        if deps:
            rcm, outm = coq_make(deps)
            if rcm != 0:
                raise CheckError('model files do not build for %s:\n%s' % (pid, outm[-3000:]))
        rc, out = run(['coqc', '-Q', COQ, 'H3V', '-w', '-notation-overridden,-extraction-opaque-accessed,-extraction-reserved-identifier',
                       '-o', os.path.join(d, os.path.basename(extract_v) + 'o'), extract_v], cwd=d, timeout=600)
    if rc != 0:
        raise CheckError('extraction failed for %s:\n%s' % (pid, out[-3000:]))
    base = None
    for fn in os.listdir(d):
        if fn.endswith('_model.ml'):
            base = fn[:-3]
    if base is None:
        raise CheckError('no extracted model for ' + pid)
    with open(os.path.join(d, 'driver.ml'), 'w') as f:
        f.write('open %s\n' % (base[0].upper() + base[1:]))
        f.write(open(os.path.join(ROOT, 'ocaml', 'common.ml')).read())
        f.write('\n# 1 "%s"\n' % driver_ml)
        f.write(open(driver_ml).read())
    rc, out = run(['ocamlfind', 'ocamlopt', '-O2', '-w', '-a', base + '.mli', base + '.ml', 'driver.ml', '-o', 'h3model'],
                  cwd=d, timeout=600)
    if rc != 0:
        raise CheckError('ocaml build failed for %s:\n%s' % (pid, out[-3000:]))
    open(stamp, 'w').write(digest)
    return exe


# ------------------------------------------------------------------ rust harness

def build_harness(bins, hdir='harness'):
    h = os.path.join(ROOT, hdir)
    if not os.path.exists(os.path.join(h, 'Cargo.lock')):
        shutil.copy(os.path.join(REPO, 'Cargo.lock'), os.path.join(h, 'Cargo.lock'))
    target = os.path.join(CACHE, 'target')
    cmd = ['cargo', 'build', '--release', '--offline']
    flags = '--cfg h3_verif'
    if COVERAGE:
        # measurement mode only (tools/coverage.py): instrumented build with the nightly toolchain (it ships llvm-tools)
        target = os.path.join(CACHE, 'target-cov')
        cmd = ['cargo', '+nightly', 'build', '--release', '--offline']
        flags += ' -C instrument-coverage'
    for b in bins:
        cmd += ['--bin', b]
    rc, out = run(cmd, cwd=h, timeout=1800,
                  env={'CARGO_TARGET_DIR': target, 'RUSTFLAGS': flags, 'CARGO_NET_OFFLINE': 'true'})
    if rc != 0:
        raise CheckError('cargo build of the harness failed (the harness no longer compiles against /repo):\n' + out[-4000:])
    return {b: os.path.join(target, 'release', b) for b in bins}


# ------------------------------------------------------------------ running cases

def run_cases(exe, lines, shards=16, timeout=3600, env=None):
    """Feed case lines to exe (sharded); returns list of output lines (same order)."""
    if not lines:
        return []
    n = max(1, min(shards, (len(lines) + 199) // 200))
    chunks = [lines[i::n] for i in range(n)]
    procs = []
    e = dict(os.environ)
    if env:
        e.update(env)
    if COVERAGE:
        e['LLVM_PROFILE_FILE'] = os.path.join(COVERAGE, os.path.basename(exe) + '-%p-%m.profraw')
    for ch in chunks:
        p = subprocess.Popen([exe], stdin=subprocess.PIPE, stdout=subprocess.PIPE, stderr=subprocess.PIPE, env=e)
        procs.append(p)
    import threading
    outs = [None] * n

    def feed(i):
        data = ('\n'.join(chunks[i]) + '\n').encode()
        o, err = procs[i].communicate(data, timeout=timeout)
        outs[i] = (o.decode('utf-8', 'replace').split('\n'), err.decode('utf-8', 'replace'))
    ths = [threading.Thread(target=feed, args=(i,)) for i in range(n)]
    for t in ths:
        t.start()
    for t in ths:
        t.join()
    res = [None] * len(lines)
    for i in range(n):
        o, err = outs[i]
        if o and o[-1] == '':
            o = o[:-1]
        if len(o) != len(chunks[i]) or procs[i].returncode != 0:
            # a crash of the process (abort / stack overflow) is itself an observation
            for k in range(len(chunks[i])):
                res[i + k * n] = o[k] if k < len(o) else 'crash exit=%s %s' % (procs[i].returncode, err.strip()[-200:].replace('\n', ' '))
        else:
            for k, l in enumerate(o):
                res[i + k * n] = l
    return res


def spec_match(model, spec):
    """spec may contain * wildcards for whole words."""
    if spec is None:
        return True
    a, b = model.split(), spec.split()
    if b and b[-1] == '**':
        b = b[:-1]
        a = a[:len(b)]
    if len(a) != len(b):
        return False
    return all(y == '*' or x == y for x, y in zip(a, b))


# ------------------------------------------------------------------ known findings

def load_known(pid):
    p = os.path.join(ROOT, 'known_findings.json')
    if not os.path.exists(p):
        return []
    data = json.load(open(p))
    return [e for e in data.get('open', []) if e.get('property') == pid]


# ------------------------------------------------------------------ the generic check

class Property:
    """Override in lib/props/<id>.py"""
    id = None
    gen_modules = []
    properties_v = None          # e.g. 'Properties/C16.v'
    extra_targets = []
    extract_v = None             # e.g. 'Extract/ExtractC16.v'
    driver_ml = None             # e.g. 'C16_driver.ml'
    harness_bin = None
    rule = ''
    partial_note = ''
    trusted_extra = []
    allowed_axioms = []          # names allowed in Print Assumptions output

    def corpus(self):
        p = os.path.join(ROOT, 'corpus', self.id)
        out = []
        if os.path.isdir(p):
            for fn in sorted(os.listdir(p)):
                if fn.endswith('.case'):
                    for line in open(os.path.join(p, fn)):
                        line = line.split('#')[0].strip()
                        if line:
                            out.append(line)
        return out

    def cases(self, tier, rng):
        return []

    def canon(self, case, out):
        """canonicalise an impl or model result for comparison"""
        return out

    def spec_ok(self, case, out, spec):
        """does result `out` (impl or model) satisfy the specification oracle's answer `spec`?"""
        if spec is None:
            return True
        return spec_match(self.canon(case, out), self.canon(case, spec))

    def nontrivial_key(self, case, impl_out):
        """return a hashable key if the case is non-trivial, else None"""
        return case

    def family(self, case):
        return case.split()[0] if case else ''

    def shrink_candidates(self, case):
        return []

    def impl_env(self):
        return None

    def extra_checks(self, ctx):
        """hook: returns list of (kind, message, replay_input) violations"""
        return []


def write_replay(pid, kind, payload):
    d = os.path.join(ROOT, 'replay')
    os.makedirs(d, exist_ok=True)
    h = hashlib.sha256(json.dumps(payload, sort_keys=True).encode()).hexdigest()[:10]
    p = os.path.join(d, '%s_%s_%s.json' % (pid, kind, h))
    payload = dict(payload)
    payload['property'] = pid
    payload['kind'] = kind
    payload['how_to_replay'] = './check %s --replay %s' % (pid, os.path.relpath(p, ROOT))
    with open(p, 'w') as f:
        json.dump(payload, f, indent=1)
    return os.path.relpath(p, ROOT)


def eval_cases(prop, bins, model_exe, lines):
    impl = run_cases(bins[prop.harness_bin], lines, env=prop.impl_env())
    mod = run_cases(model_exe, lines)
    rows = []
    for c, i, m in zip(lines, impl, mod):
        if ' | ' in m:
            mm, ss = m.split(' | ', 1)
        else:
            mm, ss = m, None
        rows.append((c, i, mm.strip(), ss.strip() if ss is not None else None))
    return rows


def judge(prop, row):
    """returns (impl_vs_model_ok, impl_vs_spec_ok, model_vs_spec_ok)"""
    c, i, m, s = row
    ci, cm = prop.canon(c, i), prop.canon(c, m)
    return (ci == cm, prop.spec_ok(c, i, s), prop.spec_ok(c, m, s))


def shrink(prop, bins, model_exe, case, pred):
    """greedy shrinking: pred(row)->True if still failing"""
    cur = case
    for _ in range(200):
        cands = prop.shrink_candidates(cur)
        if not cands:
            break
        rows = eval_cases(prop, bins, model_exe, cands)
        nxt = None
        for r in rows:
            if pred(r):
                nxt = r[0]
                break
        if nxt is None or nxt == cur:
            break
        cur = nxt
    return cur


def check_property(prop, tier, seed, replay=None):
    t0 = time.time()
    pid = prop.id
    violations = []   # (kind, detail dict)
    notes = []
    ev = {'property_id': pid, 'tier': tier, 'seed': seed, 'level': 'proof'}
    cov = {}

    with Lock('build'):
        # 1. translate
        # every extractor is run (they are cheap) so that models imported from other properties find their facts;
        # only the facts in this property's closure are judged below
        tinfo_all = translate(all_gen_modules())
        listed = set()
        for mname in prop.gen_modules:
            try:
                listed.add(importlib.import_module(mname).NAME)
            except Exception:
                pass
        mkproject()
        run(['make', '-n', prop.properties_v + 'o'], cwd=COQ, timeout=300)   # refreshes .Makefile.d
        in_closure = {os.path.basename(f)[:-2] for f in coq_deps([prop.properties_v + 'o']) if '/Gen/' in f}
        tinfo = {k: v for k, v in tinfo_all.items() if k in listed or k in in_closure}
        cov['generated_facts'] = tinfo
        for gname, ginfo in tinfo.items():
            if ginfo.get('anchor_lost'):
                # the source item could not be read any more: the theorems are no longer re-checked against
                # what the code says now, so the tie is broken (the correspondence run below searches for an input)
                violations.append(('translator', {'generated_file': gname, 'anchor_lost': ginfo['anchor_lost'],
                                                 'theorem_file': prop.properties_v}))
        # 2. prove
        targets = [prop.properties_v + 'o'] + [t for t in prop.extra_targets]
        t1 = time.time()
        # force the Properties file to be recompiled so that Print Assumptions output is seen
        try:
            os.remove(os.path.join(COQ, prop.properties_v + 'o'))
        except FileNotFoundError:
            pass
        rc, out = coq_make(targets)
        cov['coq_build_s'] = round(time.time() - t1, 1)
        pv = os.path.join(COQ, prop.properties_v)
        names = theorem_names(pv)
        printed = printed_names(pv)
        closed, axioms = parse_assumptions(out)
        obligations = len(names)
        proof_ok = (rc == 0)
        if proof_ok:
            discharged = obligations
        else:
            discharged = 0
            err = out[-2500:]
            m = re.search(r'File "([^"]+)", line (\d+)', out)
            where = '%s:%s' % (m.group(1), m.group(2)) if m else '?'
            violations.append(('proof', {'theorem_file': prop.properties_v, 'broken_at': where, 'coq_error': err}))
        bad_ax = []
        for blk in axioms:
            for line in blk.splitlines():
                nm = line.strip().split(' ')[0]
                if nm and nm not in prop.allowed_axioms and ':' in line:
                    bad_ax.append(line.strip())
        if proof_ok and (bad_ax or closed + len(axioms) < len(printed)):
            violations.append(('assumptions', {'unexpected_axioms': bad_ax, 'closed': closed, 'printed': len(printed)}))
        missing_print = [n for n in names if n.startswith(pid + '_') and n not in printed and not n.endswith('_inhabited')]
        if missing_print:
            notes.append('theorems without Print Assumptions: ' + ','.join(missing_print))
        # hygiene over the closure
        closure = coq_deps([prop.properties_v + 'o'])
        bad = hygiene(closure)
        if bad:
            violations.append(('hygiene', {'lines': bad[:20]}))
        cov['obligations'] = obligations
        cov['discharged'] = discharged
        cov['theorems'] = names
        cov['assumptions_closed'] = closed
        cov['checker_cmd'] = 'cd coq && make -j16 ' + ' '.join(targets) + ' (coqc 8.16.1, full .vo)'
        thorough_scratch = (tier == 'thorough' and proof_ok and not replay)
    if thorough_scratch:
        # from-scratch rebuild of the property's closure + coqchk, in a private copy of the sources so that the
        # shared build tree (other checks may be running) is never cleaned
        t2 = time.time()
        scratch = os.path.join(CACHE, 'coq-scratch', pid)
        shutil.rmtree(scratch, ignore_errors=True)
        os.makedirs(scratch)
        for sub in ('Base', 'Gen', 'Spec', 'Model', 'Proofs', 'Properties', 'Refute'):
            srcd = os.path.join(COQ, sub)
            if not os.path.isdir(srcd):
                continue
            os.makedirs(os.path.join(scratch, sub))
            for fn in os.listdir(srcd):
                if fn.endswith('.v'):
                    shutil.copy(os.path.join(srcd, fn), os.path.join(scratch, sub, fn))
        # only the closure of this property (by the dependency file of the main tree)
        closure_rel = [os.path.relpath(f, COQ) for f in coq_deps([prop.properties_v + 'o'])]
        with open(os.path.join(scratch, '_CoqProject'), 'w') as f:
            f.write(open(os.path.join(COQ, '_CoqProject.head')).read())
            for r in sorted(closure_rel):
                f.write(r + '\n')
        rc1, out1 = run('coq_makefile -f _CoqProject -o Makefile >/dev/null && make -j8 ' + prop.properties_v + 'o', cwd=scratch, timeout=3000)
        cov['clean_rebuild_s'] = round(time.time() - t2, 1)
        cov['clean_rebuild_files'] = len(closure_rel)
        if rc1 != 0:
            violations.append(('proof', {'theorem_file': prop.properties_v, 'broken_at': 'clean rebuild', 'coq_error': out1[-2000:]}))
        else:
            t3 = time.time()
            lib = 'H3V.' + prop.properties_v[:-2].replace('/', '.')
            rc2, out2 = run(['coqchk', '-silent', '-o', '-Q', '.', 'H3V', lib], cwd=scratch, timeout=3000)
            cov['coqchk_s'] = round(time.time() - t3, 1)
            cov['coqchk'] = out2[-600:]
            if rc2 != 0 or 'Axioms: <none>' not in out2.replace('\n  ', ' ').replace('* Axioms: <none>', 'Axioms: <none>'):
                if rc2 != 0:
                    violations.append(('coqchk', {'output': out2[-2000:]}))
                else:
                    ax = re.search(r'\* Axioms:(.*?)\n\s*\n', out2, re.S)
                    axs = [a.strip() for a in (ax.group(1).split('\n') if ax else []) if a.strip() and a.strip() != '<none>']
                    bad = [a for a in axs if a.split()[0] not in prop.allowed_axioms]
                    if bad:
                        violations.append(('assumptions', {'coqchk_axioms': bad}))
        shutil.rmtree(scratch, ignore_errors=True)
    # 3. model + harness builds
    model_exe = None
    try:
        # the model needs its .vo files even when a proof broke
        if not proof_ok:
            with Lock('build'):
                coq_make(prop.model_targets if hasattr(prop, 'model_targets') else [])
        model_exe = build_model(pid, os.path.join(COQ, prop.extract_v), os.path.join(ROOT, 'ocaml', prop.driver_ml))
    except CheckError as ex:
        if proof_ok:
            raise
        notes.append('model not buildable after broken proof: %s' % str(ex)[:300])
    bins = build_harness([prop.harness_bin] + list(getattr(prop, 'extra_bins', [])), getattr(prop, 'harness_dir', 'harness'))

    # 4. cases
    rng = random.Random(seed)
    if replay:
        rp = json.load(open(replay))
        lines = [rp['input']] if 'input' in rp and rp['input'] else []
    else:
        lines = prop.corpus()
        ncorpus = len(lines)
        lines += list(prop.cases(tier, rng))
    # dedupe preserving order
    seen = set()
    ul = []
    for l in lines:
        if l not in seen:
            seen.add(l)
            ul.append(l)
    lines = ul
    t3 = time.time()
    if model_exe is None:
        rows = []
    else:
        rows = eval_cases(prop, bins, model_exe, lines)
    cov['run_s'] = round(time.time() - t3, 1)

    known = load_known(pid)
    fam_hist, nontriv, kinds = {}, set(), {}
    bad_rows = []
    for row in rows:
        c, i, m, s = row
        fam = prop.family(c)
        fam_hist[fam] = fam_hist.get(fam, 0) + 1
        k = prop.nontrivial_key(c, i)
        if k is not None:
            nontriv.add(k)
        kind = i.split()[0] if i else '?'
        kinds[kind] = kinds.get(kind, 0) + 1
        im, isp, ms = judge(prop, row)
        if not (im and isp and ms):
            bad_rows.append((row, im, isp, ms))
    if replay:
        for row in rows:
            print('case : %s\nimpl : %s\nmodel: %s\nspec : %s' % row)

    reported_known = set()
    # concrete property failures (impl disagrees with the spec oracle) first, wherever they are in the run
    bad_rows.sort(key=lambda t: (t[2], t[1]))
    for (row, im, isp, ms) in bad_rows[:400]:
        c, i, m, s = row
        kf = [e for e in known if e.get('input') == c and e.get('impl') in (None, i)]
        if kf:
            for e in kf:
                if e['id'] not in reported_known:
                    reported_known.add(e['id'])
                    print('KNOWN-FINDING: property=%s %s' % (pid, e['what_fails']))
            continue
        if not isp:
            kind = 'property-fails-on-input'
        elif not im:
            kind = 'correspondence'
        else:
            kind = 'model-vs-spec'
        violations.append((kind, {'input': c, 'impl': i, 'model': m, 'spec': s}))
        if len([v for v in violations if v[0] == kind]) >= 3:
            break
    # open known findings that no longer fail are reported as such (no effect on verdict)
    extra = prop.extra_checks({'tier': tier, 'seed': seed, 'bins': bins, 'model_exe': model_exe, 'rows': rows, 'rng': rng, 'known': known})
    for v in extra:
        violations.append(v)

    # 5. verdict
    exit_code = 0
    concrete = [v for v in violations if v[0] in ('property-fails-on-input',) or (v[0] not in ('proof', 'translator', 'assumptions', 'hygiene', 'coqchk', 'correspondence', 'model-vs-spec') and v[1].get('input'))]
    out_lines = []
    if violations:
        exit_code = 1
        if concrete:
            kind, det = concrete[0]
            # shrink
            if model_exe is not None and prop.shrink_candidates(det.get('input', '')):
                small = shrink(prop, bins, model_exe, det['input'], lambda r: not judge(prop, r)[1])
                if small != det['input']:
                    r = eval_cases(prop, bins, model_exe, [small])[0]
                    det = dict(det, input=small, impl=r[1], model=r[2], spec=r[3], shrunk_from=det['input'])
            det = dict(det)
            det['other_broken'] = [(k, {kk: vv for kk, vv in d.items() if kk != 'coq_error'}) for k, d in violations if (k, d) != concrete[0]][:5]
            det['generated_fact_diff'] = {k: v.get('diff') for k, v in tinfo.items() if v.get('differs_from_snapshot')}
            det['seed'] = seed
            path = write_replay(pid, kind, det)
            out_lines.append('VIOLATION property=%s replay=%s' % (pid, path))
        else:
            kind, det = violations[0]
            det = dict(det)
            det['all_broken'] = [(k, {kk: vv for kk, vv in d.items() if kk != 'coq_error'}) for k, d in violations][:8]
            det['generated_fact_diff'] = {k: v.get('diff') for k, v in tinfo.items() if v.get('differs_from_snapshot')}
            det['seed'] = seed
            det['explanation'] = ('no input was found on which the implementation violates the specification oracle; '
                                  'the named theorem / correspondence no longer checks, so the property is no longer shown to hold')
            path = write_replay(pid, kind, det)
            out_lines.append('VIOLATION property=%s replay=%s no-failing-input-found' % (pid, path))

    # 6. evidence
    cov['evaluations'] = len(rows)
    cov['distinct_nontrivial'] = len(nontriv)
    cov['rule'] = prop.rule
    cov['traces_validated_against_impl'] = len(rows)
    cov['families'] = fam_hist
    cov['impl_result_kinds'] = kinds
    cov['samples'] = [{'case': r[0], 'impl': r[1], 'model': r[2], 'spec': r[3]} for r in rows[:3] + rows[len(rows) // 2: len(rows) // 2 + 3]][:6] or [{'theorems': names[:5]}]
    cov['trusted_base'] = TRUSTED_BASE_COMMON + list(prop.trusted_extra)
    cov['exhaustive'] = False
    cov['notes'] = notes
    ev['coverage'] = cov
    ev['assumptions'] = TRUSTED_BASE_COMMON + list(prop.trusted_extra) + ([prop.partial_note] if prop.partial_note else [])
    ev['wall_s'] = round(time.time() - t0, 1)
    ev['violations'] = len(violations)
    if not replay:
        os.makedirs(os.path.join(ROOT, 'evidence'), exist_ok=True)
        with open(os.path.join(ROOT, 'evidence', pid + '.json'), 'w') as f:
            json.dump(ev, f, indent=1, default=str)
    for l in out_lines:
        print(l)
    if not violations:
        print('OK property=%s tier=%s theorems=%d/%d cases=%d nontrivial=%d wall=%.1fs' % (
            pid, tier, discharged, obligations, len(rows), len(nontriv), time.time() - t0))
    return exit_code
