import itertools

from core import Property
from props.c08 import Oracle

ENDINGS = [
    ['dropres'], ['fin'], ['rst'], ['badqpack'], ['malformed'], ['unexpected'],
    ['toobig'], ['truncfin'], ['truncrst'], ['unknown'],
    ['ok', 'finish', 'drop'], ['ok', 'drop'], ['ok', 'rstafter', 'drop'],
    ['ok', 'split', 'dropsend', 'droprecv'], ['ok', 'finish', 'split', 'droprecv', 'dropsend'],
    ['ok', 'data', 'trailers', 'recv', 'rtrailers', 'stopstream', 'stopsending'],   # every other handle method, handle KEPT: not ended
    ['ok', 'trailers', 'finish', 'drop'],
    ['ok', 'split', 'dropsend'],      # one half kept: the request has NOT ended
    ['ok'],                           # stream kept
    [],                               # resolver kept
]


def merges(lists, rng, limit):
    """interleavings of the given sequences (all of them when few, else a seeded sample)"""
    total = sum(len(l) for l in lists)
    if total == 0:
        return [[]]
    # count
    from math import factorial
    cnt = factorial(total)
    for l in lists:
        cnt //= factorial(len(l))
    out = []
    if cnt <= limit:
        def rec(pos, acc):
            if all(p == len(l) for p, l in zip(pos, lists)):
                out.append(list(acc))
                return
            for i, l in enumerate(lists):
                if pos[i] < len(l):
                    pos[i] += 1
                    acc.append(l[pos[i] - 1])
                    rec(pos, acc)
                    acc.pop()
                    pos[i] -= 1
        rec([0] * len(lists), [])
        return out
    seen = set()
    # always the sequential one
    seq = [x for l in lists for x in l]
    out.append(seq)
    seen.add(tuple(seq))
    for _ in range(limit * 3):
        pos = [0] * len(lists)
        acc = []
        while True:
            av = [i for i, l in enumerate(lists) if pos[i] < len(l)]
            if not av:
                break
            i = rng.choice(av)
            acc.append(lists[i][pos[i]])
            pos[i] += 1
        if tuple(acc) not in seen:
            seen.add(tuple(acc))
            out.append(acc)
        if len(out) >= limit:
            break
    return out


class P(Property):
    id = 'C09'
    gen_modules = ['gen_codes', 'gen_varint', 'gen_goaway']
    properties_v = 'Properties/C09.v'
    model_targets = ['Model/Goaway.vo', 'Model/Ongoing.vo', 'Spec/GoawaySpec.vo', 'Spec/DrainSpec.vo']
    extra_targets = ['Model/GoawayWrite.vo']
    extract_v = 'Extract/ExtractC09.v'
    driver_ml = 'C09_driver.ml'
    harness_bin = 'c09'
    rule = ('drain: the REAL server::Connection over SimQuic under the deterministic executor (accept task polled only when '
            'woken; still pending at quiescence = hang). All histories of 0..3 (quick) / 0..4 (thorough) accepted requests x 20 '
            'life cycles each (resolver dropped, FIN / RESET before HEADERS, QPACK-invalid, malformed, wrong first frame, field section too large (431), FIN / RESET inside the HEADERS frame, transport stream error, '
            'finish+drop, drop, RESET after HEADERS, split with the halves dropped in either order, one half kept, stream kept, '
            'resolver kept) x every arrival/acceptance order of the stream ids for <= 2 requests (thorough <= 3; beyond: stream-id order + one seeded other order) x interleavings of the life cycles x the peer GOAWAY at every position x '
            'eager / lazy polling, plus GOAWAY reception variants (frame split at every byte with the accept task run in between, 2-byte push ids, MAX_PUSH_ID / CANCEL_PUSH / reserved frames in the same chunk), every other public method of the request handle called with the handle kept, plus a family with flow control closed on the control stream (closing GOAWAY pending, accept task resumed) and transport failure (XU), plus the structured family None -> lower-id arrival handed out -> arrival beyond the final GOAWAY refused while it is alive, plus seeded random histories (arrivals after GOAWAY, operations before hand-out, several '
            'GOAWAYs). Every 5th (thorough: 3rd) case is re-run in a seeded environment variant: default config (grease on), 3 uni-stream credits, other peer uni streams first / type byte pending, chunked control preamble, control stream late. Errors are observed as code + variant + transport close() code. Every implementation trace is judged by the extracted Coq drain monitor. non-trivial = distinct cases in '
            'which at least one request was handed out')

    def __init__(self):
        self.oracle = Oracle(self.id)

    def cases(self, tier, rng):
        out = []
        maxk = 3 if tier == 'quick' else 4
        for k in range(0, maxk + 1):
            ids = [4 * i for i in range(k)]
            perms = list(itertools.permutations(ids))
            for ends in itertools.product(range(len(ENDINGS)), repeat=k):
                if k == 3 and tier == 'quick' and rng.random() < 0.85:
                    continue
                lists = [['x%d:%s' % (ids[i], a) for a in ENDINGS[e]] for i, e in enumerate(ends)]
                lim = (80 if tier != 'quick' else 24) if k <= 2 else (2 if k == 3 else 1)
                # arrival (= acceptance) order is a dimension: every order for <= 2 requests (thorough: <= 3),
                # stream-id order plus one seeded other order beyond
                if k <= 2 or (k == 3 and tier != 'quick'):
                    orders = perms
                else:
                    orders = [perms[0], perms[rng.randrange(1, len(perms))]]
                for order, body in itertools.product(orders, merges(lists, rng, lim)):
                    pre = ['A%d' % i for i in order] + ['P']
                    if len(order) >= 2 and rng.random() < 0.25:
                        pre = ['A%d' % order[0], 'P'] + ['A%d' % i for i in order[1:]] + ['P']   # accepted by separate polls
                    n = len(body)
                    gpos = range(-1, n + 1) if k <= 2 else sorted({-1, 0, n // 2, n})
                    for gp in gpos:
                        # gp = -1: GOAWAY before the arrivals
                        for eager in (False, True):
                            toks = []
                            if gp == -1:
                                toks.append('G0')
                            toks += pre
                            for j, t in enumerate(body):
                                if gp == j:
                                    toks.append('G0')
                                    if eager:
                                        toks.append('P')
                                toks.append(t)
                                if eager:
                                    toks.append('P')
                            if gp == n:
                                toks.append('G0')
                            toks += ['P', 'P']
                            out.append('drain ' + ','.join(toks))
        # structured family: accept() has answered None (its final GOAWAY is on the wire), then a LOWER-id request
        # arrives and is handed out, then a request beyond the final GOAWAY arrives and is refused while the first is alive
        live = [e for e in range(len(ENDINGS))]
        for e1 in live:
            for e2 in live:
                a1 = ['x4:%s' % a for a in ENDINGS[e1]]
                a2 = ['x0:%s' % a for a in ENDINGS[e2]]
                for gfirst in (True, False):
                    head = (['G0', 'A4', 'P'] if gfirst else ['A4', 'P', 'G0']) + a1 + ['P']
                    for late in (['A0', 'A12', 'P'], ['A0', 'P', 'A12', 'P'], ['A12', 'A0', 'P']):
                        toks = head + late + a2 + ['P', 'A16', 'P']
                        out.append('drain ' + ','.join(toks))
        # GOAWAY reception: the frame arrives in every 2-split with a run of the accept task in between, byte-wise,
        # with a 2-byte push id, behind MAX_PUSH_ID / CANCEL_PUSH / reserved frames (env n)
        for e1 in range(len(ENDINGS)):
            a1 = ['x0:%s' % a for a in ENDINGS[e1]]
            for pid, ln in ((0, 3), (64, 4)):
                for k in range(1, ln):
                    out.append('drain ' + ','.join(['A0', 'P'] + a1 + ['H%d:%d' % (pid, k), 'P', 'H+', 'P', 'P']))
                    out.append('drain ' + ','.join(['H%d:%d' % (pid, k), 'P', 'A0', 'P', 'H+'] + a1 + ['P', 'P']))
            out.append('drain.n ' + ','.join(['A0', 'P'] + a1 + ['P', 'G0', 'P', 'P']))
            out.append('drain.n ' + ','.join(['A0', 'P', 'G64'] + a1 + ['P', 'G0', 'P']))
            out.append('drain.gn3 ' + ','.join(['G64', 'A0', 'P'] + a1 + ['P', 'P']))
        out.append('drain H64:1,P,H+,P,H64:3,P,H+,P')
        out.append('drain H64:1,P,H+,P,H65:2,P,H+,P')
        # control-stream flow control: the closing GOAWAY of accept() pends, the accept task is resumed after W
        for e1 in range(len(ENDINGS)):
            a1 = ['x0:%s' % a for a in ENDINGS[e1]]
            for pat in (['A0', 'P', 'G0'] + a1 + ['b', 'P', 'P', 'W', 'P', 'P'],
                        ['b', 'A0', 'P', 'G0', 'P'] + a1 + ['P', 'A4', 'W', 'P', 'P'],
                        ['A0', 'P'] + a1 + ['b', 'G0', 'P', 'A4', 'P', 'W', 'P', 'A8', 'P'],
                        ['A0', 'P', 'G0'] + a1 + ['XU', 'P'],
                        ['A0', 'P', 'XU'] + a1 + ['G0', 'P']):
                out.append('drain ' + ','.join(pat))
        # seeded random histories
        acts = ['data', 'trailers', 'recv', 'rtrailers', 'stopstream', 'stopsending', 'dropres', 'ok', 'fin', 'rst', 'badqpack', 'malformed', 'unexpected', 'finish', 'rstafter', 'drop', 'split', 'dropsend', 'droprecv', 'toobig', 'truncfin', 'truncrst', 'unknown']
        wts = [1, 2, 1, 1, 1, 1, 3, 6, 2, 2, 1, 2, 1, 3, 2, 5, 3, 4, 4, 2, 1, 2, 2]
        for _ in range(6000 if tier == 'quick' else 200000):
            L = rng.randint(4, 30)
            toks, na = [], 0
            aids = [0, 4, 8, 12, 16, 20]
            if rng.random() < 0.6:
                rng.shuffle(aids)
            for _ in range(L):
                r = rng.random()
                if r < 0.18 and na < 6:
                    toks.append('A%d' % aids[na])
                    na += 1
                elif r < 0.42:
                    toks.append('P')
                elif r < 0.50:
                    toks.append('G%d' % rng.choice([0, 0, 0, 1, 2, 64, 64, 16384]))
                elif r < 0.53:
                    toks.append(rng.choice(['b', 'W', 'b', 'W', 'XU']))
                elif na > 0:
                    toks.append('x%d:%s' % (aids[rng.randrange(na)], rng.choices(acts, wts)[0]))
                else:
                    toks.append('P')
            toks.append('P')
            out.append('drain ' + ','.join(toks))
        # environment variants (the model does not depend on them): default configuration (grease on), only 3 uni
        # stream credits, other peer uni streams before the control stream, chunked preamble, late control stream
        envs = ['.g', '.g3', '.3', '.u', '.q', '.t', '.l', '.n', '.gn', '.gu3', '.gqt3', '.gul3', '.qtln']
        step = 5 if tier == 'quick' else 3
        extra = []
        for i in range(0, len(out), step):
            fam, rest = out[i].split(' ', 1)
            if '.' in fam:
                continue
            extra.append(fam + rng.choice(envs) + ' ' + rest)
        return out + extra

    def spec_ok(self, case, out, spec):
        if spec is None:
            return True
        if out.endswith(' LOST-WAKEUP'):
            return False
        if not out.startswith('ok '):
            return False
        w = case.split()
        sv = spec.split(' ', 1)
        if len(sv) == 2 and sv[1] == out[3:]:
            return sv[0] == 'drain-ok'
        r = self.oracle.ask('dchk %s %s' % (w[1], out[3:]))
        return r.startswith('drain-ok')

    def nontrivial_key(self, case, impl_out):
        return case if '+' in impl_out else None

    def shrink_candidates(self, case):
        w = case.split()
        ops = w[1].split(',')
        if len(ops) <= 1:
            return []
        return ['%s %s' % (w[0], ','.join(ops[:i] + ops[i + 1:])) for i in range(len(ops))]


PROP = P()
