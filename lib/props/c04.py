"""C04: control and unidirectional stream rules (scripted peer over SimQuic, both roles)."""
from core import Property

CODE_STREAM_CREATION = 259


def enc(x, l=None):
    if l is None:
        l = 1 if x < 64 else 2 if x < 16384 else 4 if x < 2 ** 30 else 8
    pre = {1: 0, 2: 1, 4: 2, 8: 3}[l]
    return ((pre << (8 * l - 2)) | x).to_bytes(l, 'big')


def forms(x):
    return [l for l in (1, 2, 4, 8) if x < 2 ** (8 * l - 2)]


def anyform(rng, x, p_min=0.7):
    fs = forms(x)
    return enc(x, fs[0] if rng.random() < p_min else rng.choice(fs))


def frame(rng, ty, payload, p_min=0.8):
    return anyform(rng, ty, p_min) + anyform(rng, len(payload), p_min) + payload


# ---- control frame alphabet: (name, bytes) ----
SETTINGS_PAYLOADS = [b'', bytes.fromhex('3301'), bytes.fromhex('0801'), bytes.fromhex('33010801'),
                     bytes.fromhex('0640ff'), bytes.fromhex('802b60374201'), bytes.fromhex('21003301')]
BAD_SETTINGS = [bytes.fromhex('0200'), bytes.fromhex('33013301'), bytes.fromhex('33'), bytes.fromhex('0040')]


# identifiers beyond 32 bits (8-byte varint VALUES): a conversion that truncates them must show
BIG_REQ = [2 ** 32, 2 ** 32 + 4, 2 ** 32 + 8, 2 ** 32 + 12, 2 ** 31, 2 ** 32 - 4, 2 ** 62 - 4, 2 ** 62 - 8]
BIG_ANY = BIG_REQ + [2 ** 32 + 1, 2 ** 62 - 1, 2 ** 33 + 70]


def goaway_run(rng, n):
    """n GOAWAY ids, non-increasing; sometimes around 2^32 / 2^62 where only the high bits differ or agree"""
    if rng.random() < 0.6:
        return sorted([rng.choice([0, 4, 8, 12, 400]) for _ in range(n)], reverse=True)
    base = rng.choice([2 ** 32, 2 ** 33, 2 ** 62 - 16])
    pool = [base + k for k in (0, 4, 8, 12)] + [8, 12, 2 ** 32 - 4]
    return sorted([rng.choice(pool) for _ in range(n)], reverse=True)


def ctl_frame(rng, kind):
    if kind == 'S':
        return frame(rng, 4, rng.choice(SETTINGS_PAYLOADS))
    if kind == 'Sbad':
        return frame(rng, 4, rng.choice(BAD_SETTINGS))
    if kind == 'G':
        return frame(rng, 7, anyform(rng, rng.choice([0, 0, 4, 8, 12, 1, 2, 3, 400, 2 ** 30] + BIG_ANY)))
    if kind == 'C':
        return frame(rng, 3, anyform(rng, rng.choice([0, 1, 5, 70, 70, 5] + BIG_ANY)))
    if kind == 'M':
        return frame(rng, 13, anyform(rng, rng.choice([0, 1, 5, 70, 70, 5] + BIG_ANY)))
    if kind == 'D':
        n = rng.choice([0, 1, 3])
        return anyform(rng, 0) + anyform(rng, n) + bytes(rng.getrandbits(8) for _ in range(rng.choice([0, n])))
    if kind == 'H':
        return frame(rng, 1, bytes(rng.getrandbits(8) for _ in range(rng.choice([0, 2]))))
    if kind == 'PP':
        return frame(rng, 5, anyform(rng, rng.choice([0, 9])) + bytes(rng.getrandbits(8) for _ in range(rng.choice([0, 2]))))
    if kind == 'H2':
        return frame(rng, rng.choice([2, 6, 8, 9]), bytes(rng.getrandbits(8) for _ in range(rng.choice([0, 1, 5]))))
    if kind == 'U':  # unknown / grease frame type
        ty = rng.choice([0x21 + 0x1f * rng.randrange(0, 1000), 0x0a, 0x0e, 0x40, 0x1234, 0x21 + 0x1f * rng.getrandbits(50)])
        return frame(rng, ty, bytes(rng.getrandbits(8) for _ in range(rng.choice([0, 1, 4, 9]))))
    if kind == 'WT':
        return anyform(rng, 0x41) + anyform(rng, rng.choice([0, 4, 77]))
    if kind == 'Gbad':  # GOAWAY / CANCEL_PUSH / MAX_PUSH_ID whose payload is not exactly one varint
        ty = rng.choice([7, 3, 13])
        pl = rng.choice([b'', bytes.fromhex('0000'), bytes.fromhex('40'), bytes.fromhex('0105')])
        return frame(rng, ty, pl)
    raise ValueError(kind)


KINDS_OK = ['G', 'C', 'M', 'U']
KINDS_BAD = ['S', 'Sbad', 'D', 'H', 'PP', 'H2', 'WT', 'Gbad']


def control_body(rng, maxlen=5):
    """mostly-valid control stream: [unknown*] SETTINGS then frames; one point of mutation"""
    seq = []
    mode = rng.random()
    if mode < 0.75:
        if rng.random() < 0.25:
            seq.append('U')
        seq.append('S')
    elif mode < 0.85:
        seq.append(rng.choice(['U', 'U', 'G']))
    n = rng.randint(0, maxlen - len(seq))
    for _ in range(n):
        seq.append(rng.choice(KINDS_OK) if rng.random() < 0.8 else rng.choice(KINDS_BAD))
    return b''.join(ctl_frame(rng, k) for k in seq[:maxlen])


# ---- stream headers ----
def stream_bytes(rng, kind):
    if kind == 'control':
        return anyform(rng, 0, 0.6) + control_body(rng)
    if kind == 'push':
        return anyform(rng, 1, 0.6) + anyform(rng, rng.choice([0, 5, 64, 5 + 64 * 256, 2 ** 31]), 0.5) + bytes(rng.getrandbits(8) for _ in range(rng.choice([0, 0, 3])))
    if kind == 'encoder':
        return anyform(rng, 2, 0.6) + bytes(rng.getrandbits(8) for _ in range(rng.choice([0, 0, 2])))
    if kind == 'decoder':
        return anyform(rng, 3, 0.6) + bytes(rng.getrandbits(8) for _ in range(rng.choice([0, 0, 2])))
    if kind == 'wt':
        return anyform(rng, 0x54, 0.6) + anyform(rng, rng.choice([0, 4, 64, 2 ** 20]), 0.5) + bytes(rng.getrandbits(8) for _ in range(rng.choice([0, 0, 3])))
    if kind == 'unknown':
        ty = rng.choice([0x21, 0x21 + 0x1f * rng.randrange(1, 5000), 0x21 + 0x1f * rng.getrandbits(55), 0x04, 0x40, 0x41, 0x53, 0x55, 0x3fff, 2 ** 62 - 1])
        return anyform(rng, ty, 0.6) + bytes(rng.getrandbits(8) for _ in range(rng.choice([0, 0, 1, 4])))
    if kind == 'none':  # ended before its type is complete: nothing, or a proper prefix of a multi-byte varint
        full = enc(rng.choice([0, 1, 2, 3, 0x54, 0x21, 9999]), rng.choice([2, 4, 8]))
        return full[:rng.randrange(0, len(full))]
    raise ValueError(kind)


STREAM_KINDS = ['control', 'push', 'encoder', 'decoder', 'wt', 'unknown', 'none']


def chunked(rng, data, pieces=None):
    """split data into non-empty chunks at random cut points"""
    if not data:
        return []
    n = len(data)
    k = pieces if pieces is not None else rng.choice([1, 1, 2, 3, 4, n])
    k = max(1, min(k, n))
    cuts = sorted(rng.sample(range(1, n), k - 1)) if k > 1 else []
    out, prev = [], 0
    for c in cuts + [n]:
        out.append(data[prev:c])
        prev = c
    return out


def stream_events(rng, sid, data, ending, cut=None):
    """events of one stream: U, chunks, ending; FIN/RESET may cut the byte string at any position"""
    if ending != '-' and cut is not None:
        data = data[:cut]
    evs = ['U%d' % sid]
    for c in chunked(rng, data):
        evs.append('%d:c:%s' % (sid, c.hex()))
    if ending == 'F':
        evs.append('%d:F' % sid)
    elif ending == 'R':
        evs.append('%d:R%d' % (sid, rng.choice([0, 7, 256, 268])))
    return evs


def interleave(rng, lists):
    """random merge preserving each list's order"""
    lists = [list(l) for l in lists if l]
    out = []
    while lists:
        i = rng.randrange(len(lists))
        out.append(lists[i].pop(0))
        if not lists[i]:
            lists.pop(i)
    return out


def with_polls(rng, evs, p=0.5):
    out = []
    for e in evs:
        out.append(e)
        if rng.random() < p:
            out.append('P')
    return out


def line(role, g, cr, b, evs):
    return 'ctl.%s g=%d cr=%d b=%s ev=%s' % (role, g, cr, b, ','.join(evs))


def peer_ids(role):
    # streams the PEER opens: a server sees client-initiated uni streams (2, 6, ...), a client server-initiated (3, 7, ...)
    base = 2 if role == 's' else 3
    return [base + 4 * i for i in range(8)]


def own_ids(role):
    base = 3 if role == 's' else 2
    return [base, base + 4, base + 8, base + 12]


def starvation(rng, role, g):
    """credit and write-budget script: returns (cr, b, extra events to merge in)"""
    mode = rng.random()
    own = own_ids(role)
    if mode < 0.45:
        return rng.choice([3, 3, 4, 8]), 'u', []
    if mode < 0.8:
        cr = rng.choice([0, 1, 2, 3])
        ev = []
        need = (4 if g else 3) - cr
        while need > 0 and rng.random() < 0.9:
            k = rng.randint(1, need)
            ev.append('G%d' % k)
            need -= k
        return cr, 'u', ev
    # finite budgets: small grants never complete the control header (>= 26 bytes) nor the grease write (>= 9)
    cr = rng.choice([0, 2, 3, 4])
    ev = []
    if cr < 4 and rng.random() < 0.9:
        ev.append('G%d' % (4 - cr))
    for sid in own:
        small = 0
        for _ in range(rng.randint(0, 2)):
            if small < 4:
                k = rng.choice([1, 2])
                small += k
                ev.append('W%d:%d' % (sid, k))
        if rng.random() < 0.85:
            ev.append('W%d:1000000' % sid)
    return cr, '0', ev


class P(Property):
    id = 'C04'
    gen_modules = ['gen_varint', 'gen_codes', 'gen_settings', 'gen_frames', 'gen_unistreams']
    properties_v = 'Properties/C04.v'
    model_targets = ['Model/ConnInner.vo', 'Spec/UniStreams.vo']
    extract_v = 'Extract/ExtractC04.v'
    driver_ml = 'C04_driver.ml'
    harness_bin = 'c04'
    rule = ('scripted peer over SimQuic, server (accept) and client (poll_close) drivers, explicit polls only. Families: '
            'hdr = one stream, every stream type of the alphabet in every varint length form, second varint (push/session id) in '
            'every form, split after every byte with a poll after every chunk, FIN/RESET after every prefix; ctl = one control stream '
            'of <= 5 frames over {SETTINGS(ok/bad), GOAWAY, CANCEL_PUSH, MAX_PUSH_ID, DATA, HEADERS, PUSH_PROMISE, H2-reserved, '
            'unknown/grease, 0x41, malformed} cut by FIN/RESET at any byte, random chunking, plus 0..3 other streams; multi = <= 4 '
            'streams of random types (duplicates of critical streams, early closes) in random arrival interleavings; every case with '
            'a credit script (0..4 initial uni credits, G grants) and write budgets (unlimited, or 0 with small/large W grants), '
            'grease on/off; many = 5..12 peer streams with >= 4 silent (untyped, open) ones announced ahead of the control / unknown / '
            'duplicate stream; burst = 20..100 control frames delivered before one single poll (last event), both roles; finish = '
            'poll_finish of h3\'s own grease stream answering Pending (<id>:Z<n>) or the peer stopping it (<id>:S) while control frames '
            'arrive; blocked = h3 starved of uni credit during build, or its own control stream out of budget after the header / in the '
            'server\'s shutdown GOAWAY write, frames delivered meanwhile, grants at the end, then polls; after_none = server accept() '
            'called again after it answered None, with further control frames in between; bigids = GOAWAY / CANCEL_PUSH / MAX_PUSH_ID '
            'identifiers in 2^31..2^62-1 in legal non-increasing runs and with one increase (also mixed into the G/C/M alphabets of the '
            'other families). A client case is driven through poll_close when its number of events is odd and through wait_idle().await '
            'when even; a quarter of all cases hands every chunk to h3 as a non-contiguous Buf (SEG<n>). Which unknown-type streams get '
            'STOP_SENDING, when and with which code is compared implementation-vs-model only; the oracle only refuses STOP_SENDING on a '
            'stream that is not of unknown type. Liveness is demanded (spec columns must_fail / '
            'acted exact) only in settled states: phase run, h3 not write- or credit-blocked, last event a poll (two polls after '
            '`ok none`); frames delivered while h3 is blocked in build or in shutdown(0) are delayed, not lost, and are checked after the '
            'unblocking grant. non-trivial = distinct cases in which the build completed and at least one chunk of a peer stream was delivered')
    partial_note = ('C04_exactly_once_partial and the T1/T2 theorems carry the premise d_res <> RIndet (runs in which the model\'s '
                    'interval arithmetic for fastrand-dependent write lengths is indeterminate; never produced by the generators); '
                    'T3 is stated as two composing theorems (rule table over the frames taken; frames taken = RFC 7.1 segmentation of the '
                    'bytes via C02\'s refinement) rather than one; the byte-level theorems use C02\'s settings_verdict for SETTINGS '
                    'contents; "first violation in processing order" is not claimed when several streams violate; the liveness theorems '
                    '(C04_poll_settles, C04_poll_complete) exclude a poll spent in the server\'s shutdown(0) GOAWAY write and the build phase '
                    '(there frames are delayed until the write/credit is granted) and conclude "does not stay running", i.e. error or exit '
                    'from the model\'s domain (panic/outside/indeterminate), not "error" alone; request (bidi) streams are not modelled; '
                    'tolerances: push streams MAY be ignored or refused (server 259 / client 264), client CANCEL_PUSH {261,264}, 0x41 on the '
                    'control stream {261,262}, H3_CLOSED_CRITICAL_STREAM is acceptable for any control stream that has ended')
    trusted_extra = [
        'SimQuic transport and executor (harness/src/simquic.rs); explicit polls only (no wakers)',
        'frame layer model Model/FrameStream.v and spec Spec/Frames.v are C02\'s; SETTINGS contents Model/Settings.v, Spec/RFC9114Settings.v are C13\'s',
        'lengths of writes that depend on fastrand (control header with grease, grease stream) are intervals in the model',
    ]

    # ------------------------------------------------------------------ generators
    def gen_hdr(self, tier, rng):
        out = []
        types = [(0, None), (2, None), (3, None), (1, 'id'), (0x54, 'id'), (0x21, None), (0x40, None), (0x21 + 0x1f * 12345678, None)]
        ids = [0, 5, 64 + 5, 2 ** 20 + 1, 2 ** 40]
        for role in ('s', 'c'):
            sid = peer_ids(role)[0]
            for ty, second in types:
                for l1 in forms(ty):
                    seconds = [b'']
                    if second:
                        seconds = []
                        for x in ids:
                            for l2 in forms(x):
                                seconds.append(enc(x, l2))
                        if tier == 'quick':
                            seconds = rng.sample(seconds, 6)
                    for sec in seconds:
                        hdr = enc(ty, l1) + sec
                        tail = bytes.fromhex('000400') if ty == 0 else b''
                        data = hdr + tail
                        # byte by byte, a poll after each
                        evs = ['P', 'U%d' % sid]
                        for bt in data:
                            evs += ['%d:c:%02x' % (sid, bt), 'P']
                        out.append(line(role, rng.choice([0, 1]), 4, 'u', evs))
                        # whole header at once, then silence
                        out.append(line(role, 0, 3, 'u', ['P', 'U%d' % sid, '%d:c:%s' % (sid, data.hex()), 'P', 'P']))
                        # everything before the first poll
                        out.append(line(role, 1, 4, 'u', ['U%d' % sid, '%d:c:%s' % (sid, data.hex()), 'P']))
                        # ended after every proper prefix of the header
                        cuts = range(0, len(hdr) + 1)
                        if tier == 'quick' and len(hdr) > 4:
                            cuts = sorted(rng.sample(range(0, len(hdr) + 1), 4))
                        for cut in cuts:
                            for end in ('F', 'R'):
                                evs = ['P', 'U%d' % sid]
                                if cut:
                                    split = rng.randint(1, cut)
                                    evs.append('%d:c:%s' % (sid, hdr[:split].hex()))
                                    if rng.random() < 0.5:
                                        evs.append('P')
                                    if split < cut:
                                        evs.append('%d:c:%s' % (sid, hdr[split:cut].hex()))
                                evs.append('%d:%s' % (sid, 'F' if end == 'F' else 'R9'))
                                evs += ['P', 'P']
                                out.append(line(role, 0, 3, 'u', evs))
        return out

    def gen_ctl(self, tier, rng, n):
        out = []
        for _ in range(n):
            role = rng.choice('sc')
            g = rng.choice([0, 1, 1])
            ids = peer_ids(role)
            rng.shuffle(ids)
            data = anyform(rng, 0, 0.7) + control_body(rng)
            ending = rng.choice(['-', '-', 'F', 'R'])
            cut = rng.randint(0, len(data)) if rng.random() < 0.5 else None
            streams = [stream_events(rng, ids[0], data, ending, cut)]
            for i in range(rng.choice([0, 0, 1, 2, 3])):
                kind = rng.choice(['push', 'encoder', 'decoder', 'wt', 'unknown', 'none', 'unknown'])
                d2 = stream_bytes(rng, kind)
                e2 = rng.choice(['-', 'F', 'R']) if kind != 'none' else rng.choice(['F', 'R', '-'])
                streams.append(stream_events(rng, ids[i + 1], d2, e2, rng.randint(0, len(d2)) if rng.random() < 0.3 else None))
            cr, b, extra = starvation(rng, role, g)
            evs = interleave(rng, streams + [extra])
            evs = with_polls(rng, evs, rng.choice([0.0, 0.3, 0.7, 1.0]))
            if rng.random() < 0.9:
                evs += ['P', 'P']
            out.append(line(role, g, cr, b, evs))
        return out

    def gen_multi(self, tier, rng, n):
        out = []
        for _ in range(n):
            role = rng.choice('sc')
            g = rng.choice([0, 1])
            ids = peer_ids(role)
            rng.shuffle(ids)
            k = rng.randint(1, 4)
            streams = []
            for i in range(k):
                kind = rng.choice(STREAM_KINDS + ['control', 'encoder', 'decoder'])
                d = stream_bytes(rng, kind)
                e = rng.choice(['-', '-', 'F', 'R'])
                if kind == 'none':
                    e = rng.choice(['F', 'R', '-'])
                streams.append(stream_events(rng, ids[i], d, e, rng.randint(0, len(d)) if rng.random() < 0.25 else None))
            cr, b, extra = starvation(rng, role, g)
            evs = interleave(rng, streams + [extra])
            evs = with_polls(rng, evs, rng.choice([0.0, 0.3, 0.7, 1.0]))
            if rng.random() < 0.9:
                evs += ['P', 'P']
            out.append(line(role, g, cr, b, evs))
        return out

    def gen_grease(self, tier, rng, n):
        """exactly-once under a starved grease stream: control frames arrive while the 4th stream cannot be opened / written"""
        out = []
        for _ in range(n):
            role = rng.choice('sc')
            sid = peer_ids(role)[0]
            gid = own_ids(role)[3]
            frames = [frame(rng, 4, rng.choice(SETTINGS_PAYLOADS))]
            goaways = goaway_run(rng, rng.randint(1, 3))
            if rng.random() < 0.3:
                goaways.append(goaways[-1] + 4)   # an increase: H3_ID_ERROR only if the earlier ones were processed
            for x in goaways:
                if rng.random() < 0.3:
                    frames.append(ctl_frame(rng, 'U'))
                if role == 's' and rng.random() < 0.4:
                    frames.append(ctl_frame(rng, rng.choice('CM')))
                frames.append(frame(rng, 7, enc(x)))
            evs = ['P', 'U%d' % sid, '%d:c:00' % sid]
            script = rng.choice(['nocredit', 'late', 'nobudget', 'partial', 'free'])
            small = 0   # small grants stay below the shortest possible grease write (9 bytes): the model is determinate
            for f in frames:
                evs.append('%d:c:%s' % (sid, f.hex()))
                if rng.random() < 0.7:
                    evs.append('P')
                if script == 'late' and rng.random() < 0.3:
                    evs.append('G1')
                if script == 'partial' and rng.random() < 0.5 and small <= 6:
                    k = rng.choice([1, 2])
                    small += k
                    evs.append('W%d:%d' % (gid, k))
            evs += ['P', 'P']
            if script in ('nocredit', 'late'):
                out.append(line(role, 1, 3, 'u', evs))
            elif script == 'free':
                out.append(line(role, 1, 4, 'u', evs))
            else:
                own = own_ids(role)
                pre = ['W%d:1000000' % s for s in own[:3]]
                out.append(line(role, 1, 4, '0', pre + evs))
        return out


    def gen_many(self, tier, rng, n):
        """5..12 streams, at least 4 of them silent (announced, type not complete, still open) AHEAD of the control stream"""
        out = []
        for _ in range(n):
            role = rng.choice('sc')
            g = rng.choice([0, 1])
            ids = peer_ids(role) + [peer_ids(role)[-1] + 4 * k for k in range(1, 8)]
            rng.shuffle(ids)
            nsilent = rng.randint(4, 8)
            evs = []
            if rng.random() < 0.5:
                evs.append('P')
            k = 0
            for _i in range(nsilent):
                sid = ids[k]; k += 1
                evs.append('U%d' % sid)
                if rng.random() < 0.4:   # a proper prefix of a multi-byte type varint
                    full = enc(rng.choice([0, 2, 3, 0x54, 0x21]), rng.choice([2, 4, 8]))
                    evs.append('%d:c:%s' % (sid, full[:rng.randrange(1, len(full))].hex()))
                if rng.random() < 0.3:
                    evs.append('P')
            ctl = ids[k]; k += 1
            body = control_body(rng) if rng.random() < 0.5 else (frame(rng, 4, b'') + rng.choice([frame(rng, 7, enc(0)), ctl_frame(rng, 'D'), ctl_frame(rng, 'M'), b'']))
            evs += stream_events(rng, ctl, anyform(rng, 0) + body, rng.choice(['-', '-', 'F']))
            for _i in range(rng.randint(0, 3)):
                kind = rng.choice(['unknown', 'encoder', 'decoder', 'control', 'push', 'none'])
                d2 = stream_bytes(rng, kind)
                evs += stream_events(rng, ids[k], d2, rng.choice(['-', 'F', 'R'])); k += 1
            evs = with_polls(rng, evs, rng.choice([0.0, 0.0, 0.3]))
            evs += ['P', 'P']
            out.append(line(role, g, rng.choice([3, 4]), 'u', evs))
        return out

    def gen_burst(self, tier, rng, n):
        """20..100 control frames delivered before ONE poll; the last event is a poll"""
        out = []
        for _ in range(n):
            role = rng.choice('sc')
            sid = peer_ids(role)[0]
            nfr = rng.randint(20, 100)
            kinds = ['U', 'U', 'M', 'C'] if role == 's' else ['U']
            data = anyform(rng, 0) + frame(rng, 4, rng.choice(SETTINGS_PAYLOADS))
            ids_g = goaway_run(rng, 3)
            for i in range(nfr):
                if i in (nfr // 3, 2 * nfr // 3) and rng.random() < 0.6:
                    data += frame(rng, 7, enc(ids_g.pop(0)))
                else:
                    data += ctl_frame(rng, rng.choice(kinds))
            data += rng.choice([frame(rng, 7, enc(0)), ctl_frame(rng, 'D'), ctl_frame(rng, 'H2'), frame(rng, 4, b''), b'', frame(rng, 7, enc(800))])
            evs = ['P', 'U%d' % sid]
            for c in chunked(rng, data, rng.choice([1, 2, 5, 40])):
                evs.append('%d:c:%s' % (sid, c.hex()))
            if rng.random() < 0.3:
                evs.append('%d:%s' % (sid, rng.choice(['F', 'R7'])))
            evs.append('P')
            if rng.random() < 0.3:
                evs.append('P')
            out.append(line(role, rng.choice([0, 1]), rng.choice([3, 4]), 'u', evs))
        return out

    def gen_finish(self, tier, rng, n):
        """the grease stream's poll_finish stays Pending (Z) / the peer refuses the grease stream (S): frames keep being returned"""
        out = []
        for _ in range(n):
            role = rng.choice('sc')
            sid = peer_ids(role)[0]
            gid = own_ids(role)[3]
            pre = []
            mode = rng.choice(['Z', 'Z', 'S', 'ZS'])
            if 'Z' in mode:
                pre.append('%d:Z%d' % (gid, rng.randint(1, 4)))
            if 'S' in mode and rng.random() < 0.5:
                pre.append('%d:S%d' % (gid, rng.choice([259, 0])))
            frames = [frame(rng, 4, rng.choice(SETTINGS_PAYLOADS))]
            for x in sorted([rng.choice([0, 4, 8, 12, 400]) for _i in range(rng.randint(1, 4))], reverse=True):
                if rng.random() < 0.3:
                    frames.append(ctl_frame(rng, 'U'))
                if role == 's' and rng.random() < 0.4:
                    frames.append(ctl_frame(rng, rng.choice('CM')))
                frames.append(frame(rng, 7, enc(x)))
            if rng.random() < 0.3:
                frames.append(ctl_frame(rng, rng.choice(['D', 'S'])))
            evs = pre + ['P', 'U%d' % sid, '%d:c:00' % sid]
            for f in frames:
                evs.append('%d:c:%s' % (sid, f.hex()))
                if rng.random() < 0.75:
                    evs.append('P')
                if 'S' in mode and rng.random() < 0.2:
                    evs.append('%d:S%d' % (gid, 259))
                if rng.random() < 0.15:
                    evs.append('%d:Z1' % gid)
            evs += ['P', 'P']
            out.append(line(role, 1, 4, 'u', evs))
        return out

    def gen_blocked(self, tier, rng, n):
        """frames delivered while h3 cannot make progress on its OWN streams (build starved of credit / header budget; server
        write-blocked in accept()'s shutdown(0)); the block is lifted at the end: everything delivered is then acted upon exactly
        once and a complete violation shows"""
        out = []
        for _ in range(n):
            role = rng.choice('sc')
            own = own_ids(role)
            ids = peer_ids(role)
            rng.shuffle(ids)
            sid = ids[0]
            mode = rng.choice(['credit', 'budget', 'shutdown', 'shutdown']) if role == 's' else rng.choice(['credit', 'budget'])
            tail_frames = []
            for _i in range(rng.randint(0, 3)):
                tail_frames.append(ctl_frame(rng, rng.choice(KINDS_OK + ['D', 'S', 'H2', 'U'])))
            extra = []
            for i in range(rng.randint(0, 2)):
                kind = rng.choice(['unknown', 'encoder', 'control', 'none', 'push'])
                extra.append(stream_events(rng, ids[i + 1], stream_bytes(rng, kind), rng.choice(['-', 'F', 'R'])))
            ending = rng.choice([[], [], ['%d:F' % sid], ['%d:R9' % sid]])
            if mode == 'shutdown':
                # the control header takes exactly the budget (26 bytes without grease): the last GOAWAY cannot be written
                pre = ['W%d:26' % own[0], 'W%d:1' % own[1], 'W%d:1' % own[2], 'P', 'U%d' % sid,
                       '%d:c:%s' % (sid, (b'\x00' + frame(rng, 4, b'') + frame(rng, 7, enc(rng.choice([0, 4, 400])))).hex()), 'P']
                mid = ['%d:c:%s' % (sid, f.hex()) for f in tail_frames] + ending
                mid = interleave(rng, [mid] + extra)
                mid = with_polls(rng, mid, 0.5) + ['P']
                small = [] if rng.random() < 0.5 else ['W%d:%d' % (own[0], rng.choice([1, 2])), 'P']
                post = small + ['W%d:1000000' % own[0], 'P', 'P', 'P']
                out.append(line(role, 0, 3, '0', pre + mid + post))
            else:
                body = [frame(rng, 4, rng.choice(SETTINGS_PAYLOADS))] + tail_frames
                st = ['U%d' % sid, '%d:c:00' % sid] + ['%d:c:%s' % (sid, f.hex()) for f in body] + ending
                mid = with_polls(rng, interleave(rng, [st] + extra), 0.5) + ['P']
                g = rng.choice([0, 1])
                if mode == 'credit':
                    cr = rng.choice([0, 1, 2])
                    post = ['G%d' % (4 - cr), 'P', 'P', 'P']
                    out.append(line(role, g, cr, 'u', ['P'] + mid + post))
                else:
                    post = ['W%d:1000000' % o for o in own] + ['P', 'P', 'P']
                    out.append(line(role, g, 4, '0', ['P'] + mid + post))
        return out

    def gen_after_none(self, tier, rng, n):
        """server: accept() has answered None after a GOAWAY and is called again: what the peer sends afterwards still counts"""
        out = []
        for _ in range(n):
            role = 's'
            ids = peer_ids(role)
            rng.shuffle(ids)
            sid = ids[0]
            g0 = rng.choice([0, 4, 400, 2 ** 32 + 8, 2 ** 62 - 4, 2 ** 32])
            evs = ['P', 'U%d' % sid, '%d:c:%s' % (sid, (b'\x00' + frame(rng, 4, rng.choice(SETTINGS_PAYLOADS)) + frame(rng, 7, enc(g0))).hex()), 'P']
            later = []
            for _i in range(rng.randint(1, 4)):
                k = rng.choice(['G', 'G', 'U', 'M', 'C', 'D', 'S', 'H2', 'Gbad'])
                f = frame(rng, 7, enc(rng.choice([0, g0, g0 + 4, max(g0, 4) - 4, g0 % 2 ** 32]))) if k == 'G' else ctl_frame(rng, k)
                later.append('%d:c:%s' % (sid, f.hex()))
            later += rng.choice([[], [], ['%d:F' % sid], ['%d:R3' % sid]])
            extra = []
            for i in range(rng.randint(0, 2)):
                kind = rng.choice(['unknown', 'control', 'decoder', 'none'])
                extra.append(stream_events(rng, ids[i + 1], stream_bytes(rng, kind), rng.choice(['-', 'F'])))
            evs += with_polls(rng, interleave(rng, [later] + extra), 0.5) + ['P', 'P']
            out.append(line(role, rng.choice([0, 1]), rng.choice([3, 4]), 'u', evs))
        return out

    def gen_bigids(self, tier, rng, n):
        """GOAWAY / CANCEL_PUSH / MAX_PUSH_ID identifiers beyond 2^32 in legal non-increasing runs (no error wanted) and
        with one increase (H3_ID_ERROR wanted), each followed by a poll; both roles"""
        out = []
        for _ in range(n):
            role = rng.choice('sc')
            sid = peer_ids(role)[0]
            run = goaway_run(rng, rng.randint(2, 4))
            while run[0] < 2 ** 31:
                run = goaway_run(rng, rng.randint(2, 4))
            if rng.random() < 0.3:
                i = rng.randrange(1, len(run))
                run[i] = run[i - 1] + rng.choice([4, 2 ** 32])      # an increase
            evs = ['P', 'U%d' % sid, '%d:c:00' % sid, '%d:c:%s' % (sid, frame(rng, 4, rng.choice(SETTINGS_PAYLOADS)).hex())]
            for x in run:
                if role == 's' and rng.random() < 0.4:
                    evs.append('%d:c:%s' % (sid, ctl_frame(rng, rng.choice('CM')).hex()))
                evs.append('%d:c:%s' % (sid, frame(rng, 7, enc(x)).hex()))
                if rng.random() < 0.8:
                    evs.append('P')
            evs += ['P', 'P']
            out.append(line(role, rng.choice([0, 1]), rng.choice([3, 4]), 'u', evs))
        return out

    def cases(self, tier, rng):
        out = self.cases0(tier, rng)
        # a quarter of all cases: every delivered chunk reaches h3 as a non-contiguous Buf (SimQuic SEG<n>)
        r2 = __import__('random').Random(rng.getrandbits(32))
        res = []
        for c in out:
            if r2.random() < 0.25:
                pre, evs = c.split('ev=', 1)
                c = '%sev=SEG%d,%s' % (pre, r2.choice([1, 2, 3, 7]), evs)
            res.append(c)
        return res

    def cases0(self, tier, rng):
        out = self.gen_hdr(tier, rng)
        q = tier == 'quick'
        out += self.gen_grease(tier, rng, 300 if q else 20000)
        out += self.gen_many(tier, rng, 300 if q else 20000)
        out += self.gen_burst(tier, rng, 150 if q else 6000)
        out += self.gen_finish(tier, rng, 300 if q else 20000)
        out += self.gen_blocked(tier, rng, 400 if q else 30000)
        out += self.gen_after_none(tier, rng, 300 if q else 20000)
        out += self.gen_bigids(tier, rng, 200 if q else 10000)
        out += self.gen_ctl(tier, rng, 2500 if q else 150000)
        out += self.gen_multi(tier, rng, 1500 if q else 100000)
        return out

    # ------------------------------------------------------------------ judging
    @staticmethod
    def fields(out):
        w = out.split()
        kv = {}
        head = []
        for t in w:
            if '=' in t:
                k, v = t.split('=', 1)
                kv[k] = v
            else:
                head.append(t)
        return ' '.join(head), kv

    def canon(self, case, out):
        # `acted` (what the role's driver accepted) is the model's ghost log; `handed` (what poll_control returned to
        # the driver) is logged by both sides (cfg(h3_verif) hook) and compared
        return ' '.join(t for t in out.split() if not t.startswith('acted='))

    @staticmethod
    def settled(case, kv, sp, head=''):
        # everything delivered has been looked at: the build is over, the driver is not write-blocked in the server's
        # shutdown(0) (spec column `blocked`, taken from the model's phase: frames are then delayed, not lost) and the
        # last event is a poll
        evs = case.split('ev=', 1)[1].split(',')
        ok = kv.get('ph') == 'run' and sp.get('blocked', '0') == '0' and evs[-1] == 'P'
        # the poll at which a blocked shutdown(0) completes answers None without looking at the peer again: one more poll
        if ok and head.startswith('ok none'):
            ok = evs[-2:] == ['P', 'P']
        return ok

    def spec_ok(self, case, out, spec):
        if spec is None:
            return True
        if out.endswith(' LOST-WAKEUP'):
            return False
        head, kv = self.fields(out)
        _, sp = self.fields(spec)
        if head in ('indet', 'outside'):
            return True
        if not (head.startswith('pending') or head.startswith('ok none') or head.startswith('err c:')):
            return False
        lst = lambda s: [] if s in ('-', '') else s.replace(';', ',').split(',')
        hard, soft = lst(sp['hard']), lst(sp['soft'])
        settled = self.settled(case, kv, sp, head)
        err = None
        if head.startswith('err'):
            parts = head.split()[1].split(':')
            if parts[0] != 'c' or parts[2] != 'Local':
                return False
            err = parts[1]
            if err not in hard and err not in soft:
                return False
            if kv.get('close') != err:
                return False
        else:
            if settled and hard:
                return False
            if kv.get('close', '-') != '-':
                return False
        # the statement only says that an unknown stream type is never a connection error (RFC 9114 6.2 lets the
        # receiver abort reading with any code or just discard): the oracle only refuses STOP_SENDING on a stream that
        # is NOT of unknown type; which streams are refused, when, and with which code is compared exactly between
        # implementation and model only (C04_poll_complete, C04_stream_types speak about the model)
        want = set(lst(sp['stops']))
        for g in lst(kv.get('stops', '-')):
            i, c = g.split(':')
            if i not in want:
                return False
        # what acting on the frames leaves behind (observable on the implementation): settings in force, closing state
        complete = sp['any'] == '0' and ((err is None and settled) or (err is not None and sp['exact'] == '1' and err in hard))
        if complete and kv.get('closing', '-') != '-':
            if kv['closing'] != sp['closing']:
                return False
            if any(a != '*' and a != b for a, b in zip(sp['set'], kv['set'])):
                return False
        if kv.get('req') in ('closing', 'ok') and (kv['req'] == 'closing') != (kv.get('closing') == '1'):
            return False
        # exactly once.  The implementation shows what poll_control handed to the role's driver: everything acted
        # upon, plus possibly one last frame that the role's driver refused
        if 'acted' not in kv and 'handed' in kv and sp['any'] == '0':
            hd = [] if kv['handed'] == '-' else [('S' if x.startswith('S') else x) for x in kv['handed'].split('.')]
            s = [] if sp['acted'] == '-' else [('S' if x.startswith('S') else x) for x in sp['acted'].split('.')]
            if err is None:
                if hd != s[:len(hd)] or (settled and hd != s):
                    return False
            else:
                if not (hd == s[:len(hd)] or hd[:-1] == s[:len(hd) - 1]):
                    return False
                if sp['exact'] == '1' and err in hard and len(hd) < len(s):
                    return False
        if 'acted' in kv and sp['any'] == '0':
            a = [] if kv['acted'] == '-' else kv['acted'].split('.')
            s = [] if sp['acted'] == '-' else sp['acted'].split('.')
            if a != s[:len(a)]:
                return False
            if err is None and settled and a != s:
                return False
            if err is not None and sp['exact'] == '1' and err in hard and a != s:
                return False
        return True

    def nontrivial_key(self, case, impl_out):
        return case if ('ph=run' in impl_out and ':c:' in case) else None

    def shrink_candidates(self, case):
        pre, evs = case.split('ev=', 1)
        evs = evs.split(',')
        out = []
        for i in range(len(evs)):
            if len(evs) > 1:
                out.append(pre + 'ev=' + ','.join(evs[:i] + evs[i + 1:]))
        for i, e in enumerate(evs):
            if ':c:' in e:
                sid, _, h = e.split(':')
                if len(h) > 2:
                    out.append(pre + 'ev=' + ','.join(evs[:i] + ['%s:c:%s' % (sid, h[:-2])] + evs[i + 1:]))
        return out[:200]


PROP = P()
