import os
from core import Property


def hx(b):
    if isinstance(b, str):
        b = b.encode('latin-1')
    return b.hex() or '-'


def fl(fields):
    """[(name, value)] -> case syntax"""
    if not fields:
        return '-'
    return ';'.join('%s=%s' % (hx(n), hx(v)) for n, v in fields)


def unfl(s):
    if s == '-':
        return []
    out = []
    for f in s.split(';'):
        n, v = f.split('=', 1)
        out.append((b'' if n == '-' else bytes.fromhex(n), b'' if v == '-' else bytes.fromhex(v)))
    return out


PSEUDO_ORDER = [b':method', b':scheme', b':authority', b':path', b':status', b':protocol']

GOOD = {
    b':method': [b'GET', b'POST', b'CONNECT', b'OPTIONS', b'x-y.z', b'PROPFIND-LONG-EXTENSION-METHOD'],
    b':scheme': [b'https', b'http', b'ftp', b'', b'a+b-c.d'],
    b':authority': [b'example.com', b'a', b'a:443', b'[::1]:8080', b'user@h', b'u:p@h:1'],
    b':path': [b'/', b'/a/b?c=d', b'*', b'?q', b'/a#frag', b'#f', b'/\xc3\xa9', b'/a"{}'],
    b':status': [b'200', b'100', b'999', b'404'],
    b':protocol': [b'webtransport', b'connect-udp', b'connect-ip', b'websocket'],
}
BAD = {
    b':method': [b'', b'GE T', b'GET\r', b'G\x00', b'M\xc3\xa9', b'a(b'],
    b':scheme': [b'ht:tp', b'a/b', b'h ttp', b'x' * 65, b'\xc3\xa9', b'http\n'],
    b':authority': [b'', b'a b', b'a/b', b'a:1:2', b'[::1', b'a@', b'a%20b', b'\xc3\xa9.com', b'a\r\nb', b'a\x00'],
    b':path': [b'', b'a', b'/a b', b'/\xff', b'/a#\xff', b'/a\x00', b'/a\nb', b'**', b'/<'],
    b':status': [b'', b'20', b'2000', b'099', b'2a0', b'20\n', b'000', b'+20'],
    b':protocol': [b'', b'WebTransport', b'webtransport ', b'h2', b'connect', b'websocket\x00'],
}
REG_GOOD = [(b'a', b'b'), (b'accept', b'*/*'), (b'set-cookie', b'a=b'), (b'set-cookie', b'c=d'), (b'x-y_z.1!#$%&\'*+^`|~', b'\tv \x80\xff'),
            (b'content-length', b'0'), (b'e', b'')]
REG_BAD = [(b'', b'x'), (b'A', b'x'), (b'content-Length', b'1'), (b'a b', b'x'), (b'a:b', b'x'), (b'a\x00', b'x'), (b'a"b', b'x'),
           (b'a(', b'x'), (b'\xc3\xa9', b'x'), (b'a', b'x\ry'), (b'a', b'x\ny'), (b'a', b'\x00'), (b'a', b'\x7f'), (b'a', b'\x1f'),
           (b':', b'x'), (b':x', b'y'), (b':Method', b'GET'), (b':method ', b'GET'), (b':metho', b'GET'), (b':methodx', b'GET'),
           (b'a,b', b'x'), (b'a;b', b'x'), (b'a=b', b'x'), (b'a/b', b'x'), (b'{a}', b'x'), (b'a@b', b'x'), (b'a\x7f', b'x')]
HOSTS = [b'example.com', b'a', b'', b'a b', b'other', b'a:443', b'A']


class P(Property):
    id = 'C12'
    gen_modules = ['gen_codes', 'gen_headers']
    properties_v = 'Properties/C12.v'
    model_targets = ['Model/Headers.vo', 'Spec/HttpParseable.vo']
    extract_v = 'Extract/ExtractC12.v'
    driver_ml = 'C12_driver.ml'
    harness_bin = 'c12'
    trusted_extra = [
        'coq/Model/HttpCrate.v: hand ports of the http crate 1.5.0 validators (name/value/method/status/scheme/authority/'
        'path-and-query/uri builder/HeaderMap capacity and order, core::str::from_utf8); tied to the crate only by the http.* '
        'correspondence families; "parseable" in the specification is defined by the same ports',
        'HeaderMap::try_append failing through the hash-collision ("yellow") path is covered by the theorems (arbitrary '
        'oracle) but not exercised by the correspondence run',
        'the six call sites (resolve_request, recv_response, recv_trailers, send_request, send_response, send_trailers) are '
        'executed on the real server / client over SimQuic with one HEADERS frame per message (field section produced / read '
        'with h3\'s own stateless QPACK codec); chunking, interleaving and the QPACK layer itself belong to other properties',
        'sections of more than 64 field lines are compared by refusal / number of delivered fields only',
    ]
    rule = ('http.*: every port of an http-crate validator on all 256 bytes in each position class (alone, leading, trailing, '
            'inside brackets / after @ / in query / in fragment), all strings of length <=2 (quick) or <=3 (thorough) over a '
            'small alphabet for method/status/scheme, boundary lengths (64/65, 65535/65536, 65534/65535), structured and mutated '
            'authorities and paths, UTF-8 boundary sequences, capacities around 24576; hdr.req/resp/trl (pure gate functions): every '
            'subset of {:method,:scheme,:authority,:path,:status,:protocol,host} with good values, each good and bad value of each '
            'pseudo-header, every bad regular field at every position, duplicates and contradictions, all 256 bytes as name '
            'byte / value byte of regular and of each pseudo field, names of 63/64/65/66/200/65535 bytes with a bad byte first / '
            'middle / last, long values with a bad first / last byte, field counts 24575..24577, seeded random sections; '
            'e2e.req/resp/trl: EVERY hdr case again through the real server.resolve_request / client.recv_response / '
            'recv_trailers (both roles) over SimQuic, observing the http::Request / Response / HeaderMap handed over or the '
            'StreamError code and the RESET_STREAM / STOP_SENDING codes put on the stream; send.* (Header constructors + '
            'iteration): method x scheme x authority x path x protocol x host-field combinations and random header maps; '
            'wire.*: every send case again through the real send_request / send_response / send_trailers, QPACK-decoding '
            'the HEADERS frame written. non-trivial = distinct cases with a non-empty input (at least one field / one byte)')

    # ------------------------------------------------------------------ generators
    def gen_http(self, tier, rng):
        out = []
        B = [bytes([b]) for b in range(256)]
        # names
        for b in B:
            out += ['http.name ' + hx(b), 'http.name ' + hx(b'a' + b), 'http.name ' + hx(b + b'a'), 'http.name ' + hx(b'content-' + b + b'length')]
        out.append('http.name -')
        for n in (63, 64, 65, 66, 65535, 65536):
            out.append('http.name ' + hx(b'a' * n))
            out.append('http.name ' + hx(b'a' * (n - 1) + b'A'))
        out.append('http.name ' + hx(b'a' * 70 + b'"'))
        # values
        for b in B:
            out += ['http.value ' + hx(b), 'http.value ' + hx(b'a' + b + b'c')]
        out.append('http.value -')
        # methods
        alpha = [b'G', b'a', b'1', b'-', b' ', b'(', b'\x00', b'\x80', b'!', b'~']
        for b in B:
            out += ['http.method ' + hx(b), 'http.method ' + hx(b'GE' + b), 'http.method ' + hx(b + b'OST')]
        out.append('http.method -')
        depth = 2 if tier == 'quick' else 3
        words = [b'']
        for _ in range(depth):
            words = [w + a for w in words for a in alpha]
            out += ['http.method ' + hx(w) for w in words]
        for m in (b'GET', b'PUT', b'POST', b'HEAD', b'PATCH', b'TRACE', b'QUERY', b'DELETE', b'OPTIONS', b'CONNECT', b'get',
                  b'A' * 15, b'A' * 16, b'A' * 17, b'A' * 300, b'A' * 16 + b' ', b'OPTIONS ', b'CONNECT\x00'):
            out.append('http.method ' + hx(m))
        # status
        sal = [b'0', b'1', b'2', b'9', b'/', b':', b'a', b' ']
        for a in sal:
            for b_ in sal:
                for c in sal:
                    out.append('http.status ' + hx(a + b_ + c))
        for b in B:
            out += ['http.status ' + hx(b + b'00'), 'http.status ' + hx(b'2' + b + b'0'), 'http.status ' + hx(b'20' + b)]
        for s in (b'', b'2', b'20', b'2000', b'200 ', b' 200'):
            out.append('http.status ' + hx(s))
        # scheme
        for b in B:
            out += ['http.scheme ' + hx(b), 'http.scheme ' + hx(b'a' + b), 'http.scheme ' + hx(b + b'a'), 'http.scheme ' + hx(b'http' + b)]
        for s in (b'', b'http', b'https', b'HTTP', b'httpss', b'a' * 64, b'a' * 65, b'a' * 64 + b':', b'https:', b'http://'):
            out.append('http.scheme ' + hx(s))
        salpha = [b'a', b'Z', b'1', b'+', b':', b'~', b'/', b'\x80']
        words = [b'']
        for _ in range(depth):
            words = [w + a for w in words for a in salpha]
            out += ['http.scheme ' + hx(w) for w in words]
        # authority
        for fam in ('http.authority', 'http.authority.b'):
            for b in B:
                out += ['%s %s' % (fam, hx(b)), '%s %s' % (fam, hx(b'a' + b)), '%s %s' % (fam, hx(b + b'a')), '%s %s' % (fam, hx(b'a' + b + b'c')),
                        '%s %s' % (fam, hx(b'[' + b + b']')), '%s %s' % (fam, hx(b'u' + b + b'@h')), '%s %s' % (fam, hx(b'u@' + b)),
                        '%s %s' % (fam, hx(b'h:' + b))]
            out.append(fam + ' -')
        auths = [b'example.com', b'a:1', b'a:', b':', b'::', b'a:1:2', b'[::1]', b'[::1]:80', b'[::1', b'::1]', b'[[::1]]', b'[a]b]', b'][',
                 b'a@b', b'a@', b'@a', b'@', b'a@b@c', b'a@b@', b'u:p@h', b'u:p:q@h', b'u:p:q@h:1', b'u%20@h', b'h%20', b'%', b'%@h',
                 b'[%]', b'%[a]', b'[a%25b]', b'[a]%', b'a/b', b'a?b', b'a#b', b'/', b'a/', b'a@/', b'a@b/', b'1:2:3:4:5:6:7:8:9',
                 b'1:2:3:4:5:6:7:8:9@h', b'[1:2:3:4:5:6:7:8:9]', b'[1:2:3:4:5:6:7:8]:9', b'[1:2:3:4:5:6:7:8]:9:1', b'a' * 300, b'h:65536',
                 b'h:abc', b'u@[::1]:1', b'[::1]@h']
        for k in range(0, 11):
            auths.append(b':' * k)
            auths.append(b'a' + b':' * k + b'@h')
            auths.append(b'[' + b':' * k + b']')
        aal = [b'a', b'1', b'.', b':', b'@', b'[', b']', b'%', b'/', b'?', b'#', b' ', b'-']
        for _ in range(3000 if tier == 'quick' else 200000):
            n = rng.randint(1, 8)
            auths.append(b''.join(rng.choice(aal) for _ in range(n)))
        for a in auths:
            out.append('http.authority ' + hx(a))
            out.append('http.authority.b ' + hx(a))
        # path and query
        for fam in ('http.path', 'http.path.b'):
            for b in B:
                out += ['%s %s' % (fam, hx(b)), '%s %s' % (fam, hx(b'/' + b)), '%s %s' % (fam, hx(b'/a' + b + b'c')), '%s %s' % (fam, hx(b'/?' + b)),
                        '%s %s' % (fam, hx(b'/a?b' + b + b'c')), '%s %s' % (fam, hx(b'/#' + b)), '%s %s' % (fam, hx(b'/a?b#' + b)),
                        '%s %s' % (fam, hx(b'?' + b)), '%s %s' % (fam, hx(b'#' + b)), '%s %s' % (fam, hx(b'*' + b))]
            out.append(fam + ' -')
        paths = [b'/', b'*', b'**', b'*/', b'/*', b'?', b'#', b'??', b'/?', b'/#', b'/??', b'/?#', b'/#?', b'/a?b?c', b'/a#b#c', b'/a?b#c?d',
                 b'a', b'a/b', b'//', b'/a/b/c', b'/\xc3\xa9', b'/\xc3', b'/\xc3#', b'/a#\xc3', b'/?\xc3\xa9', b'/?\xc3', b'/?a#\xff',
                 b'/\xe2\x82\xac', b'/\xe2\x82', b'/\xf0\x9f\x98\x80', b'/\xed\xa0\x80', b'/\xc0\xaf', b'/\xf4\x90\x80\x80',
                 b'/' + b'a' * 65533, b'/' + b'a' * 65534, b'/' + b'a' * 65532 + b'?', b'/' + b'a' * 65530 + b'#bcd', b'/' + b'a' * 65530 + b'#bcde',
                 b'/a"{}b', b'/a<b', b'/a>b', b'/a\\b', b'/a^b', b'/a`b', b'/a|b', b'/?a"b', b'/?a{b', b'/?a<b', b'/?a`b', b'/a b', b'/?a b']
        pal = [b'/', b'a', b'?', b'#', b'*', b' ', b'%', b'\xc3', b'\xa9', b'"', b'{', b'<', b'=', b'&']
        for _ in range(3000 if tier == 'quick' else 200000):
            n = rng.randint(1, 8)
            paths.append(rng.choice([b'/', b'/', b'?', b'#', b'']) + b''.join(rng.choice(pal) for _ in range(n)))
        for p in paths:
            out.append('http.path ' + hx(p))
            out.append('http.path.b ' + hx(p))
        # utf8
        out.append('http.utf8 -')
        for a in range(256):
            out.append('http.utf8 %02x' % a)
        for a in range(0x80 if tier == 'quick' else 0, 256):
            for b in range(256):
                out.append('http.utf8 %02x%02x' % (a, b))
        edge2 = [0x00, 0x7f, 0x80, 0x8f, 0x90, 0x9f, 0xa0, 0xbf, 0xc0, 0xff]
        for lead in (0xe0, 0xe1, 0xec, 0xed, 0xee, 0xef):
            for b in edge2:
                for c in (0x7f, 0x80, 0xbf, 0xc0):
                    out.append('http.utf8 %02x%02x%02x' % (lead, b, c))
                    out.append('http.utf8 61%02x%02x%02x62' % (lead, b, c))
        for lead in (0xf0, 0xf1, 0xf3, 0xf4, 0xf5, 0xf8):
            for b in edge2:
                for c in (0x7f, 0x80, 0xbf, 0xc0):
                    for d in (0x7f, 0x80, 0xbf, 0xc0):
                        out.append('http.utf8 %02x%02x%02x%02x' % (lead, b, c, d))
            out.append('http.utf8 %02x8080' % lead)
        for _ in range(2000 if tier == 'quick' else 200000):
            n = rng.randint(1, 6)
            out.append('http.utf8 ' + bytes(rng.choice([0x61, 0x80, 0xbf, 0xc2, 0xe0, 0xa0, 0xed, 0x9f, 0xf0, 0x90, 0xf4, 0x8f]) for _ in range(n)).hex())
        # protocol
        for p in GOOD[b':protocol'] + BAD[b':protocol'] + [b'webtranspor', b'websocke', b'connect-u', b'connect-udpp', b'CONNECT-IP', b'\xc3\xa9']:
            out.append('http.proto ' + hx(p))
        # capacity
        caps = list(range(0, 50)) + list(range(24570, 24582)) + [2 ** k + d for k in range(3, 17) for d in (-1, 0, 1)] + \
            [2 ** 32, 2 ** 62, 2 ** 63, 2 ** 64 - 1, 13835058055282163712, 13835058055282163711]
        for c in caps:
            out.append('http.cap %d' % c)
        return out

    def base_msgs(self):
        req = [(b':method', b'GET'), (b':scheme', b'https'), (b':authority', b'example.com'), (b':path', b'/')]
        resp = [(b':status', b'200')]
        return {'req': req, 'resp': resp, 'trl': []}

    def gen_hdr(self, tier, rng):
        out = []
        kinds = ('req', 'resp', 'trl')
        base = self.base_msgs()
        out += ['hdr.%s -' % k for k in kinds]
        # every subset of the seven distinguished fields
        seven = [(b':method', b'GET'), (b':scheme', b'https'), (b':authority', b'example.com'), (b':path', b'/a?b'),
                 (b':status', b'200'), (b':protocol', b'webtransport'), (b'host', b'example.com')]
        for mask in range(128):
            fs = [seven[i] for i in range(7) if mask >> i & 1]
            for k in kinds:
                out.append('hdr.%s %s' % (k, fl(fs)))
                out.append('hdr.%s %s' % (k, fl(list(reversed(fs)) + [(b'x', b'y')])))
        # each value of each pseudo header, in each kind
        for nm in PSEUDO_ORDER:
            for v in GOOD[nm] + BAD[nm]:
                for k in kinds:
                    fs = [f for f in base[k] if f[0] != nm] + [(nm, v)]
                    out.append('hdr.%s %s' % (k, fl(fs)))
                    # duplicated: bad first / bad last (last wins)
                    out.append('hdr.%s %s' % (k, fl(base[k] + [(nm, v)])))
                    out.append('hdr.%s %s' % (k, fl([(nm, v)] + base[k])))
        # host / authority combinations
        for a in [None] + GOOD[b':authority']:
            for hs in [[], [b'example.com'], [b'a'], [b''], [b'a b'], [b'a', b'a'], [b'a', b'b'], [b'b', b'a'], [b'A'], [b'a:443'], [b'user@h']]:
                fs = [(b':method', b'GET')] + ([(b':authority', a)] if a is not None else []) + [(b'host', h) for h in hs]
                out.append('hdr.req ' + fl(fs))
                out.append('hdr.req ' + fl(fs + [(b':scheme', b'https'), (b':path', b'/')]))
        for a1 in (b'a', b'b'):
            for a2 in (b'a', b'b'):
                for h in (b'a', b'b'):
                    out.append('hdr.req ' + fl([(b':method', b'GET'), (b':authority', a1), (b'host', h), (b':authority', a2)]))
        # scheme / path / authority shapes of the URI
        for s in (None, b'https', b''):
            for p in (None, b'/', b'*', b'#f', b'?q'):
                for m in (b'GET', b'CONNECT', b'OPTIONS'):
                    for x in (None, b'webtransport'):
                        fs = [(b':method', m)] + ([(b':scheme', s)] if s is not None else []) + ([(b':path', p)] if p is not None else []) + \
                            [(b':authority', b'h')] + ([(b':protocol', x)] if x else [])
                        out.append('hdr.req ' + fl(fs))
        # every bad regular field at every position of a good message, every good one too
        for k in kinds:
            msg = base[k] + [(b'accept', b'*/*'), (b'set-cookie', b'a=b')]
            for f in REG_BAD + REG_GOOD:
                for pos in range(len(msg) + 1):
                    out.append('hdr.%s %s' % (k, fl(msg[:pos] + [f] + msg[pos:])))
            out.append('hdr.%s %s' % (k, fl(base[k] + REG_GOOD)))
            out.append('hdr.%s %s' % (k, fl(REG_GOOD + base[k] + list(reversed(REG_GOOD)))))
        # all 256 bytes in each position class
        for b in range(256):
            c = bytes([b])
            for k in kinds:
                pre = base[k]
                out.append('hdr.%s %s' % (k, fl(pre + [(c, b'v')])))
                out.append('hdr.%s %s' % (k, fl(pre + [(b'a' + c, b'v')])))
                out.append('hdr.%s %s' % (k, fl(pre + [(b'a' + c + b'z', b'v')])))
                out.append('hdr.%s %s' % (k, fl(pre + [(b'n', c)])))
                out.append('hdr.%s %s' % (k, fl(pre + [(b'n', b'a' + c + b'z')])))
                out.append('hdr.%s %s' % (k, fl(pre + [(b':' + c, b'v')])))
            out.append('hdr.req ' + fl([(b':method', b'G' + c), (b':authority', b'h')]))
            out.append('hdr.req ' + fl([(b':method', b'GET'), (b':authority', b'h' + c)]))
            out.append('hdr.req ' + fl([(b':method', b'GET'), (b':authority', b'h'), (b':scheme', b'h' + c), (b':path', b'/')]))
            out.append('hdr.req ' + fl([(b':method', b'GET'), (b':authority', b'h'), (b':scheme', b'https'), (b':path', b'/' + c)]))
            out.append('hdr.req ' + fl([(b':method', b'GET'), (b':authority', b'h'), (b':scheme', b'https'), (b':path', b'/?' + c)]))
            out.append('hdr.req ' + fl([(b':method', b'GET'), (b':authority', b'h'), (b':scheme', b'https'), (b':path', b'/#' + c)]))
            out.append('hdr.req ' + fl([(b':method', b'GET'), (b'host', b'h' + c)]))
            out.append('hdr.req ' + fl([(b':method', b'CONNECT'), (b':authority', b'h'), (b':protocol', b'websocket' + c)]))
            out.append('hdr.resp ' + fl([(b':status', b'20' + c)]))
            out.append('hdr.resp ' + fl([(b':status', c + b'00')]))
        # long names / values
        for n in (64, 65, 65535, 65536):
            out.append('hdr.trl ' + fl([(b'a' * n, b'v')]))
        out.append('hdr.req ' + fl([(b':method', b'GET'), (b':authority', b'h'), (b':scheme', b'https'), (b':path', b'/' + b'a' * 65534)]))
        out.append('hdr.req ' + fl([(b':method', b'GET'), (b':authority', b'h'), (b':scheme', b'https'), (b':path', b'/' + b'a' * 65533)]))
        # field counts around the HeaderMap capacity limit
        for k in kinds:
            pre = fl(base[k]) if base[k] else '-'
            npre = len(base[k])
            for n in (24575, 24576, 24577):
                out.append('hdr.many %s %d 61=62 -' % (k, n))
                out.append('hdr.many %s %d 61=62 %s' % (k, n - npre, pre))
                out.append('hdr.many %s %d %s=%s %s' % (k, n - npre, hx(b':protocol'), hx(b'websocket'), pre))
            out.append('hdr.many %s 70 61=62 %s' % (k, pre))
            out.append('hdr.many %s 3 61=62 %s' % (k, pre))
        # seeded random sections: mostly valid, mutated at one point
        pool_names = [f[0] for f in REG_GOOD] + [b'host', b'cookie', b'x'] + PSEUDO_ORDER
        for _ in range(4000 if tier == 'quick' else 300000):
            k = rng.choice(kinds)
            fs = list(base[k]) if rng.random() < 0.8 else []
            for _ in range(rng.randint(0, 5)):
                nm = rng.choice(pool_names)
                if nm in GOOD:
                    v = rng.choice(GOOD[nm] + BAD[nm][:2]) if rng.random() < 0.9 else rng.choice(BAD[nm])
                elif nm == b'host':
                    v = rng.choice(HOSTS)
                else:
                    v = rng.choice([b'v', b'', b'a b', b'\t', b'\x80'])
                fs.insert(rng.randint(0, len(fs)), (nm, v))
            r = rng.random()
            if r < 0.3 and fs:
                i = rng.randrange(len(fs))
                n, v = fs[i]
                which = rng.random()
                badb = bytes([rng.choice([0, 10, 13, 32, 34, 40, 58, 65, 90, 127, 128, 255, 9, 31])])
                if which < 0.5 and n:
                    j = rng.randrange(len(n) + 1)
                    fs[i] = (n[:j] + badb + n[j:], v)
                else:
                    j = rng.randrange(len(v) + 1)
                    fs[i] = (n, v[:j] + badb + v[j:])
            elif r < 0.4 and fs:
                del fs[rng.randrange(len(fs))]
            elif r < 0.5:
                fs.insert(rng.randint(0, len(fs)), rng.choice(REG_BAD))
            out.append('hdr.%s %s' % (k, fl(fs)))
        return out

    def gen_send(self, tier, rng):
        out = []
        methods = [b'GET', b'POST', b'OPTIONS', b'CONNECT', b'x-custom', b'connect', b'bad method', b'HEAD', b'PUT', b'DELETE']
        schemes = ['-', hx(b'http'), hx(b'https'), hx(b'ftp'), 'e', hx(b'a:b')]
        auths = ['-', hx(b'h'), hx(b'h:443'), hx(b'user@h'), hx(b'[::1]:1'), hx(b'a b')]
        paths = ['-', hx(b'/'), hx(b'/a?b=c'), hx(b'?x'), hx(b'*'), hx(b'#f'), hx(b'/a#f'), hx(b'/\xc3\xa9'), hx(b'a')]
        exts = ['-', 'wt', 'udp', 'ip', 'ws']
        hsets = [[], [(b'accept', b'*/*')], [(b'host', b'h')], [(b'host', b'other')], [(b'host', b'h'), (b'host', b'other')],
                 [(b'host', b'other'), (b'host', b'h')], [(b'a', b'1'), (b'b', b'2'), (b'a', b'3'), (b'host', b'h:443'), (b'c', b''), (b'b', b'4')],
                 [(b'A', b'x')], [(b'a', b'x\n')], [(b'host', b'')], [(b'a"b', b'x')]]
        for m in methods:
            for s in schemes:
                for a in auths:
                    for p in paths:
                        quick_skip = tier == 'quick' and rng.random() < 0.66 and not (m in (b'GET', b'CONNECT') and s in ('-', hx(b'https')))
                        if quick_skip:
                            continue
                        for x in (exts if m in (b'CONNECT', b'GET') else ['-', 'wt']):
                            h = rng.choice(hsets)
                            out.append('send.req m=%s s=%s a=%s p=%s x=%s h=%s' % (hx(m), s, a, p, x, fl(h)))
        for m in (b'GET', b'CONNECT', b'OPTIONS'):
            for a in ('-', hx(b'h')):
                for x in ('-', 'wt'):
                    for h in hsets:
                        out.append('send.req m=%s s=%s a=%s p=%s x=%s h=%s' % (hx(m), hx(b'https') if a != '-' else '-', a, hx(b'/p'), x, fl(h)))
                        out.append('send.req m=%s s=- a=%s p=- x=%s h=%s' % (hx(m), a, x, fl(h)))
        for x in exts:
            for sc in ('-', hx(b'https'), hx(b'http')):
                for pa in (hx(b'/'), hx(b'/chat?room=1'), hx(b'/a/b'), hx(b'?q')):
                    for h in ([], [(b'origin', b'https://h')], [(b'host', b'h:443')]):
                        au = hx(b'h:443')
                        if sc == '-':
                            continue            # a Uri with authority and path needs a scheme
                        out.append('send.req m=%s s=%s a=%s p=%s x=%s h=%s' % (hx(b'CONNECT'), sc, au, pa, x, fl(h)))
            out.append('send.req m=%s s=- a=%s p=- x=%s h=-' % (hx(b'CONNECT'), hx(b'h:443'), x))
            out.append('send.req m=%s s=- a=- p=%s x=%s h=%s' % (hx(b'CONNECT'), hx(b'/p?q'), x, fl([(b'host', b'h')])))
        # mixed-case authority / scheme with and without a Host field; :80 with http; dot segments, percent-encoding,
        # empty query, leading //; long values and large maps: "with the values the caller supplied", byte for byte
        for a in (b'EXAMPLE.com', b'Example.COM:443', b'h:80', b'H', b'user@Host', b'[::1]:80', b'xn--nxasmq6b.Example'):
            for sc in (b'https', b'HTTPS', b'Http', b'http', b'h2c+X'):
                for pa in (b'/', b'/a/../b', b'/./a', b'/a/..', b'/%7e', b'/%7E%2f', b'/a?', b'//a', b'/a/./b?x=../y', b'/..', b'/A/b'):
                    if tier == 'quick' and rng.random() < 0.6:
                        continue
                    hh = rng.choice([[], [(b'host', a)], [(b'host', a.lower())], [(b'x', b'y'), (b'host', a)]])
                    out.append('send.req m=%s s=%s a=%s p=%s x=- h=%s' % (hx(rng.choice([b'GET', b'POST', b'HEAD'])), hx(sc), hx(a), hx(pa), fl(hh)))
            out.append('send.req m=474554 s=6874747073 a=%s p=2f x=- h=-' % hx(a))
            out.append('send.req m=474554 s=- a=- p=2f x=- h=%s' % fl([(b'host', a)]))
            out.append('send.req m=434f4e4e454354 s=- a=%s p=- x=- h=-' % hx(a))
        for pa in (b'/a/../b', b'/./a', b'/a/..', b'/%7e', b'/a?', b'//a', b'/a/b/../../c?d=e', b'/.', b'/..', b'/a//b', b'/a/%2e%2e/b'):
            for au, sc in ((b'h', b'https'), (b'h:80', b'http'), (b'h:443', b'https')):
                out.append('send.req m=474554 s=%s a=%s p=%s x=- h=-' % (hx(sc), hx(au), hx(pa)))
            out.append('send.req m=474554 s=- a=- p=%s x=- h=%s' % (hx(pa), fl([(b'host', b'h')])))
        for n in (50, 300, 5000, 70000):
            v = bytes((0x21 + (i * 7) % 94) for i in range(n))
            big = [(b'x-long', v), (b'a', b'1'), (b'x-long', v[::-1]), (b'cookie', b'k=' + v[:n // 2])]
            out.append('send.req m=474554 s=6874747073 a=68 p=2f x=- h=%s' % fl(big))
            out.append('send.resp st=200 h=%s' % fl(big))
            out.append('send.trl h=%s' % fl(big))
        for n in (65, 100, 400):
            many = [(b'n%d-%s' % (i % (n // 3), b'x' * (i % 40)), b'v%d' % i) for i in range(n)]
            out.append('send.req m=504f5354 s=6874747073 a=68 p=2f x=- h=%s' % fl(many))
            out.append('send.resp st=404 h=%s' % fl(many))
            out.append('send.trl h=%s' % fl(many))
        for st in list(range(100, 1000, 53)) + [101, 103, 204, 304, 418, 451, 599, 600, 999]:
            out.append('send.resp st=%d h=%s' % (st, fl([(b'content-length', b'0')])))
        names = [b'a', b'b', b'host', b'set-cookie', b'x-y', b'accept']
        for _ in range(1500 if tier == 'quick' else 100000):
            h = [(rng.choice(names), rng.choice([b'1', b'2', b'h', b'', b'v w'])) for _ in range(rng.randint(0, 8))]
            m = rng.choice(methods[:5])
            a = rng.choice(auths[:5])
            if a == '-':
                s, p = '-', rng.choice(paths[:8])
            else:
                s = rng.choice(schemes[:5])
                p = '-' if s == '-' else rng.choice(paths[1:8])
            out.append('send.req m=%s s=%s a=%s p=%s x=%s h=%s' % (hx(m), s, a, p, rng.choice(exts), fl(h)))
            out.append('send.resp st=%d h=%s' % (rng.choice([100, 200, 204, 404, 500, 999, 101]), fl(h)))
            out.append('send.trl h=%s' % fl(h))
        for st in (99, 100, 200, 999, 1000, 0):
            for h in hsets:
                out.append('send.resp st=%d h=%s' % (st, fl(h)))
        for h in hsets:
            out.append('send.trl h=%s' % fl(h))
        return out

    def gen_long(self, tier, rng):
        """a bad byte at the first / middle / last position of long names (around http's 64-byte scratch buffer and its
        65535 limit), long values with a bad last byte; pure and end to end"""
        out = []
        base = self.base_msgs()
        bad = [b'"', b'A', b' ', b'(', b'\x7f', b'\x80', b':', b'\x00']
        for L in (63, 64, 65, 66, 200, 65535):
            for c in (bad if L < 1000 else bad[:2]):
                for pos in (0, L // 2, L - 1):
                    n = b'a' * pos + c + b'a' * (L - pos - 1)
                    for k in ('req', 'resp', 'trl'):
                        out.append('hdr.%s %s' % (k, fl(base[k] + [(n, b'v')])))
                        out.append('hdr.%s %s' % (k, fl([(n, b'v')] + base[k])))
            for k in ('req', 'resp', 'trl'):
                out.append('hdr.%s %s' % (k, fl(base[k] + [(b'a' * L, b'v')])))
                out.append('hdr.%s %s' % (k, fl(base[k] + [(b'a' * (L - 1) + b'-', b'v')])))
        for L in (64, 200, 70000):
            for c in (b'\x00', b'\n', b'\r', b'\x7f', b'\x1f', b'\t', b'\xff')[:(7 if L < 1000 else 2)]:
                for pos in (0, L - 1):
                    v = b'v' * pos + c + b'v' * (L - pos - 1)
                    for k in ('req', 'resp', 'trl'):
                        out.append('hdr.%s %s' % (k, fl(base[k] + [(b'n', v)])))
                    out.append('hdr.req %s' % fl([(b':method', b'GET'), (b':scheme', b'https'), (b':authority', b'h'), (b':path', b'/#' + v)]))
        return out

    @staticmethod
    def to_e2e(case):
        w = case.split()
        if w[0] in ('hdr.req', 'hdr.resp'):
            return ['e2e.' + w[0][4:] + ' ' + w[1]]
        if w[0] == 'hdr.trl':
            # recv_data then recv_trailers (both roles), plus one of the other arms of poll_recv_trailers per role:
            # direct read / Pending with the block stashed again / frame cut across polls (chosen by the case text)
            modes = ('direct', 'split', 'split2')
            k = sum(w[1].encode()) % 3
            return ['e2e.trl srv ' + w[1], 'e2e.trl cli ' + w[1],
                    'e2e.trlx srv %s %s' % (modes[k], w[1]), 'e2e.trlx cli %s %s' % (modes[(k + 1) % 3], w[1])]
        if w[0] == 'hdr.many':
            kinds = ['trl.srv', 'trl.cli'] if w[1] == 'trl' else [w[1]]
            return ['e2e.many %s %s' % (k, ' '.join(w[2:])) for k in kinds]
        if w[0] == 'send.req':
            return ['wire.req ' + ' '.join(w[1:])]
        if w[0] == 'send.resp':
            return ['wire.resp ' + ' '.join(w[1:])]
        if w[0] == 'send.trl':
            return ['wire.trl srv ' + w[1], 'wire.trl cli ' + w[1]]
        return []

    def corpus(self):
        # every corpus line about the pure functions is also run through the real call sites
        lines = Property.corpus(self)
        out = []
        for l in lines:
            out.append(l)
            out += self.to_e2e(l)
        return out

    def cases(self, tier, rng):
        pure = self.gen_hdr(tier, rng) + self.gen_long(tier, rng) + self.gen_send(tier, rng)
        e2e = []
        for c in pure:
            e2e += self.to_e2e(c)
        return self.gen_http(tier, rng) + pure + e2e

    # ------------------------------------------------------------------ comparison
    def canon(self, case, out):
        return out

    def send_ok(self, case, out):
        """T3 as a checker on one emitted list: pseudo fields first, fixed order, each at most once, caller's values,
        then exactly the header map in iteration order"""
        w = out.split()
        if not w:
            return False
        if w[0] in ('badinput', 'err'):
            return True                      # the statement does not constrain refusals of the send API
        if w[0] != 'ok' or len(w) != 2:
            return False
        em = unfl(w[1])
        args = dict(a.split('=', 1) for a in case.split()[1:])
        hmap = unfl(args['h'])
        # expected iteration order of the caller's map: grouped by first occurrence
        order, groups = [], {}
        for n, v in hmap:
            if n not in groups:
                groups[n] = []
                order.append(n)
            groups[n].append(v)
        flat = [(n, v) for n in order for v in groups[n]]
        k = 0
        while k < len(em) and em[k][0].startswith(b':'):
            k += 1
        ps, rs = em[:k], em[k:]
        if rs != flat or any(n.startswith(b':') for n, _ in rs):
            return False
        idx = [PSEUDO_ORDER.index(n) if n in PSEUDO_ORDER else -1 for n, _ in ps]
        if -1 in idx or len(idx) != len(set(idx)):
            return False          # only defined pseudo fields, each at most once (no order among them is demanded)
        d = dict(ps)
        fam = case.split()[0]
        if fam == 'send.trl':
            return not ps
        if fam == 'send.resp':
            return set(d.keys()) == {b':status'} and d[b':status'] == args['st'].encode()
        if d.get(b':method') != bytes.fromhex(args['m']):
            return False
        if b':status' in d:
            return False
        a = args['a']
        if (a == '-') != (b':authority' not in d):
            return False
        hosts = [v for n, v in rs if n == b'host']
        if a == '-' and not hosts:
            return False                     # no authority information at all must not be sent
        if a != '-' and hosts and hosts[0] != bytes.fromhex(a):
            return False                     # URI authority and (first) Host differ
        if a != '-' and d[b':authority'] != bytes.fromhex(a):
            return False
        # RFC 9114 4.3.1 / 4.4, RFC 9220: every request carries :scheme and :path, except a plain CONNECT (no :protocol)
        # which carries neither; an extended CONNECT (Protocol extension set by the caller) carries both and :protocol
        plain_connect = d[b':method'] == b'CONNECT' and args['x'] == '-'
        if plain_connect:
            if b':scheme' in d or b':path' in d or b':protocol' in d:
                return False
        else:
            if b':scheme' not in d or b':path' not in d:
                return False
            if d[b':method'] == b'CONNECT' and b':protocol' not in d:
                return False
        s = args['s']
        if b':scheme' in d and s != '-' and d[b':scheme'] != (b'' if s == 'e' else bytes.fromhex(s)):
            return False
        p = args['p']
        if b':path' in d and p != '-':
            raw = bytes.fromhex(p).split(b'#')[0]
            if d[b':path'] != (raw or b'/'):
                return False
        if b':protocol' in d:
            names = {'wt': b'webtransport', 'udp': b'connect-udp', 'ip': b'connect-ip', 'ws': b'websocket'}
            if args['x'] == '-' or d[b':protocol'] != names[args['x']] or d[b':method'] != b'CONNECT':
                return False
        return True

    # which codes a refusal must show, per end-to-end family: (StreamError code, RESET_STREAM, STOP_SENDING);
    # None = not constrained by the statement (the server resets its own send half; a client does not).
    # (F19, fixed: the client used to put H3_REQUEST_CANCELLED into STOP_SENDING while reporting H3_MESSAGE_ERROR)

    def refusal_ok(self, fam, kind, w, code):
        toks = dict(t.split('=', 1) for t in w[1:] if '=' in t)
        if not fam.startswith('e2e.'):
            return True                       # the pure functions do not choose codes
        if toks.get('code') != code:
            return False
        if kind == 'req':
            return toks.get('reset') == code and toks.get('stop') == code
        if kind == 'resp':
            return toks.get('stop') == code
        return toks.get('stop') == code       # trailers, both roles

    def spec_ok(self, case, out, spec):
        cw = case.split()
        fam = cw[0]
        w = out.split()
        if not w or w[0] not in ('ok', 'err', 'badinput'):
            return False                      # panic, crash, hang, connection error, setup failure, ...
        if fam.startswith('send.') or fam.startswith('wire.'):
            return self.send_ok('send.' + fam.split('.')[1] + ' ' + ' '.join(a for a in cw[1:] if '=' in a), out)
        if spec is None:
            return True
        sw = spec.split()
        kind = cw[1].split('.')[0] if fam.endswith('.many') else fam.split('.')[1]
        if w[0] == 'err' and not self.refusal_ok(fam, kind, w, str(270)):
            return False                      # every refusal, of a malformed or of a well-formed section, is H3_MESSAGE_ERROR
        if sw[0] == 'any':
            return w[0] in ('ok', 'err')
        if sw[0] == 'refuse':
            return w[0] == 'err' and (not fam.startswith('e2e.') or self.refusal_ok(fam, kind, w, sw[1]))
        return False

    def nontrivial_key(self, case, impl_out):
        w = case.split()
        if w[0].startswith('hdr.') or w[0].startswith('http.') or w[0].startswith('e2e.'):
            return case if w[-1] != '-' or w[0].endswith('.many') else None
        return case

    def shrink_candidates(self, case):
        w = case.split()
        if w[0] in ('hdr.req', 'hdr.resp', 'hdr.trl', 'e2e.req', 'e2e.resp', 'e2e.trl'):
            if w[0] == 'e2e.trl':
                w = [w[0] + ' ' + w[1], w[2]]
            fs = unfl(w[1])
            out = []
            for i in range(len(fs)):
                out.append('%s %s' % (w[0], fl(fs[:i] + fs[i + 1:])))
            for i, (n, v) in enumerate(fs):
                for j in range(len(n)):
                    out.append('%s %s' % (w[0], fl(fs[:i] + [(n[:j] + n[j + 1:], v)] + fs[i + 1:])))
                for j in range(len(v)):
                    out.append('%s %s' % (w[0], fl(fs[:i] + [(n, v[:j] + v[j + 1:])] + fs[i + 1:])))
            return [c for c in out if c != case][:400]
        return []


PROP = P()
