from core import Property, spec_match

U64 = 2 ** 64
B = [2 ** 6, 2 ** 14, 2 ** 30, 2 ** 62]


def enc(x, l):
    pre = {1: 0, 2: 1, 4: 2, 8: 3}[l]
    v = (pre << (8 * l - 2)) | x
    return v.to_bytes(l, 'big')


class P(Property):
    id = 'C16'
    gen_modules = ['gen_varint']
    properties_v = 'Properties/C16.v'
    model_targets = ['Model/Varint.vo', 'Model/VarintExtra.vo', 'Model/ChunkedVarint.vo', 'Spec/RFC9000.vo']
    extract_v = 'Extract/ExtractC16.v'
    driver_ml = 'C16_driver.ml'
    harness_bin = 'c16'
    rule = ('corpus/C16 (minimal failing inputs of every C16 mutant so far) first; cases: vi.enc/vi.size for all values 0..2^16, +-2 around 2^6,2^14,2^30,2^62 and seeded random 62/64-bit values; '
            'vi.dec for all byte strings of length 0..2, every form (1,2,4,8 bytes, minimal and non-minimal) at every truncation length '
            'and with trailing bytes, and the same encodings as non-contiguous buffers cut at every position (vi.decc); vi.try64/vi.tryus/vi.push (TryFrom<u64>, TryFrom<usize>, PushId::try_from) and vi.wvar/vi.gvar (the write_var/get_var wrappers of proto/coding.rs and proto/varint.rs, contiguous and cut) on the same value sets; sid/sid.add for all four stream kinds x boundary indices x increments 0..usize::MAX (initiator/direction read from the two low bits of `id + 0`, not from words); '
            'sid.disp (Display for StreamId: lenient word reading + the number), sid.enc (Encode for StreamId), st.enc/st.dec (StreamType), vi.sess/vi.sessd (SessionId::try_from, Encode, Decode) on ids 0..300, form boundaries, random valid ids and the refused range '
            '(2^62-2..2^62+2, 2^63+-1, 2^64-2, 2^64-1 and seeded random values in [2^62,2^64)); vi.from (From<u8|u16|u32>, from_u32); vi.encp (encode onto a Vec / BytesMut / fixed slice that already holds 1..40 bytes); '
            'vi.dec/vi.decc/vi.gvar inputs of up to 64 bytes in up to 6 chunks; every one of the 2^(n-1) chunkings of complete 1/2/4/8-byte '
            'forms with 0..2 trailing bytes and of every truncation of them (vi.decc, and through get_var / StreamType / SessionId). '
            'Non-contiguous families (vi.decc vi.gvar st.dec vi.sessd): the MODEL column runs the chunked decoders of Model/ChunkedVarint.v '
            '(bytes-crate provided methods over chunk()/advance()) on the same chunk list, and both sides print the chunks of the buffer '
            'left behind.  After a failed decode the UnexpectedEnd integer and the buffer left behind are compared implementation-vs-model '
            'only (C16_failed_decode_position describes what the code does); the specification column says `err * *`. '
            'non-trivial = distinct (family, form of first byte / value class by bit length, result kind) triples are NOT what is counted; '
            'counted are distinct cases whose input has at least one byte or a value > 0 (i.e. past the empty-input decision)')

    def cases(self, tier, rng):
        out = []
        top = 2 ** 16
        for x in range(0, top + 1):
            out.append('vi.enc %d' % x)
        for x in range(0, top + 1):
            out.append('vi.size %d' % x)
        edge = set()
        for b in B + [U64]:
            for d in range(-2, 3):
                if 0 <= b + d < U64:
                    edge.add(b + d)
        nrand = 2000 if tier == 'quick' else 400000
        for _ in range(nrand):
            edge.add(rng.getrandbits(rng.choice([8, 16, 31, 33, 62, 62, 62, 64])))
        for x in sorted(edge):
            out.append('vi.enc %d' % x)
            out.append('vi.size %d' % x)
        # every other checked constructor, and the write_var/get_var wrappers h3's own code calls
        for x in sorted(edge)[:3000 if tier == 'quick' else 100000] + [2 ** 62 - 1, 2 ** 62, 2 ** 62 + 1, 2 ** 63, U64 - 1]:
            out.append('vi.try64 %d' % x)
            out.append('vi.tryus %d' % x)
            out.append('vi.push %d' % x)
            out.append('vi.wvar c %d' % x)
            out.append('vi.wvar v %d' % x)
        for x in list(range(0, 300)) + [16383, 16384, 16385, 2 ** 30 - 1, 2 ** 30, 2 ** 32, 2 ** 32 + 1]:
            out.append('vi.wvar c %d' % x)
            out.append('vi.wvar v %d' % x)
        for b in range(256):
            out.append('vi.esz %d' % b)
        # decode: all strings of length 0..2
        out.append('vi.dec -')
        for a in range(256):
            out.append('vi.dec %02x' % a)
        for a in range(65536):
            out.append('vi.dec %04x' % a)
        # every form, minimal or not, every truncation, with and without trailing bytes
        vals = [0, 1, 63, 64, 16383, 16384, 2 ** 30 - 1, 2 ** 30, 2 ** 62 - 1] + [rng.getrandbits(62) for _ in range(50 if tier == 'quick' else 5000)]
        for x in vals:
            for l in (1, 2, 4, 8):
                if x < 2 ** (8 * l - 2):
                    e = enc(x, l)
                    for t in range(0, l + 1):
                        out.append('vi.dec ' + (e[:t].hex() or '-'))
                    out.append('vi.dec ' + e.hex() + bytes(rng.getrandbits(8) for _ in range(rng.randint(1, 5))).hex())
        # the same encodings presented as non-contiguous buffers: every split position (1 or 2 cuts)
        for x in vals:
            for l in (1, 2, 4, 8):
                if x < 2 ** (8 * l - 2):
                    e = enc(x, l) + bytes(rng.getrandbits(8) for _ in range(rng.randint(0, 3)))
                    n = len(e)
                    for i in range(1, n):
                        out.append('vi.decc %s.%s' % (e[:i].hex(), e[i:].hex()))
                        for j in range(i + 1, n):
                            if (i + j + x) % 3 == 0 or l <= 4:
                                out.append('vi.decc %s.%s.%s' % (e[:i].hex(), e[i:j].hex(), e[j:].hex()))
                    # truncated and split
                    for t in range(2, l):
                        out.append('vi.decc %s.%s' % (e[:1].hex(), e[1:t].hex()))
                    # the same through get_var (both trait copies), contiguous and cut
                    out.append('vi.gvar c %s' % e.hex())
                    out.append('vi.gvar v %s' % e.hex())
                    for i in range(1, n):
                        out.append('vi.gvar %s %s.%s' % ('c' if (i + x) % 2 else 'v', e[:i].hex(), e[i:].hex()))
                    for t in range(0, l):
                        out.append('vi.gvar c %s' % (e[:t].hex() or '-'))
        nr = 3000 if tier == 'quick' else 300000
        for _ in range(nr):
            n = rng.randint(3, 12)
            out.append('vi.dec ' + bytes(rng.getrandbits(8) for _ in range(n)).hex())
        # stream ids
        idx = [0, 1, 2, 3, 5, 2 ** 14, 2 ** 30, 2 ** 60 - 3, 2 ** 60 - 2, 2 ** 60 - 1]
        incs = [0, 1, 2, 3, 100, 2 ** 32, 2 ** 60 - 2, 2 ** 60 - 1, 2 ** 60, 2 ** 62, 2 ** 63, U64 - 2, U64 - 1]
        for kind in range(4):
            for i in idx:
                sid = 4 * i + kind
                out.append('sid %d' % sid)
                for k in incs:
                    out.append('sid.add %d %d' % (sid, k))
        # the refused range: boundaries and random values of 2^62 or more
        big = [2 ** 62 - 2, 2 ** 62 - 1, 2 ** 62, 2 ** 62 + 1, 2 ** 62 + 2, 2 ** 63 - 1, 2 ** 63, 2 ** 63 + 1,
               3 * 2 ** 62 - 1, 3 * 2 ** 62, U64 - 2, U64 - 1]
        big += [rng.randrange(2 ** 62, U64) for _ in range(200 if tier == 'quick' else 20000)]
        big += [2 ** 62 + rng.getrandbits(rng.choice([3, 16, 40])) for _ in range(50 if tier == 'quick' else 5000)]
        # Display, Encode for StreamId, StreamType, SessionId: small ids first (a failing case is reported as found)
        ids = list(range(0, 301))
        for bnd in B:
            ids += [bnd + d for d in range(-2, 3) if bnd + d < 2 ** 62]
        ids += [2 ** 32 - 1, 2 ** 32, 2 ** 32 + 1]
        ids += [4 * i + k for i in idx for k in range(4)]
        ids += [rng.getrandbits(rng.choice([8, 16, 31, 33, 62, 62])) for _ in range(300 if tier == 'quick' else 30000)]
        for v in ids + big:
            out.append('sid %d' % v)
            out.append('sid.disp %d' % v)
            out.append('sid.enc %d' % v)
            out.append('st.enc %d' % v)
            out.append('vi.sess %d' % v)
        for v in big:
            out.append('vi.try64 %d' % v)
            out.append('vi.tryus %d' % v)
            out.append('vi.push %d' % v)
            out.append('vi.enc %d' % v)
        # StreamType / SessionId decode: every form at every truncation, contiguous and cut, with trailing bytes
        for x in vals:
            for l in (1, 2, 4, 8):
                if x < 2 ** (8 * l - 2):
                    e = enc(x, l)
                    tail = bytes(rng.getrandbits(8) for _ in range(rng.randint(0, 3)))
                    for fam in ('st.dec', 'vi.sessd'):
                        for t in range(0, l):
                            out.append('%s %s' % (fam, e[:t].hex() or '-'))
                        out.append('%s %s' % (fam, (e + tail).hex()))
                        for i in range(1, l):
                            out.append('%s %s.%s' % (fam, e[:i].hex(), (e[i:] + tail).hex()))
                            if i + 1 < l:
                                out.append('%s %s.%s' % (fam, e[:i].hex(), e[i:i + 1].hex()))
        # infallible constructors
        for x in range(256):
            out.append('vi.from 8 %d' % x)
        for x in list(range(0, 300)) + [16383, 16384, 16385, 65535]:
            out.append('vi.from 16 %d' % x)
        for x in list(range(0, 300)) + [16383, 16384, 65535, 65536, 2 ** 30 - 1, 2 ** 30, 2 ** 30 + 1, 2 ** 32 - 1] + [rng.getrandbits(32) for _ in range(100)]:
            out.append('vi.from 32 %d' % x)
            out.append('vi.from f32 %d' % x)
        # non-empty targets
        for x in [0, 1, 63, 64, 16383, 16384, 2 ** 30 - 1, 2 ** 30, 2 ** 62 - 1, 2 ** 62] + [rng.getrandbits(rng.choice([6, 14, 30, 62])) for _ in range(60 if tier == 'quick' else 6000)]:
            for which in 'vbs':
                pre = bytes(rng.getrandbits(8) for _ in range(rng.randint(1, 40)))
                out.append('vi.encp %s %s %d' % (which, pre.hex(), x))
        # long inputs (up to 64 bytes), contiguous and in up to 6 chunks
        for _ in range(1500 if tier == 'quick' else 150000):
            n = rng.randint(14, 64)
            bs = bytes(rng.getrandbits(8) for _ in range(n))
            out.append('vi.dec ' + bs.hex())
            cuts = sorted(set(rng.randint(1, n - 1) for _ in range(rng.randint(1, 5))))
            parts = [bs[a:b_].hex() for a, b_ in zip([0] + cuts, cuts + [n])]
            out.append('vi.decc ' + '.'.join(parts))
            out.append('vi.gvar %s %s' % (rng.choice('cv'), '.'.join(parts)))
        # EVERY chunking (all 2^(n-1) ways to cut n bytes) of complete forms with 0..2 trailing bytes and of every
        # truncation: the position after a failed decode and the UnexpectedEnd integer are compared impl-vs-model
        def all_chunkings(bs):
            n = len(bs)
            for m in range(1 << (n - 1)):
                parts, prev = [], 0
                for i in range(1, n):
                    if m >> (i - 1) & 1:
                        parts.append(bs[prev:i])
                        prev = i
                parts.append(bs[prev:])
                yield '.'.join(p_.hex() for p_ in parts)
        out.append('vi.decc -')
        k = 0
        for x in [0, 63, 64, 16383, 2 ** 30 - 1, 2 ** 30, 2 ** 62 - 1] + [rng.getrandbits(62) for _ in range(3 if tier == 'quick' else 60)]:
            for l in (1, 2, 4, 8):
                if x >= 2 ** (8 * l - 2):
                    continue
                e = enc(x, l)
                for t in range(1, l):                      # truncated: 1..l-1 bytes present
                    for ch in all_chunkings(e[:t]):
                        k += 1
                        out.append('vi.decc ' + ch)
                        fam = ('vi.gvar c', 'vi.gvar v', 'st.dec', 'vi.sessd')[k % 4]
                        out.append('%s %s' % (fam, ch))
                for extra in (0, 1, 2):
                    full = e + bytes(rng.getrandbits(8) for _ in range(extra))
                    for ch in all_chunkings(full):
                        k += 1
                        if l == 8 and extra and k % 3:
                            continue
                        out.append('vi.decc ' + ch)
                        if k % 5 == 0:
                            out.append('%s %s' % (('vi.gvar c', 'vi.gvar v', 'st.dec', 'vi.sessd')[k % 4], ch))
        for _ in range(500 if tier == 'quick' else 50000):
            sid = rng.getrandbits(rng.choice([4, 16, 62]))
            out.append('sid %d' % sid)
            out.append('sid.add %d %d' % (sid, rng.getrandbits(rng.choice([3, 30, 61, 64]))))
        return out

    def canon(self, case, out):
        # the integer carried by UnexpectedEnd and the buffer position after a failed decode are not part of the
        # property (a truncated encoding must be *reported as such*): the specification column answers `err * *` and never
        # demands them.  They ARE what the code does (C16_failed_decode_position), so implementation and model are compared
        # on them in full - `err <integer> <chunks left behind>` is kept here.
        w = out.split()
        if case.startswith('sid.disp') and len(w) == 4 and w[0] == 'ok':
            # the number Display prints is compared here; its words are read leniently and compared in
            # extra_checks (a wording the reader does not recognise, `?`, is not a failure of the property)
            return 'ok ' + w[3]
        if w and w[0] == 'panic':
            return 'panic'
        return out

    CHUNKED = ('vi.decc', 'vi.gvar', 'st.dec', 'vi.sessd')

    def spec_ok(self, case, out, spec):
        if spec is None:
            return True
        o = self.canon(case, out)
        if case.split()[0] in self.CHUNKED:
            # the oracle knows the flat rest only: forget the chunk boundaries of the buffer left behind
            w = o.split()
            if len(w) == 3 and w[0] in ('ok', 'err'):
                w[2] = w[2].replace('.', '') or '-'
                o = ' '.join(w)
        return spec_match(o, self.canon(case, spec))

    def extra_checks(self, ctx):
        """Display for StreamId: the initiator / direction words, where recognisable, must name the RFC 9000 kind"""
        out = []
        for (c, i, m, sp) in ctx['rows']:
            if not c.startswith('sid.disp') or sp is None:
                continue
            wi, wm, ws = i.split(), m.split(), sp.split()
            if len(ws) != 4 or ws[0] != 'ok':
                continue
            for who, w in (('impl', wi), ('model', wm)):
                if len(w) == 4 and w[0] == 'ok' and any(a != '?' and a != b for a, b in zip(w[1:3], ws[1:3])):
                    kind = 'property-fails-on-input' if who == 'impl' else 'model-vs-spec'
                    out.append((kind, {'input': c, 'impl': i, 'model': m, 'spec': sp,
                                       'what': 'Display for StreamId names the wrong initiator/direction'}))
                    break
            if out:
                break
        return out

    def nontrivial_key(self, case, impl_out):
        w = case.split()
        if w[0] == 'vi.dec' and w[1] == '-':
            return None
        if w[0] in ('vi.enc', 'vi.size', 'sid') and w[1] == '0':
            return None
        return case

    def shrink_candidates(self, case):
        w = case.split()
        if w[0] == 'vi.dec' and w[1] != '-' and len(w[1]) > 2:
            h = w[1]
            return ['vi.dec ' + (h[:-2] or '-')]
        if w[0] in ('vi.enc', 'vi.size', 'vi.try64', 'vi.tryus', 'vi.push', 'vi.sess', 'sid', 'sid.disp', 'sid.enc', 'st.enc') \
                and len(w) == 2 and w[1].isdigit() and int(w[1]) > 0:
            x = int(w[1])
            return ['%s %d' % (w[0], c) for c in sorted({x // 2, x - 1})]
        return []


PROP = P()
